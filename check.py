#!/venv/bin/python
"""Single entry point: check.py <Cxx> [--tier quick|thorough] [--replay file]

exit 0  property held on everything explored (KNOWN-FINDING lines possible)
exit 1  VIOLATION property=<id> replay=<path>
exit 2  harness error / inconclusive (never a violation)
"""
import os
import sys

sys.path.insert(0, os.path.dirname(os.path.abspath(__file__)))
os.chdir(os.path.dirname(os.path.abspath(__file__)))


def _ensure_deps():
    try:
        import hypothesis  # noqa: F401
    except ImportError:
        import subprocess

        subprocess.run(
            [sys.executable, "-m", "pip", "install", "--no-index", "--quiet",
             "--find-links", "/opt/veriftools/wheels", "hypothesis"],
            check=False,
        )


if __name__ == "__main__":
    _ensure_deps()
    from vlib import runner

    try:
        rc = runner.main()
    except SystemExit:
        raise
    except BaseException as e:  # noqa: BLE001
        import traceback

        traceback.print_exc()
        print("HARNESS-ERROR", type(e).__name__, e)
        rc = 2
    sys.stdout.flush()
    sys.stderr.flush()
    os._exit(rc)  # no atexit hooks: nothing left behind by a library can delay the exit
