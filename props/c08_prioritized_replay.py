"""C08 Prioritized replay samples proportionally and tracks priorities correctly.

Operation sequences (add / sample / update_priority / reset_max_priority /
select_task) are drawn as JSON op lists and interpreted against the real
``LAP``, ``PrioritizedReplayBuffer``, ``SubtrajectoryReplayBufferPER`` (bare or
behind ``MultiTaskReplayBuffer``) and against a test-side model:

* sampling oracle -- exact cumulative intervals in rational arithmetic
  (``fractions.Fraction``; every float64 is a rational).  Entry ``i`` owns
  ``(C[i-1], C[i]]`` (the generalised inverse CDF ``min{i : C_i >= point}``);
  the point is ``u*S`` (iid) or ``(k+u_k)*S/B`` (stratified PER).  Uniforms
  are placed through ``vlib.instruments.StubGenerator``.  The returned index
  (identified through the *content* of the returned batch: every stored
  observation is unique) must own the point up to a rounding allowance
  ``delta`` that is a rigorous bound for float64 cumsum + product
  (``(2n+2)*2^-53*S`` iid, ``(2n+12)*2^-53*S`` stratified) and is **zero** when
  every intermediate of the float computation is exactly representable
  (then a tie is resolved by the inverse-CDF convention, nothing else).
* bookkeeping oracle -- a slot model of priorities: new slots get the buffer's
  current ``max_priority``, an update writes exactly the slots of the last
  sampled batch, nothing else ever changes, ``max_priority`` bounds.

See DESIGN.md section 5 (C08).
"""
from __future__ import annotations

import math
from fractions import Fraction

import numpy as np
from hypothesis import strategies as st

from vlib import gen
from vlib.core import HarnessError, Outcome, SubCheck, check, report
from vlib.instruments import StubGenerator

PROPERTY = "C08"
RULE = (
    "Cases are JSON operation lists (add with episode end none/terminated/truncated, sample with "
    "uniforms placed by a stub generator on / next to / inside chosen cumulative intervals or drawn by "
    "a seeded real generator, update_priority with equal / tiny 1e-12 / huge 1e12 / mixed values passed "
    "as float64, float32 or jax arrays, reset_max_priority, select_task) interpreted against the real "
    "buffer and a slot model; ops that are invalid in the current state are remapped (a sample with "
    "nothing samplable first adds a terminated transition, an update with no previous sample first "
    "samples). ops_lap / ops_per / multitask(lap, per): non-trivial = a sample taken after an update "
    "while the stored priorities of the filled region take >= 2 distinct values (these buffers have no "
    "mask). ops_subtraj / multitask(subtraj) / vectors: additionally >= 1 entry of the filled region is "
    "masked or has zero weight at that sample. importance: >= 2 distinct priorities in the batch and "
    "beta > 0. priority_fns: >= 2 distinct errors, on both sides of min_priority for LAP. frequencies: "
    "non-uniform positive weights (plus a masked entry for the subtrajectory buffer). Distinct = "
    "distinct (buffer kind, weight vector at the qualifying samples)."
)
ASSUMPTIONS = [
    "uniform variates are restricted to [2^-53, 1-2^-53], the non-zero values a numpy Generator can return; "
    "u = 0 is outside the open interval of the property",
    "every sample is taken when at least one entry of the filled region has priority*mask > 0 (by construction); "
    "a zero total priority is outside the input domain",
    "priorities supplied to update_priority are positive (lap_priority / per_priority are positive)",
    "sampling convention at exact interval boundaries is the generalised inverse CDF min{i : C_i >= u*S} named by the "
    "property's mechanism; it is demanded only when the float64 computation is provably exact, otherwise the adjacent "
    "index is accepted within (2n+2)*2^-53*S (iid) / (2n+12)*2^-53*S (stratified) of a boundary",
    "'an update sets the transitions of the most recently sampled batch' is read per slot: an add between sample and "
    "update that overwrites a sampled slot is allowed and the update still targets the slot",
    "subtrajectory validity (mask_) is taken from the buffer under test; its correctness is property C04",
    "capacity >= horizon + 2 for the subtrajectory buffer; FIFO slot order is property C02 and is used by the model",
    "max_priority after an update is only required to lie between the true stored maximum and the running maximum",
    "lap_priority values are compared with the formula only for min_priority = 1 where docstring max(|d|^a, p_min) and "
    "code max(|d|, p_min)^a coincide; positivity and monotonicity are checked for all min_priority",
    "frequencies: chi-square upper-tail test at p = 1e-9 per case over entries with expected count >= 40 (rarer entries "
    "pooled, or bounded by an exact binomial tail at 1e-9); stratified sampling has smaller variance than iid sampling, "
    "so the same threshold is conservative for PER",
    "all update_priority calls of one history pass their values the same way (float64 numpy, float32 numpy, or float32 "
    "jax arrays as the algorithms do); mixing float64 values that are not float32-representable with jax arrays is not "
    "generated (see report: max_priority can then fall 1 float32-ulp below a stored priority)",
]

EPS = Fraction(1, 2 ** 53)
U_MIN = 2.0 ** -53
U_MAX = 1.0 - 2.0 ** -53
KINDS = ("lap", "per", "subtraj")


_DEFAULT_SPECS = [["mid", 0, 0.5, 1], ["hi", 1, 0.5, 1], ["frac", 0, 0.37, 1], ["lo+", 2, 0.5, 1]]


class _Stop(Exception):
    """A recorded (known) finding was hit; the rest of the history is not interpretable."""

    def __init__(self, label):
        super().__init__(label)
        self.label = label


# ----------------------------------------------------------------------------
# exact interval arithmetic

def _F(x):
    return Fraction(float(x))


def _representable(x: Fraction) -> bool:
    try:
        return Fraction(float(x)) == x
    except OverflowError:
        return False


def _cum(weights):
    c = [Fraction(0)]
    for w in weights:
        c.append(c[-1] + _F(w))
    return c


def _point_iid(u, C):
    return _F(u) * C[-1]


def _point_strat(u, k, B, C):
    return (k + _F(u)) * C[-1] / B


def _delta_iid(u, C):
    """0 if the float computation cumsum + u*total is exact, else a rigorous bound."""
    n = len(C) - 1
    S = C[-1]
    if all(_representable(c) for c in C) and _representable(_F(u) * S):
        return Fraction(0)
    return (2 * n + 2) * EPS * S


def _delta_strat(u, k, B, C):
    n = len(C) - 1
    S = C[-1]
    if all(_representable(c) for c in C):
        seg = S / B
        vals = [seg, k * seg, (k + 1) * seg, _F(u) * seg, (k + _F(u)) * seg]
        if all(_representable(v) for v in vals):
            return Fraction(0)
    return (2 * n + 12) * EPS * S


def _owns(i, p, C, delta):
    """Does entry i own point p (inverse-CDF convention, +- delta)?"""
    if delta == 0:
        return C[i] < p <= C[i + 1]
    return C[i] - delta <= p <= C[i + 1] + delta


def _owner(p, C):
    for i in range(len(C) - 1):
        if C[i] < p <= C[i + 1]:
            return i
    return None


def _nudge(u, n):
    for _ in range(abs(n)):
        u = float(np.nextafter(u, 2.0 if n > 0 else -1.0))
    return u


def _clip_u(u):
    return min(max(float(u), U_MIN), U_MAX)


def _best_u(u0, err):
    """Among u0 and its +-2 ulp neighbours inside [U_MIN, U_MAX] the one with the smallest err(u)."""
    cands = {_clip_u(_nudge(u0, d)) for d in (-2, -1, 0, 1, 2)}
    return min(sorted(cands), key=lambda c: (err(c), c))


def _place_u(spec, weights, C, k=None, B=None):
    """Turn a drawn spec [kind, rank, frac, nudge] into a uniform variate.

    kinds: frac (u given), min, max, hi / lo (on the upper / lower boundary of
    the rank-th positive entry, exactly if representable), hi- / lo+ (nudge ulps
    inside), mid.  For stratified sampling (k, B given) the entry is chosen
    among those intersecting stratum k and the target is clipped to it.
    """
    kind, rank, frac, nudge = spec
    if kind == "frac":
        return _clip_u(frac)
    if kind == "min":
        return U_MIN
    if kind == "max":
        return U_MAX
    S = C[-1]
    pos = [i for i, w in enumerate(weights) if w > 0]
    if k is None:
        lo_k, width = Fraction(0), S
    else:
        width = S / B
        lo_k = k * width
        pos = [i for i in pos if C[i + 1] > lo_k and C[i] < lo_k + width] or pos
    j = pos[rank % len(pos)]
    base = kind.rstrip("+-")
    t = {"hi": C[j + 1], "lo": C[j], "mid": (C[j] + C[j + 1]) / 2}[base]
    t = min(max(t, lo_k), lo_k + width)
    u0 = _clip_u(float((t - lo_k) / width))
    u = _best_u(u0, lambda c: abs(lo_k + _F(c) * width - t))
    if kind == "hi-":
        u = _nudge(u, -max(1, nudge))
    elif kind == "lo+":
        u = _nudge(u, max(1, nudge))
    return _clip_u(u)


# ----------------------------------------------------------------------------
# the interpreter

class _TaskModel:
    def __init__(self, cap):
        self.cap = cap
        self.prio = [None] * cap  # python floats, exact float64 values
        self.obs = [None] * cap  # observation id stored in the slot
        self.cur = 0
        self.ins = 0
        self.max_hi = 1.0  # running maximum (upper bound for max_priority)
        self.n_updates = 0

    def write(self, oid, p):
        s = self.ins
        self.obs[s] = oid
        self.prio[s] = p
        self.ins = (self.ins + 1) % self.cap
        self.cur = min(self.cur + 1, self.cap)
        return s


class Interp:
    """Interprets ops against the real buffer(s) and the slot model."""

    def __init__(self, kind, cap, horizon=1, n_tasks=0, dtype="f64"):
        from rl_blox.blox import replay_buffer as rb

        self.kind = kind
        self.dtype = dtype  # how update_priority values are passed in this history
        self.cap = cap
        self.horizon = horizon
        self.n_tasks = n_tasks
        if kind == "lap":
            base = rb.LAP(cap)
        elif kind == "per":
            base = rb.PrioritizedReplayBuffer(cap)
        elif kind == "subtraj":
            base = rb.SubtrajectoryReplayBufferPER(cap, horizon=horizon)
        else:
            raise HarnessError(f"unknown kind {kind}")
        if n_tasks:
            self.top = rb.MultiTaskReplayBuffer(base, n_tasks)
            self.bufs = list(self.top.buffers)
            check(len(self.bufs) == n_tasks, "mt.n_buffers", f"{len(self.bufs)} != {n_tasks}")
            check(len({id(b) for b in self.bufs}) == n_tasks and len({id(b.priority) for b in self.bufs}) == n_tasks,
                  "mt.buffers_share_storage", "per-task buffers are not independent objects")
        else:
            self.top = base
            self.bufs = [base]
        self.models = [_TaskModel(cap) for _ in self.bufs]
        self.selected = 0
        self.active = set()
        self.counter = 0
        self.last = None  # (task, [slot per row]) of the most recent sample
        self.labels = set()
        self.nt = False
        self.fp = []
        self.n_ops = 0

    # ------------------------------------------------------------ helpers
    def key(self, s):
        return f"{self.kind}.{s}"

    def _real_prio(self, t):
        return np.asarray(self.bufs[t].priority.priority, dtype=np.float64)

    def _real_max(self, t):
        return float(self.bufs[t].priority.max_priority)

    def _mask(self, t):
        m = self.models[t]
        if self.kind == "subtraj":
            return [int(x) for x in np.asarray(self.bufs[t].mask_)[: m.cur]]
        return [1] * m.cur

    def weights(self, t):
        m = self.models[t]
        return [m.prio[i] * mk for i, mk in zip(range(m.cur), self._mask(t))]

    def samplable(self, t):
        return any(w > 0 for w in self.weights(t))

    def verify(self, where):
        """Model == real priorities in every filled region; max_priority bounds."""
        for t, (buf, m) in enumerate(zip(self.bufs, self.models)):
            check(len(buf) == m.cur, self.key(f"{where}.current_len"), lambda: f"task {t}: {len(buf)} != model {m.cur}")
            if m.cur == 0:
                check(self._real_max(t) == m.max_hi, self.key(f"{where}.max_priority_changed_on_empty_buffer"),
                      lambda: f"task {t}: {self._real_max(t)}")
                continue
            real = self._real_prio(t)[: m.cur]
            mod = np.asarray(m.prio[: m.cur], dtype=np.float64)
            check(real.tobytes() == mod.tobytes(), self.key(f"{where}.unrelated_priority_changed"),
                  lambda: f"task {t}: real {real.tolist()} model {mod.tolist()}")
            rm = self._real_max(t)
            check(rm >= float(mod.max()), self.key(f"{where}.max_priority_below_stored"),
                  lambda: f"task {t}: max_priority {rm} < stored {float(mod.max())}")
            check(rm <= m.max_hi, self.key(f"{where}.max_priority_inflated"),
                  lambda: f"task {t}: max_priority {rm} > running maximum {m.max_hi}")

    # ---------------------------------------------------------------- ops
    def op_task(self, t):
        if not self.n_tasks:
            return
        t = t % self.n_tasks
        self.top.select_task(t)
        self.selected = t
        self.labels.add("select-task")

    def op_add(self, end):
        t = self.selected
        buf, m = self.bufs[t], self.models[t]
        self.counter += 1
        oid = 1000.0 + self.counter
        before_max = self._real_max(t)
        before = self._real_prio(t).copy()
        cur_before = m.cur
        common = dict(observation=np.array([oid]), action=np.array([0.25]), reward=float(self.counter % 7) - 3.0,
                      next_observation=np.array([oid + 0.5]))
        if self.kind == "subtraj":
            self.top.add_sample(terminated=(end == 1), truncated=(end == 2), **common)
        else:
            self.top.add_sample(termination=(end == 1), **common)
        written = [m.write(oid, before_max)]
        if self.kind == "subtraj" and end in (1, 2):
            written.append(m.write(oid + 0.5, before_max))  # terminal observation slot
            self.labels.add("episode-end-term" if end == 1 else "episode-end-trunc")
        self.active.add(t)
        if cur_before == self.cap:
            self.labels.add("wrap-around")
        after = self._real_prio(t)
        check(len(buf) == m.cur, self.key("add.current_len"), lambda: f"{len(buf)} != {m.cur}")
        for s in written:
            check(after[s] == before_max, self.key("add.new_priority_is_current_max"),
                  lambda: f"slot {s}: priority {after[s]} but max_priority was {before_max}")
        if before_max != 1.0:
            self.labels.add("add-with-max!=1")
        check(self._real_max(t) == before_max, self.key("add.max_priority_changed"),
              lambda: f"{before_max} -> {self._real_max(t)}")
        for s in range(cur_before):
            if s not in written:
                check(after[s] == before[s], self.key("add.unrelated_priority_changed"),
                      lambda: f"slot {s}: {before[s]} -> {after[s]}")
        if self.last is not None and self.last[0] == t and set(written) & set(self.last[1]):
            self.labels.add("sampled-slot-overwritten-before-update")
        self.verify("add")

    def _ensure_samplable(self, t):
        n = 0
        while not self.samplable(t):
            n += 1
            if n > self.horizon + 3:
                raise HarnessError("cannot make the buffer samplable")
            sel = self.selected
            if self.n_tasks:
                self.op_task(t)
            self.op_add(1 if self.kind == "subtraj" else 0)
            if self.n_tasks:
                self.op_task(sel)
            self.labels.add("remap:add-before-sample")

    def op_sample(self, op):
        B = int(op["B"])
        mode = op.get("mode", "stub")
        # ---- which task will be sampled (multi-task: the stub decides)
        if self.n_tasks:
            if not self.active:
                self.op_add(1 if self.kind == "subtraj" else 0)
                self.labels.add("remap:add-before-sample")
            act = sorted(self.active)
            t = act[op.get("task_rank", 0) % len(act)]
            self._ensure_samplable(t)
            if mode == "real" and not all(self.samplable(a) for a in act):
                mode = "stub"  # a real generator could pick a task with nothing samplable
                self.labels.add("remap:real->stub")
        else:
            t = 0
            self._ensure_samplable(t)
        m = self.models[t]
        w = self.weights(t)
        C = _cum(w)
        n = m.cur
        strat = self.kind == "per"
        us = None
        seen_active = []
        if mode == "stub":
            specs = op.get("specs") or _DEFAULT_SPECS  # (a remapped real-generator sample has none)
            us = [_place_u(specs[r % len(specs)], w, C, *((r, B) if strat else ())) for r in range(B)]

            def choose(a, size, _t=t):
                a = np.arange(a) if np.ndim(a) == 0 else np.asarray(a)  # numpy: choice(n) == choice(arange(n))
                seen_active.append(sorted(int(x) for x in a))
                return np.asarray([_t])

            rng = StubGenerator(uniforms=[np.asarray(us, dtype=np.float64)],
                                choices=[choose] if self.n_tasks else None, seed=0)
        else:
            rng = np.random.default_rng(int(op["seed"]))
        before = [self._real_prio(i).copy() for i in range(len(self.bufs))]
        # ---- call the way the repository's callers do
        h_s, inter = 1, False
        try:
            if self.kind == "subtraj":
                h_s = self.horizon if op.get("full_h") else 1
                inter = bool(op.get("inter"))
                out = self.top.sample_batch(B, h_s, inter, rng)
                ratio = None
            elif self.kind == "per":
                beta = self._beta(op)
                if self.n_tasks:
                    out, ratio = self.top.sample_batch(B, rng=rng, beta=beta)
                else:
                    out, ratio = self.top.sample_batch(B, rng, beta)
            else:
                out = self.top.sample_batch(B, rng)
                ratio = None
        except IndexError as e:
            if strat and us is not None and self._top_edge(us, B, C):
                report(self.key("sample.stratified_top_edge_beyond_filled"),
                       f"IndexError ({e}); weights {w}, B={B}, u_last={us[-1]!r}")
                raise _Stop("known:stratified-top-edge") from None
            raise
        if mode == "stub":
            if rng.q_uni:
                raise HarnessError("stub protocol: sample_batch did not call rng.uniform")
            nu = [c for c in rng.calls if c[0] == "uniform"]
            if len(nu) != 1 or any(c[0] not in ("uniform", "choice") for c in rng.calls):
                raise HarnessError(f"stub protocol: unexpected generator calls {[c[0] for c in rng.calls]}")
            if self.n_tasks:
                check(seen_active == [sorted(self.active)], "mt.sample.candidate_tasks",
                      lambda: f"chose among {seen_active}, tasks with samples {sorted(self.active)}")
        # ---- identify the sampled slots through the content of the batch
        obs = np.asarray(out.observation, dtype=np.float64)
        exp_shape = (B, h_s, 1) if (self.kind == "subtraj" and inter) else (B, 1)
        check(obs.shape == exp_shape, self.key("sample.batch_shape"), lambda: f"{obs.shape} != {exp_shape}")
        ids = obs.reshape(B, -1)[:, 0]
        where = {}
        for tt, mm in enumerate(self.models):
            for s in range(mm.cur):
                where[mm.obs[s]] = (tt, s)
        rows = []
        for r in range(B):
            loc = where.get(float(ids[r]))
            if loc is None:
                if strat and us is not None and r == B - 1 and self._top_edge(us, B, C):
                    report(self.key("sample.stratified_top_edge_beyond_filled"),
                           f"row {r} is not a stored transition (obs {ids[r]}); weights {w}, B={B}, u_last={us[-1]!r}")
                    raise _Stop("known:stratified-top-edge")
                report(self.key("sample.beyond_filled_region"),
                       f"row {r}: observation {ids[r]} is not stored in the filled region (len {n}); weights {w}"
                       + (f", u={us[r]!r}" if us else ""))
                raise _Stop("known:beyond-filled")
            rows.append(loc)
        tasks = {tt for tt, _ in rows}
        if self.n_tasks:
            check(len(tasks) == 1, "mt.sample.batch_mixes_tasks", f"{sorted(tasks)}")
            if mode == "stub":
                check(tasks == {t}, "mt.sample.wrong_task", f"sampled {sorted(tasks)}, generator chose {t}")
            else:
                t = next(iter(tasks))
                check(t in self.active, "mt.sample.inactive_task", f"{t} not in {sorted(self.active)}")
                m = self.models[t]
                w = self.weights(t)
                C = _cum(w)
                n = m.cur
        slots = [s for _, s in rows]
        # ---- validity and interval ownership
        for r, s in enumerate(slots):
            check(s < n and w[s] > 0, self.key("sample.masked_or_zero_entry"),
                  lambda: f"row {r}: slot {s} has priority {m.prio[s]} * mask {self._mask(t)[s]}; weights {w}")
        if us is not None:
            for r, s in enumerate(slots):
                if strat:
                    p, d = _point_strat(us[r], r, B, C), _delta_strat(us[r], r, B, C)
                else:
                    p, d = _point_iid(us[r], C), _delta_iid(us[r], C)
                ok = _owns(s, p, C, d)
                own = _owner(p, C)
                if d == 0 and (p == C[s + 1] or (own is not None and p == C[own + 1])):
                    self.labels.add("exact-tie")
                elif own is not None and (C[own + 1] - p <= 64 * EPS * C[-1] or p - C[own] <= 64 * EPS * C[-1]):
                    self.labels.add("near-boundary")
                if own is not None and own != s and ok:
                    self.labels.add("adjacent-accepted")
                check(ok, self.key("sample.stratified.index_owns_point" if strat else "sample.index_owns_point"),
                      lambda: f"row {r}: u={us[r]!r} point={float(p)!r} returned slot {s} "
                              f"[{float(C[s])!r}, {float(C[s + 1])!r}], owner {own}, delta={float(d)!r}, weights {w}")
        # ---- sampling must not change anything
        for i in range(len(self.bufs)):
            a = self._real_prio(i)[: self.models[i].cur]
            check(a.tobytes() == before[i][: self.models[i].cur].tobytes(), self.key("sample.priority_changed"),
                  f"task {i}")
        if ratio is not None:
            self._check_ratio(ratio, [m.prio[s] for s in slots], self._beta_value(op), "sample.importance")
        # ---- bookkeeping for the non-triviality rule
        self.last = (t, slots)
        distinct = len({m.prio[i] for i in range(n)}) >= 2
        masked = any(x == 0 for x in w)
        if len(set(slots)) < len(slots):
            self.labels.add("duplicate-rows")
        if masked:
            self.labels.add("masked-entry-present")
        if any(x in (1e-12, float(np.float32(1e-12))) for x in w) and any(x >= 9e11 for x in w):
            self.labels.add("tiny-and-huge-together")
        self.labels.add("sample-" + mode)
        if m.n_updates > 0 and distinct and (masked or self.kind != "subtraj"):
            self.nt = True
            self.fp.append(w)
        self.verify("sample")
        return t, slots

    def _top_edge(self, us, B, C):
        """Last stratified point within the rounding allowance of the total."""
        p = _point_strat(us[-1], B - 1, B, C)
        return C[-1] - p <= (2 * (len(C) - 1) + 12) * EPS * C[-1]

    @staticmethod
    def _beta_value(op):
        return float(np.float32(op.get("beta", 0.4))) if op.get("beta_kind") == "jax32" else float(op.get("beta", 0.4))

    @staticmethod
    def _beta(op):
        if op.get("beta_kind") == "jax32":
            import jax.numpy as jnp

            return jnp.float32(op.get("beta", 0.4))
        return float(op.get("beta", 0.4))

    def _check_ratio(self, ratio, prios, beta, where):
        f32 = "float32" in str(getattr(ratio, "dtype", ""))
        r = np.asarray(ratio, dtype=np.float64)
        p = np.asarray(prios, dtype=np.float64)
        check(r.shape == p.shape, self.key(where + ".shape"), lambda: f"{r.shape} != {p.shape}")
        check(bool(np.all(np.isfinite(r)) and np.all(r > 0.0) and np.all(r <= 1.0)), self.key(where + ".in_(0,1]"),
              lambda: f"weights {r.tolist()} priorities {p.tolist()} beta {beta}")
        check(float(r.max()) == 1.0, self.key(where + ".max_is_1"), lambda: f"max {r.max()!r}; {r.tolist()}")
        slack = 1e-5 if f32 else 1e-12
        order = np.argsort(p, kind="stable")
        rs, ps = r[order], p[order]
        for a in range(len(ps) - 1):
            if ps[a + 1] == ps[a]:
                check(rs[a + 1] == rs[a], self.key(where + ".equal_priority_equal_weight"),
                      lambda: f"p={ps[a]} weights {rs[a]!r}, {rs[a + 1]!r}")
            else:
                check(rs[a + 1] <= rs[a] * (1.0 + slack), self.key(where + ".non_increasing_in_priority"),
                      lambda: f"p {ps[a]} -> {ps[a + 1]} but weight {rs[a]!r} -> {rs[a + 1]!r} (beta {beta})")
        # documented formula (1/(N P(i)))^beta normalised by its batch maximum = (p_min / p_i)^beta
        ref = (p.min() / p) ** beta
        rel = 1e-4 if f32 else 1e-9
        check(bool(np.all(np.abs(r - ref) <= rel * ref + (1e-37 if f32 else 0.0))), self.key(where + ".value"),
              lambda: f"weights {r.tolist()} reference {ref.tolist()} priorities {p.tolist()} beta {beta}")
        if beta > 0 and len(set(prios)) >= 2:
            self.labels.add("importance-nonuniform")

    def op_update(self, op):
        if self.last is None:
            self.op_sample({"B": 2, "mode": "stub", "specs": [["mid", 0, 0.5, 1], ["mid", 1, 0.5, 1]]})
            self.labels.add("remap:sample-before-update")
        t, slots = self.last
        m = self.models[t]
        B = len(slots)
        pat = op["pattern"]
        base = [1e-12] if pat == "tiny" else [1e12] if pat == "huge" else op["vals"][:1] if pat == "equal" else op["vals"]
        vals = [float(base[r % len(base)]) for r in range(B)]
        dt = op.get("dtype", self.dtype)
        if dt == "f64":
            arr = np.asarray(vals, dtype=np.float64)
            stored = vals
        else:
            stored = [float(np.float32(v)) for v in vals]
            if dt == "jax":
                import jax.numpy as jnp

                arr = jnp.asarray(np.asarray(vals, dtype=np.float32))
            else:
                arr = np.asarray(vals, dtype=np.float32)
        before = [self._real_prio(i).copy() for i in range(len(self.bufs))]
        before_max = [self._real_max(i) for i in range(len(self.bufs))]
        self.top.update_priority(arr)
        after = self._real_prio(t)
        pre = "mt." if self.n_tasks else ""
        for i in range(len(self.bufs)):
            if i == t:
                continue
            mi = self.models[i]
            check(self._real_prio(i)[: mi.cur].tobytes() == before[i][: mi.cur].tobytes() and self._real_max(i) == before_max[i],
                  "mt.update.other_task_changed", f"update after sampling task {t} changed task {i}")
        for s in sorted(set(slots)):
            allowed = {stored[r] for r in range(B) if slots[r] == s}
            check(float(after[s]) in allowed, self.key(pre + "update.sampled_slot_gets_supplied_value"),
                  lambda: f"slot {s}: {after[s]!r} not in supplied {sorted(allowed)} (was {before[t][s]!r}); "
                          f"last batch slots {slots}, values {stored}")
            m.prio[s] = float(after[s])
        for s in range(m.cur):
            if s not in slots:
                check(after[s] == before[t][s], self.key(pre + "update.unsampled_slot_changed"),
                      lambda: f"slot {s}: {before[t][s]!r} -> {after[s]!r}; last batch slots {slots}, values {stored}")
        m.max_hi = max(m.max_hi, max(stored))
        m.n_updates += 1
        self.labels.add("update-" + pat)
        self.labels.add("update-" + dt)
        self.verify(pre + "update")

    def op_reset(self):
        self.top.reset_max_priority()
        for t, m in enumerate(self.models):
            if m.cur > 0:
                true_max = max(m.prio[: m.cur])
                rm = self._real_max(t)
                check(rm == true_max, self.key("reset.max_priority_equals_true_max"),
                      lambda: f"task {t}: max_priority {rm!r}, stored maximum {true_max!r}")
                if true_max < m.max_hi:
                    self.labels.add("reset-lowers-max")
                m.max_hi = true_max
        self.labels.add("reset")
        self.verify("reset")

    def apply(self, op):
        self.n_ops += 1
        k = op["op"]
        if k == "add":
            self.op_add(int(op.get("end", 0)))
        elif k == "task":
            self.op_task(int(op["t"]))
        elif k == "sample":
            self.op_sample(op)
        elif k == "update":
            self.op_update(op)
        elif k == "reset":
            self.op_reset()
        else:
            raise HarnessError(f"unknown op {k}")

    def outcome(self, extra=()):
        labs = sorted(self.labels | set(extra) | {"kind=" + self.kind})
        return Outcome(labels=labs, nontrivial=self.nt, fp=[self.kind, self.fp[:6]])


def run_ops(case):
    it = Interp(case["kind"], int(case["cap"]), int(case.get("horizon", 1)), int(case.get("n_tasks", 0)),
                case.get("dtype", "f64"))
    try:
        for op in case["ops"]:
            it.apply(op)
    except _Stop as s:
        out = it.outcome([s.label])
        out.nontrivial = False
        return out
    return it.outcome()


# ----------------------------------------------------------------------------
# strategies for op sequences

_VAL_POOL = [1.0, 2.0, 0.5, 3.0, 0.25, 1e-12, 1e12, 4.0, 1.5]


def _values():
    return st.one_of(st.sampled_from(_VAL_POOL), st.sampled_from(_VAL_POOL),
                     st.floats(1e-3, 1e3, allow_nan=False), gen.f32(1e-3, 1e3))


def _weighted(draw, *pairs):
    """Draw from (weight, strategy) pairs; st.one_of ignores repeated strategies, sampled_from keeps repeats."""
    i = draw(st.sampled_from([i for i, (w, _) in enumerate(pairs) for _ in range(w)]))
    return draw(pairs[i][1])


def _betas():
    pool = st.sampled_from([0.4, 1.0, 0.5, 0.7])
    return st.one_of(pool, pool, st.floats(1e-3, 1.0, allow_nan=False), st.floats(0.3, 0.999, allow_nan=False),
                     st.just(0.0))


def _spec():
    return st.one_of(
        st.tuples(st.sampled_from(["hi", "hi", "lo", "mid", "hi-", "lo+"]), st.integers(0, 15), st.just(0.5),
                  st.integers(1, 3)),
        st.tuples(st.just("frac"), st.just(0), st.floats(U_MIN, U_MAX, allow_nan=False), st.just(1)),
        st.tuples(st.sampled_from(["min", "max"]), st.just(0), st.just(0.5), st.just(1)),
    ).map(list)


@st.composite
def _sample_op(draw, kind, n_tasks):
    B = draw(st.sampled_from([1, 2, 3, 4, 5, 8]))
    op = {"op": "sample", "B": B}
    if draw(st.integers(0, 5)) == 0:
        op["mode"] = "real"
        op["seed"] = draw(gen.seeds())
    else:
        op["mode"] = "stub"
        op["specs"] = draw(st.lists(_spec(), min_size=1, max_size=4))
    if kind == "per":
        op["beta"] = draw(_betas())
        op["beta_kind"] = draw(st.sampled_from(["py", "py", "py", "jax32"]))
    if kind == "subtraj":
        op["full_h"] = draw(st.booleans())
        op["inter"] = draw(st.booleans())
    if n_tasks:
        op["task_rank"] = draw(st.integers(0, n_tasks - 1))
    return op


@st.composite
def _update_op(draw, nonuniform=False):
    pat = draw(st.sampled_from(["tiny", "huge", "mixed"] if nonuniform else
                               ["equal", "tiny", "huge", "mixed", "mixed", "mixed"]))
    op = {"op": "update", "pattern": pat}
    if pat == "equal":
        op["vals"] = [draw(_values())]
    elif pat == "mixed":
        op["vals"] = draw(st.lists(_values(), min_size=2, max_size=4))
    return op


def _add_op(kind):
    if kind == "subtraj":
        return st.sampled_from([0, 0, 0, 0, 0, 1, 1, 2]).map(lambda e: {"op": "add", "end": e})
    return st.sampled_from([0, 0, 0, 1]).map(lambda e: {"op": "add", "end": e})


def ops_cases(kind, multitask=False):
    @st.composite
    def strat(draw):
        kd = kind if kind is not None else draw(st.sampled_from(KINDS))
        quick = gen.tier() == "quick"
        horizon = draw(st.sampled_from([1, 1, 2, 3])) if kd == "subtraj" else 1
        lo_cap = horizon + 2 if kd == "subtraj" else 1
        cap = draw(st.one_of(st.integers(lo_cap, 8), st.integers(lo_cap, 8),
                             st.integers(lo_cap, 24 if quick else 64)))
        n_tasks = draw(st.sampled_from([1, 2, 2, 3])) if multitask else 0
        n_pre = draw(st.integers(1, min(cap + 3, 12)))
        pre = [draw(_add_op(kd)) for _ in range(n_pre)]
        smp, upd, add = _sample_op(kd, n_tasks), _update_op(), _add_op(kd)
        segs = [st.tuples(add), st.tuples(add, add), st.tuples(smp), st.tuples(smp, upd), st.tuples(smp, upd),
                st.tuples(upd), st.tuples(smp, smp, upd), st.tuples(smp, add, upd), st.just(({"op": "reset"},))]
        if n_tasks:
            tsk = st.integers(0, n_tasks - 1).map(lambda t: {"op": "task", "t": t})
            segs += [st.tuples(tsk), st.tuples(tsk, add)]
        body = [op for seg in draw(st.lists(st.one_of(*segs), min_size=0, max_size=12 if quick else 50)) for op in seg]
        # every history ends with: sample, non-uniform update, (add), sample
        tail = [draw(smp), draw(_update_op(nonuniform=True))] + [draw(add)] * draw(st.integers(0, 1)) + [draw(smp)]
        body = body + tail
        case = {"kind": kd, "cap": cap, "dtype": draw(st.sampled_from(["f64", "f64", "f32", "jax"])),
                "ops": pre + body}
        if kd == "subtraj":
            case["horizon"] = horizon
        if n_tasks:
            case["n_tasks"] = n_tasks
        return case

    return strat


# ----------------------------------------------------------------------------
# direct priority vectors with arbitrary masks

@st.composite
def vector_cases(draw):
    n = _weighted(draw, (7, st.integers(3, 12 if gen.tier() == "quick" else 40)), (1, st.integers(1, 2)))
    extra = draw(st.integers(0, 3))  # slots beyond the filled region
    pat = draw(st.sampled_from(["pow2", "pool", "pow2", "pool", "pow2", "tinyhuge", "pool", "pow2", "random", "tinyhuge", "equal"]))
    if pat == "equal":
        pr = [draw(st.sampled_from([1.0, 0.5, 3.0, 1e-12, 1e12]))] * n
    elif pat == "pow2":
        pr = draw(st.lists(st.sampled_from([0.25, 0.5, 1.0, 1.0, 2.0, 4.0]), min_size=n, max_size=n))
    elif pat == "pool":
        pr = draw(st.lists(st.sampled_from(_VAL_POOL + [0.0]), min_size=n, max_size=n))
    elif pat == "tinyhuge":
        pr = draw(st.lists(st.sampled_from([1e-12, 1e12, 1.0]), min_size=n, max_size=n))
    else:
        pr = draw(st.lists(st.floats(1e-3, 1e3, allow_nan=False), min_size=n, max_size=n))
    pr = list(pr)
    mask_kind = draw(st.sampled_from(["none", "ones", "drawn", "drawn", "drawn", "drawn", "drawn", "drawn"]))
    mask = None
    if mask_kind == "ones":
        mask = [1] * (n + extra)
    elif mask_kind == "drawn":
        mask = _weighted(draw, (1, gen.flags(n)),
                         (3, st.lists(st.sampled_from([1, 1, 1, 0]), min_size=n, max_size=n))) + [1] * extra
    # by construction: entry `keep` is valid; usually a second valid entry with a different priority and a
    # zero-weight entry (masked, or zero priority when there is no mask) exist as well
    perm = draw(st.permutations(list(range(n))))
    keep = perm[0]
    if pr[keep] == 0.0:
        pr[keep] = 1.0
    if mask is not None:
        mask[keep] = 1
    if n >= 3 and draw(st.sampled_from([True] * 7 + [False])):
        k2, z = perm[1], perm[2]
        if pr[k2] == 0.0 or pr[k2] == pr[keep]:
            pr[k2] = pr[keep] * draw(st.sampled_from([2.0, 0.5, 4.0]))
        if mask is not None:
            mask[k2] = 1
            mask[z] = 0
        else:
            pr[z] = 0.0
    if pat == "pow2" and draw(st.sampled_from([True, True, True, False])):
        # one more valid entry that makes the total a power of two: boundaries k/2^m are then reachable exactly
        tot = sum(p * (1 if mask is None else mask[i]) for i, p in enumerate(pr))
        pr.append(2.0 ** math.ceil(math.log2(tot) + 1e-9) * 2.0 - tot)
        if mask is not None:
            mask.insert(n, 1)
    B = draw(st.sampled_from([1, 2, 3, 4, 5, 8]))
    return {"method": draw(st.sampled_from(["iid", "stratified"])), "priority": pr, "extra": extra,
            "mask": mask, "B": B, "specs": draw(st.lists(_spec(), min_size=1, max_size=5))}


def run_vector(case):
    from rl_blox.blox import replay_buffer as rb

    pr = [float(x) for x in case["priority"]]
    n, extra, B = len(pr), int(case["extra"]), int(case["B"])
    mask = case["mask"]
    strat = case["method"] == "stratified"
    w = [p * (mask[i] if mask is not None else 1) for i, p in enumerate(pr)]
    C = _cum(w)
    us = [_place_u(case["specs"][r % len(case["specs"])], w, C, *((r, B) if strat else ())) for r in range(B)]
    rng = StubGenerator(uniforms=[np.asarray(us, dtype=np.float64)])
    # slots beyond the filled region hold a huge priority: touching them is visible
    full = np.asarray(pr + [1e300] * extra, dtype=np.float64)
    mk = None if mask is None else np.asarray(mask, dtype=int)
    name = "vectors.stratified" if strat else "vectors.iid"
    if strat:
        buf = rb.PrioritizedReplayBuffer(n + extra)
        pb = buf.priority
        pb.priority[:] = full
        idx = buf.prioritized_sampling_stratified(n, B, rng, mk)
    else:
        pb = rb.PriorityBuffer(n + extra)
        pb.priority[:] = full
        idx = pb.prioritized_sampling(n, B, rng, mk)
    if rng.q_uni or [c[0] for c in rng.calls] != ["uniform"]:
        raise HarnessError(f"stub protocol: generator calls {[c[0] for c in rng.calls]}")
    idx = np.asarray(idx)
    check(idx.shape == (B,) and idx.dtype.kind in "iu", name + ".shape", lambda: f"{idx.shape} {idx.dtype}")
    check(np.array_equal(np.asarray(pb.sampled_indices), idx), name + ".sampled_indices_recorded",
          lambda: f"returned {idx.tolist()} recorded {np.asarray(pb.sampled_indices).tolist()}")
    check(pb.priority.tobytes() == full.tobytes(), name + ".priority_changed", "")
    labels = {"method=" + case["method"], "mask=" + ("none" if mask is None else "given")}
    for r in range(B):
        s = int(idx[r])
        if s >= n:
            if strat and r == B - 1 and C[-1] - _point_strat(us[-1], B - 1, B, C) <= (2 * n + 12) * EPS * C[-1]:
                report("per.sample.stratified_top_edge_beyond_filled",
                       f"index {s} >= current_len {n}; weights {w}, B={B}, u_last={us[-1]!r}")
                return Outcome(labels=sorted(labels | {"known:stratified-top-edge"}), nontrivial=False)
            report(name + ".beyond_filled_region", f"row {r}: index {s} >= current_len {n}; u={us[r]!r} weights {w}")
            return Outcome(labels=["known"], nontrivial=False)
        check(s >= 0 and w[s] > 0, name + ".masked_or_zero_entry",
              lambda: f"row {r}: index {s} has priority {pr[s]} mask {None if mask is None else mask[s]}; u={us[r]!r} weights {w}")
        if strat:
            p, d = _point_strat(us[r], r, B, C), _delta_strat(us[r], r, B, C)
        else:
            p, d = _point_iid(us[r], C), _delta_iid(us[r], C)
        own = _owner(p, C)
        if d == 0 and own is not None and p == C[own + 1]:
            labels.add("exact-tie")
        elif own is not None and min(C[own + 1] - p, p - C[own]) <= 64 * EPS * C[-1]:
            labels.add("near-boundary")
        ok = _owns(s, p, C, d)
        if ok and own != s:
            labels.add("adjacent-accepted")
        check(ok, name + ".index_owns_point",
              lambda: f"row {r}: u={us[r]!r} point={float(p)!r} returned {s} [{float(C[s])!r}, {float(C[s + 1])!r}] "
                      f"owner {own} delta={float(d)!r} weights {w}")
    zero = any(x == 0 for x in w)
    nonuni = len({x for x in w if x > 0}) >= 2
    if zero:
        labels.add("zero-weight-entry")
    if any(x == 1e-12 for x in w) and any(x == 1e12 for x in w):
        labels.add("tiny-and-huge-together")
    return Outcome(labels=sorted(labels), nontrivial=zero and nonuni, fp=[case["method"], w])


# ----------------------------------------------------------------------------
# importance weights for chosen index sets

@st.composite
def importance_cases(draw):
    many = st.integers(3, 10)
    n = _weighted(draw, (9, many), (1, st.integers(1, 2)))
    cap = n + draw(st.integers(0, 2))
    pool = st.lists(st.sampled_from(_VAL_POOL), min_size=n, max_size=n)
    free = st.lists(st.floats(1e-3, 1e3, allow_nan=False), min_size=n, max_size=n)
    pr = _weighted(draw, (4, free), (4, pool), (1, st.sampled_from(_VAL_POOL).map(lambda v: [v] * n)))
    B = draw(st.sampled_from([3, 5, 8, 2, 4, 3, 5, 8, 2, 1]))
    idx = draw(st.lists(st.integers(0, n - 1), min_size=B, max_size=B))
    if n >= 2 and B >= 2 and draw(st.sampled_from([True] * 9 + [False])):
        # construct a batch that holds two different priorities
        i = draw(st.integers(0, n - 1))
        j = (i + draw(st.integers(1, n - 1))) % n
        pr = list(pr)
        if pr[j] == pr[i]:
            pr[j] = pr[i] * draw(st.sampled_from([2.0, 0.5, 1.0 + 2.0 ** -52, 1e6]))
        idx = [i, j] + idx[2:]
    beta = draw(st.one_of(st.sampled_from([0.4, 1.0, 0.5, 0.7, 0.9, 0.1, 0.25, 0.6, 0.0]),
                          st.floats(1e-3, 1.0, allow_nan=False)))
    return {"cap": cap, "priority": pr, "indices": idx, "beta": beta,
            "beta_kind": draw(st.sampled_from(["py", "py", "jax32"]))}


def run_importance(case):
    """Priorities are installed through the public path (stub sample + update), then
    compute_importance_ratio is asked for a chosen index set."""
    pr = [float(x) for x in case["priority"]]
    n = len(pr)
    it = Interp("per", int(case["cap"]))
    for _ in range(n):
        it.op_add(0)
    # fresh buffer: n equal priorities, B = n strata, u = 1/2 -> row k is slot k
    it.op_sample({"B": n, "mode": "stub", "specs": [["frac", 0, 0.5, 1]], "beta": 0.4})
    check(it.last[1] == list(range(n)), "per.sample.stratified.enumerates_equal_entries", f"{it.last[1]}")
    it.op_update({"pattern": "mixed", "vals": pr, "dtype": "f64"})
    buf = it.top
    idx = np.asarray(case["indices"], dtype=int)
    beta = Interp._beta(case)
    ratio = buf.compute_importance_ratio(idx, beta)
    it._check_ratio(ratio, [pr[i] for i in idx], Interp._beta_value(case), "importance")
    bv = Interp._beta_value(case)
    vals = {pr[i] for i in idx}
    labs = ["beta=0" if bv == 0 else ("beta=1" if bv == 1 else "beta-inner"), "kind=" + case["beta_kind"],
            "distinct-priorities" if len(vals) > 1 else "single-priority"]
    if 1e-12 in vals and 1e12 in vals:
        labs.append("tiny-and-huge-together")
    return Outcome(labels=labs, nontrivial=len(vals) >= 2 and bv > 0, fp=[sorted(vals), bv, case["beta_kind"]])


# ----------------------------------------------------------------------------
# lap_priority / per_priority

@st.composite
def priority_fn_cases(draw):
    fn = draw(st.sampled_from(["lap", "per"]))
    n = draw(st.sampled_from([1, 3, 8]))  # shape pool: jit recompiles per shape and static argument
    errs = draw(st.lists(st.one_of(st.just(0.0), st.sampled_from([1.0, 0.5, 2.0, 1e-6, 1e6]), gen.f32(0.0, 1e6),
                                   gen.f32(0.0, 4.0)), min_size=n, max_size=n))
    case = {"fn": fn, "errors": sorted(errs), "alpha": draw(st.sampled_from([1.0, 0.4, 0.6, 0.5, 0.1, 0.9]))}
    if fn == "lap":
        case["min_priority"] = draw(st.sampled_from([1.0, 1.0, 0.5, 2.0, 0.1]))
    else:
        case["epsilon"] = draw(st.sampled_from([1e-6, 1e-6, 1e-3, 1e-2]))
    return case


def run_priority_fn(case):
    import jax.numpy as jnp

    from rl_blox.blox.replay_buffer import lap_priority, per_priority

    e = np.asarray(case["errors"], dtype=np.float32)
    a = float(case["alpha"])
    e64 = e.astype(np.float64)
    if case["fn"] == "lap":
        pm = float(case["min_priority"])
        out = lap_priority(jnp.asarray(e), pm, a)
        ref = np.maximum(e64, pm) ** a if pm == 1.0 else None
        both = bool(np.any(e64 < pm) and np.any(e64 > pm))
        name = "lap_priority"
    else:
        eps = float(case["epsilon"])
        out = per_priority(jnp.asarray(e), alpha=a, epsion=eps)
        ref = e64 ** a + float(np.float32(eps))
        both = True
        name = "per_priority"
    o = np.asarray(out, dtype=np.float64)
    check(o.shape == e.shape, name + ".shape", lambda: f"{o.shape}")
    check(bool(np.all(np.isfinite(o)) and np.all(o > 0)), name + ".positive",
          lambda: f"errors {e.tolist()} -> {o.tolist()} ({case})")
    # errors are sorted ascending; float32 pow may wobble by a few ulp between neighbours
    d = np.diff(o)
    check(bool(np.all(d >= -4e-6 * np.abs(o[1:]))), name + ".non_decreasing",
          lambda: f"errors {e.tolist()} -> {o.tolist()} ({case})")
    same = np.nonzero(np.diff(e64) == 0)[0]
    check(bool(np.all(o[same] == o[same + 1])), name + ".equal_error_equal_priority", lambda: f"{o.tolist()}")
    if ref is not None:
        check(bool(np.all(np.abs(o - ref) <= 2e-5 * np.abs(ref) + 1e-30)), name + ".value",
              lambda: f"errors {e.tolist()} -> {o.tolist()} reference {ref.tolist()} ({case})")
    distinct = len(set(e.tolist())) >= 2
    labs = [name, "alpha=1" if a == 1.0 else "alpha<1", "has-zero-error" if 0.0 in e else "no-zero-error"]
    if case["fn"] == "lap":
        labs.append("both-sides-of-min" if both else "one-side-of-min")
    return Outcome(labels=labs, nontrivial=distinct and both)


# ----------------------------------------------------------------------------
# empirical frequencies under a real generator

@st.composite
def frequency_cases(draw):
    kind = draw(st.sampled_from(KINDS))
    horizon = draw(st.sampled_from([1, 2])) if kind == "subtraj" else 1
    n_adds = draw(st.integers(2, 12))
    cap = draw(st.integers(max(2, horizon + 2), 16))
    ends = draw(st.lists(st.sampled_from([0, 0, 0, 1, 2]), min_size=n_adds, max_size=n_adds)) \
        if kind == "subtraj" else [0] * n_adds
    vals = draw(st.one_of(
        st.lists(st.sampled_from([1.0, 2.0, 0.5, 3.0, 4.0, 10.0]), min_size=2, max_size=6),
        st.lists(st.sampled_from([1.0, 2.0, 0.5, 1e-12, 1e12, 3.0]), min_size=2, max_size=6),
        st.lists(st.floats(0.05, 20.0, allow_nan=False), min_size=2, max_size=6)))
    return {"kind": kind, "cap": cap, "horizon": horizon, "ends": ends, "vals": vals,
            "late_adds": draw(st.integers(0, 2)), "B": draw(st.sampled_from([64, 256, 512])),
            "draws": draw(st.sampled_from([4096, 8192])), "seed": draw(gen.seeds()),
            "beta": 0.4}


def run_frequency(case):
    from scipy import stats

    kind = case["kind"]
    it = Interp(kind, int(case["cap"]), int(case["horizon"]))
    try:
        for e in case["ends"]:
            it.op_add(int(e))
        it._ensure_samplable(0)
        w0 = it.weights(0)
        pos = [i for i, x in enumerate(w0) if x > 0]
        # visit every samplable entry once (mid of its interval / of its stratum) and assign the drawn priorities
        it.op_sample({"B": len(pos), "mode": "stub", "specs": [["mid", r, 0.5, 1] for r in range(len(pos))]})
        it.op_update({"pattern": "mixed", "vals": case["vals"], "dtype": "f64"})
        for _ in range(int(case["late_adds"])):
            it.op_add(0)
        it._ensure_samplable(0)
        w = it.weights(0)
        m = it.models[0]
        counts = [0] * m.cur
        B, rounds = int(case["B"]), max(1, int(case["draws"]) // int(case["B"]))
        rng = np.random.default_rng(int(case["seed"]))
        buf = it.top
        where = {m.obs[s]: s for s in range(m.cur)}
        for _ in range(rounds):
            if kind == "subtraj":
                out = buf.sample_batch(B, 1, False, rng)
            elif kind == "per":
                out, _ = buf.sample_batch(B, rng, 0.4)
            else:
                out = buf.sample_batch(B, rng)
            ids = np.asarray(out.observation, dtype=np.float64).reshape(B, -1)[:, 0]
            for x in ids:
                s = where.get(float(x))
                if s is None:
                    report(it.key("frequency.beyond_filled_region"), f"observation {x} not stored; weights {w}")
                    raise _Stop("known")
                counts[s] += 1
    except _Stop as s:
        return Outcome(labels=[s.label], nontrivial=False)
    N = B * rounds
    S = math.fsum(w)
    q = [x / S for x in w]
    for s in range(m.cur):
        check(w[s] > 0 or counts[s] == 0, it.key("frequency.masked_or_zero_entry_sampled"),
              lambda: f"slot {s} (weight 0) drawn {counts[s]} times; weights {w}")
    big = [s for s in range(m.cur) if q[s] * N >= 40.0]
    small = [s for s in range(m.cur) if 0 < q[s] * N < 40.0]
    obs_b = [counts[s] for s in big]
    exp_b = [q[s] * N for s in big]
    q_small = math.fsum(q[s] for s in small)
    c_small = sum(counts[s] for s in small)
    if small and q_small * N >= 40.0:
        obs_b.append(c_small)
        exp_b.append(q_small * N)
    elif small:
        hi = stats.binom.isf(1e-9, N, q_small)
        check(c_small <= hi, it.key("frequency.rare_entries_too_frequent"),
              lambda: f"entries with total probability {q_small} drawn {c_small} of {N} times (> {hi}); weights {w}")
    stat = sum((o - e) ** 2 / e for o, e in zip(obs_b, exp_b))
    thr = float(stats.chi2.isf(1e-9, max(1, len(obs_b))))
    check(stat <= thr, it.key("frequency.chi_square"),
          lambda: f"chi2 {stat:.1f} > {thr:.1f} (p=1e-9, {len(obs_b)} bins, N={N}); counts {counts} expected "
                  f"{[round(x * N, 1) for x in q]} weights {w}")
    nonuni = len({x for x in w if x > 0}) >= 2
    masked = any(x == 0 for x in w)
    labs = ["kind=" + kind, "bins>=2" if len(obs_b) >= 2 else "bins<2"]
    if masked:
        labs.append("masked-entry-present")
    if small:
        labs.append("rare-entries")
    nt = nonuni and len(obs_b) >= 2 and (masked or kind != "subtraj")
    return Outcome(labels=labs, nontrivial=nt, fp=[kind, w])


# Hypothesis' too_slow health check is wall-clock based: measured draw times are 5-25 ms per case in a quiet
# process, but on the shared build machine (load > 200) single draws took 3-18 s and the check turned a clean run
# into exit 2.  Outcomes must not depend on machine load, so it is suppressed; filter_too_much and data_too_large
# (the generator-quality checks) stay on.
SUBCHECKS = [
    SubCheck("ops_lap", ops_cases("lap"), run_ops, quick=400, thorough=8000, cost=2.0, fuzz_runs=24000,
             suppress_too_slow=True, rule="sample after an update while stored priorities take >= 2 distinct values"),
    SubCheck("ops_per", ops_cases("per"), run_ops, quick=400, thorough=8000, cost=2.5, fuzz_runs=24000,
             suppress_too_slow=True, rule="stratified sample after an update while stored priorities take >= 2 distinct values"),
    SubCheck("ops_subtraj", ops_cases("subtraj"), run_ops, quick=400, thorough=8000, cost=2.5, fuzz_runs=24000,
             suppress_too_slow=True, rule="sample after an update with >= 2 distinct priorities and >= 1 masked entry in the filled region"),
    SubCheck("multitask", ops_cases(None, multitask=True), run_ops, quick=400, thorough=8000, cost=3.0,
             suppress_too_slow=True, rule="as the bare buffer of the same kind, behind MultiTaskReplayBuffer with 1-3 tasks"),
    SubCheck("vectors", vector_cases, run_vector, quick=600, thorough=20000,
             suppress_too_slow=True, rule=">= 2 distinct positive weights and >= 1 zero-weight (masked or zero-priority) entry"),
    SubCheck("importance", importance_cases, run_importance, quick=300, thorough=8000, cost=1.5,
             suppress_too_slow=True, rule=">= 2 distinct priorities in the batch and beta > 0"),
    SubCheck("priority_fns", priority_fn_cases, run_priority_fn, quick=300, thorough=8000, cost=1.5,
             suppress_too_slow=True, rule=">= 2 distinct errors (LAP: on both sides of min_priority)"),
    SubCheck("frequencies", frequency_cases, run_frequency, quick=120, thorough=2000, cost=4.0,
             suppress_too_slow=True, rule="non-uniform positive weights, >= 2 chi-square bins (subtrajectory buffer: plus a masked entry)"),
]
