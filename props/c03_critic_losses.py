"""C03 Critic and representation losses implement their documented targets per sample.

One sub-check per loss.  Every case builds tiny fresh networks, a batch and the
hyper-parameters from the JSON case and checks the six oracle clauses of
DESIGN.md section 5 (C03):

 (1) value and auxiliary outputs against a float64 reference of the docstring
     formula, fed with the modules' own float32 forward passes;
 (2) gradient w.r.t. the trained module against an independently written jax
     objective in which the target is a precomputed constant;
 (3) gradients w.r.t. target networks, target policies, fixed encoders and the
     array inputs next_observation / next_action are exactly zero;
 (4) successor observation / action of terminated rows replaced by arbitrary
     finite values: loss and auxiliary outputs unchanged (bitwise, modulo the
     sign of zero);
 (5) batch permutation invariance;
 (6) batch size 1 matches the reference or raises.
"""
from collections import namedtuple

import numpy as np
from hypothesis import strategies as st

from vlib import gen
from vlib.core import Outcome, SubCheck, check, close, maxdiff

PROPERTY = "C03"
RULE = (
    "Hypothesis draws one structural seed per case; the case (stored explicitly as JSON) is expanded from it "
    "with explicit weights: a shape configuration from a small pool (batch 1-8, obs/action dims 1-3, 2-5 "
    "discrete actions, hidden [], [4] or [5,3], horizons 1-3), seeds for network parameters / observations / "
    "junk / permutation, unit rewards (zeros, +-1, fractions) times a reward scale (0, 0.03..1000, relative to "
    "the bootstrap magnitude or absolute), a constructed termination pattern (mixed 86 %, none, all), gamma in "
    "{0, 0.5, 0.9, 0.99, 1} or (0,1), parameter scale 0.05..30 and the extras of each loss (alpha, min_priority, "
    "clip range, reward scales, horizon, loss weights, environment_terminates, normalize_targets, the encoder's "
    "encoder_activation_in_last_layer with and without normalize_targets; in ~23 % of the encoder-loss cases the "
    "reward-logit columns of the model head are multiplied by 30, 100 or 1000 so that the softmax probability of a "
    "target bin is not representable in float32 while the documented cross-entropy is finite; in ~28 % of the "
    "double-DQN cases (ddqn, ddqn_per) output units of the ONLINE network are made exactly equal - zero output "
    "kernel with equal biases, zero kernel columns with one common bias, or duplicated units, the common level "
    "placed so that the tied group is the row maximum in some non-terminated rows - while the target network stays "
    "generic: labels online-max-tie*). Twin critics "
    "are centred so that each is the minimum in some row; Huber deltas and clip bounds are placed at the median "
    "/ quartiles of the data (times 1, 0.7, 1.5, 1e-3, 1e3). Non-trivial = batch mixes terminated and "
    "non-terminated rows, the bootstrap term is >= 1% of the target scale and, where the loss has a branch "
    "(double-Q selection, min of two critics, Huber, value clipping, post-terminal mask), both branches occur. "
    "Distinct = distinct canonical case."
)
ASSUMPTIONS = [
    "float32 arithmetic (library default); references in float64 from the modules' own float32 forward passes",
    "batches have the layout the replay buffers return: reward (N,), terminated int (N,), discrete actions int (N,), "
    "continuous actions (N, d); subtrajectory batches (N, H, ...)",
    "losses are called inside nnx.jit with gamma traced (the algorithms jit them with gamma static); "
    "td7_update_critic keeps its own jit with static gamma/min_priority and is driven with optax.sgd(1.0) so "
    "that its parameter step is minus the gradient",
    "the sum over the two critics of the per-critic mean loss is taken as the documented value for double-Q losses",
    "masked means divide by the batch size (jnp.mean of error x mask), as masked_mse_loss documents",
    "double-DQN cases whose online arg-max is decided by less than 1e-4 relative (but not exactly tied) are "
    "excluded from the value clause",
    "double-DQN rows whose online maximiser is exactly tied: the documented bootstrap Q'(o', argmax_a Q(o', a)) "
    "admits any tied action per sample; the selection the library took is read from d loss / d reward_i (signed "
    "TD error of row i) where that gradient reproduces the library's own scalar outputs, otherwise the admissible "
    "combination that reproduces the scalar outputs best is taken (DiscreteSetup.resolve_ties); exactly equal "
    "output units stay exactly equal under jit, eager evaluation and row permutation (checked on 990 networks)",
    "arbitrary finite junk for ignored successor data is bounded by 1e4 so that no network overflows to inf",
    "two-hot bins of the encoder loss span symexp(+-3) and rewards of that sub-check lie inside the bin range",
    "LayerNorm networks (MR.Q): tolerances are widened by 4x the movement of the reference under a 2^-21 relative "
    "perturbation of all parameters and inputs (rounding amplification of near-constant LayerNorm inputs; largest "
    "movement over 2 random sign patterns, over 8 once the 2-pattern estimate exceeds twice the plain tolerance)",
    "Huber gradients: tolerance widened when delta > 1e3 max|TD error| (the library's form back-propagates "
    "delta - delta + |e| in float32); plus an absolute 4 ulp32(delta) on the output-bias gradient (relative to "
    "the leaf's own magnitude for the leaves behind it), the rounding of that form whatever |TD error| is",
    "SAC: the Gaussian policy's log-variance head is scaled so that std is O(1); with std ~ e^-8 the float32 "
    "rounding of (a' - mean)/std makes log pi differ by 1e-3 between two evaluation orders",
]

Batch = namedtuple("Batch", ["observation", "action", "reward", "next_observation", "termination"])
SubBatch = namedtuple("SubBatch", ["observation", "action", "reward", "next_observation", "terminated", "truncated"])


# --------------------------------------------------------------------------- utilities

def _arr(seed, k, shape, scale=1.0):
    r = np.random.default_rng((int(seed), int(k)))
    return (r.standard_normal(shape) * scale).astype(np.float32)


def F(x):
    return np.asarray(x, dtype=np.float64)


def _mag(*xs):
    m = 0.0
    for x in xs:
        x = np.asarray(x, dtype=np.float64)
        if x.size:
            m = max(m, float(np.max(np.abs(x))))
    return m


def _same(a, b):
    """Bitwise equal modulo the sign of zero; NaN never equal."""
    a = np.asarray(a)
    b = np.asarray(b)
    return a.shape == b.shape and a.dtype == b.dtype and bool(np.array_equal(a, b))


def _huber(e, d):
    e = np.abs(e)
    return np.where(e <= d, 0.5 * e * e, d * (e - 0.5 * d))


_NS = None


def L():
    global _NS
    if _NS is None:
        _NS = _build()
    return _NS


class _Namespace:
    pass


def _build():
    """Import jax / rl_blox once per process and define the jitted harness functions."""
    import gymnasium as gym
    import jax
    import jax.numpy as jnp
    import optax
    from flax import nnx

    from rl_blox.algorithm.mrq import mrq_loss
    from rl_blox.algorithm.td7 import td7_update_critic
    from rl_blox.blox import losses as LS
    from rl_blox.blox.double_qnet import ContinuousClippedDoubleQNet
    from rl_blox.blox.embedding.model_based_encoder import ModelBasedEncoder, model_based_encoder_loss
    from rl_blox.blox.embedding.sale import SALE, CriticSALE, state_action_embedding_loss
    from rl_blox.blox.function_approximator.gaussian_mlp import GaussianMLP
    from rl_blox.blox.function_approximator.layer_norm_mlp import LayerNormMLP
    from rl_blox.blox.function_approximator.mlp import MLP
    from rl_blox.blox.function_approximator.policy_head import (
        DeterministicTanhPolicy,
        GaussianTanhPolicy,
        StochasticPolicyBase,
    )
    from rl_blox.blox.preprocessing import make_two_hot_bins
    from vlib.runner import _from_code_under_test

    ns = _Namespace()
    ns.jax, ns.jnp, ns.nnx, ns.optax, ns.gym = jax, jnp, nnx, optax, gym
    ns.MLP, ns.LayerNormMLP, ns.GaussianMLP = MLP, LayerNormMLP, GaussianMLP
    ns.DoubleQ = ContinuousClippedDoubleQNet
    ns.DeterministicTanhPolicy, ns.GaussianTanhPolicy = DeterministicTanhPolicy, GaussianTanhPolicy
    ns.SALE, ns.CriticSALE, ns.ModelBasedEncoder = SALE, CriticSALE, ModelBasedEncoder
    ns.make_two_hot_bins = make_two_hot_bins
    ns.td7_update_critic = td7_update_critic
    ns.from_lib = _from_code_under_test
    ns.sgd1 = optax.sgd(1.0)  # one transformation object: it is part of the optimizer's static graph

    class ProbePolicy(StochasticPolicyBase):
        """Stochastic-policy stand-in whose sample ignores the key (row-wise deterministic)."""

        def __init__(self, net_a, net_l):
            self.net_a = net_a
            self.net_l = net_l

        def sample(self, observation, key):
            return jnp.tanh(self.net_a(observation))

        def log_probability(self, observation, action):
            return self.net_l(jnp.concatenate((observation, action), axis=-1))[:, 0]

    ns.ProbePolicy = ProbePolicy

    def reinit(module, seed, pscale, twin_of=None):
        """Re-draw every Param from the case: kernels N(0, pscale/sqrt(fan_in)), biases
        N(0, 0.3 pscale), LayerNorm scales 1 + 0.3 N(0,1).  With ``twin_of`` the draw is the one
        of seed ``twin_of`` plus 0.5 x the draw of ``seed`` (two critics that cross each other)."""
        st_ = nnx.state(module, nnx.Param)
        leaves = jax.tree_util.tree_leaves_with_path(st_)
        r = np.random.default_rng((int(seed), 12345))
        r0 = np.random.default_rng((int(twin_of), 12345)) if twin_of is not None else None
        new = []
        for path, leaf in leaves:
            ks = jax.tree_util.keystr(path)
            shp = leaf.shape
            z = r.standard_normal(shp)
            if r0 is not None:
                z = r0.standard_normal(shp) + 0.5 * z
            if "kernel" in ks:
                v = z * (pscale / np.sqrt(max(1, shp[0])))
            elif "scale" in ks:
                v = 1.0 + 0.3 * z
            else:
                v = 0.3 * pscale * z
            new.append(jnp.asarray(v.astype(np.float32)))
        td = jax.tree_util.tree_structure(st_)
        nnx.update(module, jax.tree_util.tree_unflatten(td, new))
        return module

    ns.reinit = reinit

    def mlp(n_in, n_out, hidden, act, seed, pscale, twin_of=None):
        return reinit(MLP(n_in, n_out, list(hidden), act, nnx.Rngs(0)), seed, pscale, twin_of)

    ns.mlp = mlp

    def lnmlp(n_in, n_out, hidden, act, seed, pscale, twin_of=None):
        return reinit(LayerNormMLP(n_in, n_out, list(hidden), act, rngs=nnx.Rngs(0)), seed, pscale, twin_of)

    ns.lnmlp = lnmlp

    # ------------------------------------------------------------------ library calls
    # signature: (mods tuple, arrs dict, sc dict of traced scalars / arrays) -> library result

    def bt(a):
        return Batch(a["observation"], a["action"], a["reward"], a["next_observation"], a["termination"])

    def c_dqn(m, a, s, static):
        return LS.dqn_loss(m[0], bt(a), s["gamma"])

    def c_nature(m, a, s, static):
        return LS.nature_dqn_loss(m[0], m[1], bt(a), s["gamma"])

    def c_ddqn(m, a, s, static):
        return LS.ddqn_loss(m[0], m[1], bt(a), s["gamma"])

    def c_per(m, a, s, static):
        return LS.ddqn_per_loss(m[0], m[1], bt(a), s["gamma"], a["is_ratio"])

    def c_ddpg(m, a, s, static):
        return LS.ddpg_loss(m[0], m[1], m[2], bt(a), s["gamma"])

    def c_td3(m, a, s, static):
        return LS.td3_loss(m[0], m[1], a["next_action"], bt(a), s["gamma"])

    def c_lap(m, a, s, static):
        return LS.td3_lap_loss(m[0], m[1], a["next_action"], bt(a), s["gamma"], s["min_priority"])

    def c_sac(m, a, s, static):
        return LS.sac_loss(m[0], m[1], m[2], s["key"], s["alpha"], bt(a), s["gamma"])

    def c_mrq(m, a, s, static):
        b = (a["observation"], a["action"], a["reward"], a["next_observation"], a["terminated"], a["truncated"])
        return mrq_loss(m[0], m[1], m[2], m[3], a["next_action"], b, s["gamma"], s["reward_scale"],
                        s["target_reward_scale"])

    def c_sale(m, a, s, static):
        return state_action_embedding_loss(m[0], a["observation"], a["action"], a["next_observation"]), ()

    def c_enc(m, a, s, static):
        horizon, normalize = static
        b = SubBatch(a["observation"], a["action"], a["reward"], a["next_observation"], a["terminated"],
                     a["truncated"])
        return model_based_encoder_loss(m[0], m[1], s["bins"], b, horizon, s["dynamics_weight"],
                                        s["reward_weight"], s["done_weight"], s["environment_terminates"],
                                        normalize)

    ns.calls = {"dqn": c_dqn, "nature_dqn": c_nature, "ddqn": c_ddqn, "ddqn_per": c_per, "ddpg": c_ddpg,
                "td3": c_td3, "td3_lap": c_lap, "sac": c_sac, "mrq": c_mrq, "sale": c_sale, "encoder": c_enc}

    _jit = {}

    def jit_call(name):
        k = ("call", name)
        if k not in _jit:
            _jit[k] = nnx.jit(ns.calls[name], static_argnums=(3,))
        return _jit[k]

    def jit_grad(name):
        k = ("grad", name)
        if k not in _jit:
            fn = ns.calls[name]

            def gradfn(mods, farrs, iarrs, sc, static):
                def scalar(mods_, farrs_):
                    return fn(mods_, {**farrs_, **iarrs}, sc, static)[0]

                return nnx.grad(scalar, argnums=(0, 1))(mods, farrs)

            _jit[k] = nnx.jit(gradfn, static_argnums=(4,))
        return _jit[k]

    ns.jit_call, ns.jit_grad = jit_call, jit_grad

    # ------------------------------------------------------------------ independent objectives
    # (trained module, constants dict, static) -> scalar; targets are constants.

    def hub(e, d):
        a = jnp.abs(e)
        return jnp.where(a <= d, 0.5 * a * a, d * (a - 0.5 * d))

    def o_discrete(q, c, static):
        qa = jnp.take_along_axis(q(c["observation"]), c["action"][:, None], axis=1)[:, 0]
        return jnp.sum(c["w"] * (qa - c["y"]) ** 2) / c["y"].shape[0]

    def o_single(q, c, static):
        p = q(jnp.concatenate((c["observation"], c["action"]), axis=-1))[:, 0]
        return jnp.sum((p - c["y"]) ** 2) / c["y"].shape[0]

    def o_double(q, c, static):
        x = jnp.concatenate((c["observation"], c["action"]), axis=-1)
        n = c["y"].shape[0]
        return jnp.sum((q.q1(x)[:, 0] - c["y"]) ** 2) / n + jnp.sum((q.q2(x)[:, 0] - c["y"]) ** 2) / n

    def o_double_huber(q, c, static):
        x = jnp.concatenate((c["observation"], c["action"]), axis=-1)
        n = c["y"].shape[0]
        return (jnp.sum(hub(q.q1(x)[:, 0] - c["y"], c["delta"])) / n
                + jnp.sum(hub(q.q2(x)[:, 0] - c["y"], c["delta"])) / n)

    def o_mrq(q, c, static):
        n = c["y"].shape[0]
        return (jnp.sum(hub(q.q1(c["zsa"])[:, 0] - c["y"], 1.0)) / n
                + jnp.sum(hub(q.q2(c["zsa"])[:, 0] - c["y"], 1.0)) / n)

    def o_td7(q, c, static):
        x = jnp.concatenate((c["observation"], c["action"]), axis=-1)
        n = c["y"].shape[0]
        q1 = q.q1(x, zsa=c["zsa"], zs=c["zs"])[:, 0]
        q2 = q.q2(x, zsa=c["zsa"], zs=c["zs"])[:, 0]
        return jnp.sum(hub(q1 - c["y"], c["delta"])) / n + jnp.sum(hub(q2 - c["y"], c["delta"])) / n

    def o_sale(emb, c, static):
        zsa, _ = emb(c["observation"], c["action"])
        return jnp.sum((zsa - c["target"]) ** 2) / zsa.size

    def o_enc(enc, c, static):
        horizon, broadcast_done = static
        zs = enc.encode_zs(c["obs0"])
        n = c["obs0"].shape[0]
        total = 0.0
        for t in range(horizon):
            d, zs, rl = enc.model_head(zs, c["action"][:, t])
            m = c["mask"][:, t]
            dyn = jnp.sum(m[:, None] * (zs - c["target_zs"][:, t]) ** 2) / zs.size
            ce = -jnp.sum(c["twohot"][:, t] * jax.nn.log_softmax(rl, axis=-1), axis=-1)
            rew = jnp.sum(m * ce) / n
            e2 = (d - c["term"][:, t]) ** 2
            if broadcast_done:
                done = (jnp.sum(e2) / n) * (jnp.sum(m) / n)
            else:
                done = jnp.sum(m * e2) / n
            total = total + c["dynamics_weight"] * dyn + c["reward_weight"] * rew + c["done_on"] * c["done_weight"] * done
        return total

    ns.objs = {"discrete": o_discrete, "single": o_single, "double": o_double, "double_huber": o_double_huber,
               "mrq": o_mrq, "td7": o_td7, "sale": o_sale, "enc": o_enc}

    def jit_obj(name):
        k = ("obj", name)
        if k not in _jit:
            fn = ns.objs[name]

            def g(trained, consts, static):
                return nnx.grad(lambda m_, c_: fn(m_, c_, static), argnums=0)(trained, consts)

            _jit[k] = nnx.jit(g, static_argnums=(2,))
        return _jit[k]

    ns.jit_obj = jit_obj

    def leaves(tree):
        return {jax.tree_util.keystr(p): np.asarray(l) for p, l in jax.tree_util.tree_leaves_with_path(tree)}

    ns.leaves = leaves
    return ns


# --------------------------------------------------------------------------- generic engine

class Setup:
    """Everything the engine needs for one case of one differentiable loss."""

    name = ""          # sub-check name (prefix of every key)
    call = ""          # key into ns.calls
    static = ()        # hashable static config of the call
    n = 0
    farrs = None       # float arrays with leading batch axis
    iarrs = None       # int arrays with leading batch axis
    sc = None          # traced scalars / non-batch arrays
    trained = 0        # index into mods
    zero_mods = ()     # (index, label) of modules whose gradient must vanish
    zero_arrs = ()     # names in farrs whose gradient must vanish
    obj = ""           # key into ns.objs
    obj_static = ()
    per_sample = ()    # output names that carry one value per batch row
    rel_outputs = ("loss",)  # sums of non-negative terms: permutation tolerance is relative
    permute = True

    def make_mods(self):
        raise NotImplementedError

    def outputs(self, raw):
        raise NotImplementedError

    def reference(self, mods):
        """-> (ref dict name -> (float64 value, tolerance scale), info dict)"""
        raise NotImplementedError

    def consts(self, info):
        raise NotImplementedError

    def junk(self):
        """-> None or (farrs2, iarrs2) with ignored successor data replaced."""
        return None


def _np_out(d):
    return {k: np.asarray(v) for k, v in d.items()}


def _compare_grads(ns, sub, label, g_lib, g_ref, slack=1.0, extra=None):
    """Leaves agree within 2e-4 relative + 5e-4 x slack x (largest reference gradient entry; float32 reductions
    evaluated in two different orders differ by up to ~2e-4 of it, seen in the thorough tier)
    (+ a per-leaf absolute allowance ``extra`` measured by _grad_conditioning)."""
    a = ns.leaves(g_lib)
    b = ns.leaves(g_ref)
    check(sorted(a) == sorted(b), f"{sub}.grad.{label}.structure", lambda: f"{sorted(a)} vs {sorted(b)}")
    gmax = max([_mag(v) for v in b.values()] + [1e-30])
    bad = []
    for k in sorted(b):
        ex = (extra or {}).get(k, 0.0)
        if not close(a[k], b[k], scale=gmax * slack + ex / 5e-4, rel=2e-4, abs_=5e-4):
            bad.append((k, maxdiff(a[k], b[k])))
    return bad, gmax


def _grad_conditioning(S, ns, g_ref, reps=2):
    """LayerNorm amplifies float32 rounding in the backward pass even more than in the forward pass
    when its input is nearly constant.  Re-evaluate the reference gradient with every parameter and
    float input perturbed by a relative 2^-21 (a few float32 ulps) and allow 4x the observed movement
    per leaf.  Well-conditioned cases get ~1e-6 x scale, i.e. nothing.  (``reps`` random sign patterns:
    2, or COND_REPS for cases the forward estimate found ill-conditioned.)"""
    base = ns.leaves(g_ref)
    extra = {k: 0.0 for k in base}
    for rep in range(reps):
        r = np.random.default_rng((int(S.case["pseed"]), 778, rep))
        mods = S.make_mods()
        for m in mods:
            st_ = ns.nnx.state(m, ns.nnx.Param)
            lv, td = ns.jax.tree_util.tree_flatten(st_)
            new = [l * (1.0 + np.float32(2.0 ** -21) * r.choice([-1.0, 1.0], size=l.shape).astype(np.float32)) for l in lv]
            ns.nnx.update(m, ns.jax.tree_util.tree_unflatten(td, new))
        saved = S.farrs
        S.farrs = {k: (v * (1.0 + np.float32(2.0 ** -21) * r.choice([-1.0, 1.0], size=v.shape))).astype(np.float32)
                   for k, v in saved.items()}
        try:
            _, info_p = S.reference(mods)
            g_p = ns.leaves(ns.jit_obj(S.obj)(mods[S.trained], S.consts(info_p), S.obj_static))
        finally:
            S.farrs = saved
        for k in base:
            extra[k] = max(extra[k], 4.0 * maxdiff(g_p[k], base[k]))
    return extra


def _huber_slack(delta, errors):
    """The library's Huber form 0.5 q^2 + d (|e| - q), q = min(|e|, d), back-propagates d - d + |e| in
    float32: an absolute rounding error of ~ulp(d) per sample, which is large relative to the gradient
    when d >> |e|.  Widen the gradient tolerance accordingly (factor 1 unless d > 1e3 max|e|)."""
    return max(1.0, 1e-3 * float(delta) / max(_mag(errors), 1e-30))


def _huber_ulp_allowance(g_ref, delta):
    """Per-leaf absolute allowance for the float32 backward pass of the Huber form 0.5 q^2 + d (|e| - q),
    q = min(|e|, d) (the library's and optax.huber_loss'): dL/dQ_i is accumulated as d c - d c + q c, an absolute
    error of up to ulp32(d) in dL/dQ_i *whatever |e| is* (_huber_slack only covers d >> max|e|; witness
    replays/regress/C03_td3_lap_falsealarm_huber_delta_ulp.json: d = 1000, |e| 0.03..10, output-bias gradient
    0.03064 vs 0.03044).  The output-layer bias gradient is sum_i dL/dQ_i: allow 4 ulp32(d) there and the same
    relative to the leaf's own magnitude for the leaves behind it.  ``g_ref``: dict key -> array."""
    u = 4.0 * float(np.spacing(np.float32(delta)))
    ob = [_mag(v) for k, v in g_ref.items() if "bias" in k and ("output_layer" in k or np.size(v) == 1)]
    base = max(ob + [1e-30])
    return {k: u * max(1.0, _mag(v) / base) for k, v in g_ref.items()}


COND_REPS = 8       # perturbation patterns for cases whose two-pattern estimate is above COND_RETRY
COND_RETRY = 2.0    # in units of the plain tolerance (1e-5 x scale)


def _conditioning(S, ref, first=0, reps=2):
    """Extra absolute tolerance per output for setups with LayerNorm (which amplifies float32 rounding
    without bound when its input is nearly constant): re-evaluate the float64 reference with every
    parameter and float input perturbed by a relative 2^-21 (a few float32 ulps) and allow 4x the
    observed movement.  Well-conditioned cases get ~1e-6 x scale, i.e. nothing.

    The movement under ONE random sign pattern can be far below the typical one (witness
    replays/regress/C03_encoder_falsealarm_conditioning_two_patterns.json: reward_loss 39.14 moved by 0.005
    under each of the patterns 0 and 1, by 0.003 .. 0.14 under the next six; the jit-compiled library loss
    differs from the reference by 0.055 and from its own eager evaluation by 0.009): a case whose two-pattern estimate already exceeds COND_RETRY x
    the plain tolerance is re-estimated with COND_REPS patterns (run_engine)."""
    ns = L()
    extra = {k: 0.0 for k in ref}
    for rep in range(first, first + reps):
        r = np.random.default_rng((int(S.case["pseed"]), 777, rep))
        mods = S.make_mods()
        for m in mods:
            st_ = ns.nnx.state(m, ns.nnx.Param)
            lv, td = ns.jax.tree_util.tree_flatten(st_)
            new = [l * (1.0 + np.float32(2.0 ** -21) * r.choice([-1.0, 1.0], size=l.shape).astype(np.float32)) for l in lv]
            ns.nnx.update(m, ns.jax.tree_util.tree_unflatten(td, new))
        saved = S.farrs
        S.farrs = {k: (v * (1.0 + np.float32(2.0 ** -21) * r.choice([-1.0, 1.0], size=v.shape))).astype(np.float32)
                   for k, v in saved.items()}
        try:
            ref_p, _ = S.reference(mods)
        finally:
            S.farrs = saved
        for k in ref:
            extra[k] = max(extra[k], 4.0 * maxdiff(ref_p[k][0], ref[k][0]))
    return extra


def run_engine(S, case):
    ns = L()
    sub = S.name
    n = S.n
    labels = ["n=%d" % n] + list(getattr(S, "labels", []))
    mods = S.make_mods()
    ref, info = S.reference(mods)
    labels += info.get("labels", [])
    extra_tol = {k: 0.0 for k in ref}
    grad_reps = 2
    if getattr(S, "conditioning", False):
        extra_tol = _conditioning(S, ref)
        cond = max([1.0] + [extra_tol[k] / (1e-5 * ref[k][1]) for k in ref])
        if cond > COND_RETRY:
            more = _conditioning(S, ref, first=2, reps=COND_REPS - 2)
            extra_tol = {k: max(extra_tol[k], more[k]) for k in ref}
            cond = max([1.0] + [extra_tol[k] / (1e-5 * ref[k][1]) for k in ref])
            grad_reps = COND_REPS
        info["grad_slack"] = info.get("grad_slack", 1.0) * cond
        labels.append("ill-conditioned" if cond > 10 else "well-conditioned")
    info["extra_tol"] = extra_tol
    all_arrs = {**S.farrs, **S.iarrs}

    # clause 6 / 1 ---------------------------------------------------------------
    try:
        raw = ns.jit_call(S.call)(mods, all_arrs, S.sc, S.static)
    except Exception as e:  # noqa: BLE001
        if n == 1 and ns.from_lib(e.__traceback__) is not None:
            return Outcome(labels=labels + ["n1-raises", "n1-raises:" + type(e).__name__], nontrivial=False)
        raise
    out = _np_out(S.outputs(raw))
    if n == 1:
        labels.append("n1-value")
    if info.get("tie") and not info.get("skip_value"):
        # exactly tied online maximisers (double-DQN family): any tied action is admissible per sample
        ref, info, tie_labels = S.resolve_ties(ns, mods, out, ref, info)
        labels += tie_labels
    for name, (rv, scale) in ref.items():
        ov = out[name]
        if name in S.per_sample:
            if n == 1:
                ov = ov.reshape(-1) if ov.size == 1 else ov
            check(ov.shape == np.shape(rv), f"{sub}.value.{name}.shape", lambda: f"{ov.shape} expected {np.shape(rv)}")
        else:
            check(ov.shape == np.shape(rv) or (n == 1 and ov.size == 1), f"{sub}.value.{name}.shape",
                  lambda: f"{ov.shape} expected {np.shape(rv)}")
            ov = ov.reshape(np.shape(rv)) if ov.size == np.size(rv) else ov
        if info.get("skip_value"):
            continue
        if getattr(S, "finite", False) and np.all(np.isfinite(rv)):
            check(bool(np.all(np.isfinite(ov))), f"{sub}.nonfinite.{name}",
                  lambda: f"got {np.asarray(ov).tolist()}, the documented value is finite: {np.asarray(rv).tolist()} n={n}")
        ok = close(ov, rv, scale=scale + extra_tol[name] / 1e-5, rel=2e-4, abs_=1e-5)
        if not ok:
            alt = getattr(S, "classify", None)
            key = alt(name, ov, info) if alt else None
            check(False, key or f"{sub}.value.{name}",
                  lambda: f"got {np.asarray(ov).tolist()} expected {np.asarray(rv).tolist()} (tolerance scale {scale:.4g}) "
                          f"n={n}")

    # clause 3 / 2 ---------------------------------------------------------------
    gm, ga = ns.jit_grad(S.call)(mods, S.farrs, S.iarrs, S.sc, S.static)
    for idx, lab in S.zero_mods:
        lv = ns.leaves(gm[idx])
        nz = [k for k, v in lv.items() if not np.all(v == 0)]
        check(not nz, f"{sub}.zero_grad.{lab}", lambda: f"non-zero gradient leaves {nz[:4]} "
              f"max {max(_mag(lv[k]) for k in nz):.4g}")
    for name in S.zero_arrs:
        g = np.asarray(ga[name])
        check(bool(np.all(g == 0)), f"{sub}.zero_grad.{name}", lambda: f"max |grad| {_mag(g):.4g}")
    if not info.get("skip_value"):
        g_ref = ns.jit_obj(S.obj)(mods[S.trained], S.consts(info), S.obj_static)
        if getattr(S, "finite", False) and all(np.all(np.isfinite(v)) for v in ns.leaves(g_ref).values()):
            nf = [k for k, v in ns.leaves(gm[S.trained]).items() if not np.all(np.isfinite(v))]
            check(not nf, f"{sub}.nonfinite.grad.trained",
                  lambda: f"non-finite gradient leaves {nf[:4]}; the gradient of the documented objective is finite")
        extra_g = _grad_conditioning(S, ns, g_ref, grad_reps) if getattr(S, "conditioning", False) else None
        if info.get("huber_delta") is not None:
            hu = _huber_ulp_allowance(ns.leaves(g_ref), info["huber_delta"])
            extra_g = {k: (extra_g or {}).get(k, 0.0) + v for k, v in hu.items()}
        bad, gmax = _compare_grads(ns, sub, "trained", gm[S.trained], g_ref, info.get("grad_slack", 1.0), extra_g)
        if bad:
            altg = getattr(S, "classify_grad", None)
            key = altg(ns, mods, gm[S.trained], info) if altg else None
            check(False, key or f"{sub}.grad.trained",
                  lambda: f"gradient differs from the constant-target objective: {bad[:3]} (max |g_ref| {gmax:.4g})")

    # clause 4 -------------------------------------------------------------------
    jk = S.junk()
    if jk is not None:
        f2, i2 = jk
        raw2 = ns.jit_call(S.call)(S.make_mods(), {**f2, **i2}, S.sc, S.static)
        out2 = _np_out(S.outputs(raw2))
        for name in out:
            if not _same(out[name], out2[name]):
                altj = getattr(S, "classify_junk", None)
                key = altj(name, out2[name]) if altj else None
                check(False, key or f"{sub}.ignored_successor.{name}",
                      lambda: f"{name} changed from {out[name].tolist()} to {out2[name].tolist()} when only "
                              f"ignored successor data changed (rows {info.get('ignored_rows')})")
        labels.append("junk-checked")

    # clause 5 -------------------------------------------------------------------
    if S.permute and n >= 2:
        perm = np.random.default_rng((int(case["permseed"]), 5)).permutation(n)
        if np.all(perm == np.arange(n)):
            perm = np.roll(perm, 1)
        f3 = {k: v[perm] for k, v in S.farrs.items()}
        i3 = {k: v[perm] for k, v in S.iarrs.items()}
        raw3 = ns.jit_call(S.call)(S.make_mods(), {**f3, **i3}, S.sc, S.static)
        out3 = _np_out(S.outputs(raw3))
        for name, (rv, scale) in ref.items():
            a, b = out[name], out3[name]
            if name in S.per_sample:
                ok = close(b, a[perm], scale=scale, rel=1e-5, abs_=2e-6)
            elif name in S.rel_outputs:
                ok = close(b, a, scale=scale, rel=1e-5, abs_=1e-9)
            else:
                ok = close(b, a, scale=scale, rel=1e-5, abs_=2e-6)
            if not ok and maxdiff(b, a[perm] if name in S.per_sample else a) <= extra_tol[name]:
                ok = True  # rounding amplified by an ill-conditioned LayerNorm (see _conditioning)
            if not ok:
                altp = getattr(S, "classify_perm", None)
                key = altp(name) if altp else None
                check(False, key or f"{sub}.permutation.{name}",
                      lambda: f"{name}: {np.asarray(a).tolist()} -> {np.asarray(b).tolist()} under perm {perm.tolist()}")
        labels.append("perm-checked")
    return Outcome(labels=labels, nontrivial=bool(info.get("nontrivial", False)))


# --------------------------------------------------------------------------- case construction
#
# Hypothesis draws one structural seed per case; the structure (shape configuration, termination
# pattern, reward pattern, scales, extras) is expanded from it with a numpy generator using explicit
# weights, and stored *explicitly* in the case.  (Hypothesis' own choice distribution on small pools
# clusters heavily, e.g. 30 of 60 all-terminated batches in one shard; the non-triviality rule needs
# several independent features at once.)

ACTS = ["relu", "tanh", "elu"]
RSCALES = [1.0, 1.0, 1.0, 1.0, 3.0, 3.0, 0.3, 0.3, 10.0, 0.0, 0.03, 30.0, 1000.0]
PSCALES = [1.0, 1.0, 3.0, 0.3, 30.0, 0.05]
FACTORS = [1.0] * 12 + [0.7] * 3 + [1.5] * 3 + [1e-3] + [1e3]  # Huber delta / clip range relative to the data


def _choice(r, xs, p=None):
    return xs[int(r.choice(len(xs), p=p))]


def _f32(x):
    return float(np.float32(x))


def _term_bits(r, n):
    """mixed 86 % (both values forced when n >= 2), none 7 %, all 7 %."""
    u = r.random()
    if u < 0.07:
        return [0] * n
    if u < 0.14:
        return [1] * n
    bits = (r.random(n) < 0.3).astype(int).tolist()
    if n >= 2:
        i = int(r.integers(n))
        j = (i + 1 + int(r.integers(n - 1))) % n
        bits[i], bits[j] = 1, 0
    return bits


def _unit_rewards(r, shape):
    """Unit-scale rewards: floats in [-1, 1], exact specials 0 / +-1, or all zero."""
    u = r.random()
    if u < 0.1:
        x = np.zeros(shape)
    elif u < 0.3:
        x = r.choice([1.0, 0.0, -1.0], size=shape)
    else:
        x = r.uniform(-1.0, 1.0, size=shape)
        sp = r.random(shape) < 0.2
        x = np.where(sp, r.choice([1.0, 0.0, -1.0], size=shape), x)
    return np.asarray(x, dtype=np.float32).astype(float).tolist()


def _gamma(r):
    u = r.random()
    if u < 0.6:
        return _choice(r, [0.99, 0.9, 0.5, 1.0])
    if u < 0.66:
        return 0.0
    return _f32(r.uniform(0.0, 1.0))


def _pick_cfg(r, pool, extra):
    """Pool entries carry their own weight ``w`` (batch size 1 is kept rare)."""
    p = list(pool) if gen.tier() == "quick" else list(pool) + list(extra)
    w = np.asarray([c.get("w", 1.0) for c in p], dtype=float)
    c = dict(_choice(r, p, w / w.sum()))
    c.pop("w", None)
    return c


def _common(r, cfg):
    n = cfg["n"]
    return {
        "cfg": cfg, "pseed": int(r.integers(2**31)), "dseed": int(r.integers(2**31)),
        "jseed": int(r.integers(2**31)), "permseed": int(r.integers(2**31)),
        "pscale": _choice(r, PSCALES), "oscale": _choice(r, [1.0, 3.0, 0.1, 10.0]),
        "act": _choice(r, ACTS),
        "rscale": _choice(r, RSCALES), "rmode": "abs" if r.random() < 0.08 else "rel",
        "reward": _unit_rewards(r, (n,)), "term": _term_bits(r, n), "gamma": _gamma(r),
    }


def _cases(builder):
    """Strategy: structural seed -> explicit JSON case."""
    def make():
        return gen.seeds().map(lambda s: builder(np.random.default_rng((int(s), 3))))
    return make


def _pow2(x):
    """x rounded to a power of two (keeps derived scales insensitive to rounding noise)."""
    return float(2.0 ** np.round(np.log2(x))) if x > 0 and np.isfinite(x) else 1.0


def _rew(case, qmag=1.0, unit=None):
    """Rewards = unit pattern x rscale, in units of the bootstrap magnitude (rmode 'rel': reward and
    bootstrap comparable by construction) or absolute (rmode 'abs')."""
    unit = np.asarray(case["reward"] if unit is None else unit, dtype=np.float32)
    s = np.float32(case["rscale"]) * np.float32(_pow2(qmag) if case.get("rmode", "abs") == "rel" else 1.0)
    return (unit * s + np.float32(0.0)).astype(np.float32)


def _rel_level(factor, values, mode):
    """A threshold (Huber delta, clip bound) = factor x median |values| ('rel': both sides of the
    threshold occur by construction for factor 1) or = factor ('abs')."""
    if mode != "rel":
        return _f32(factor)
    v = np.abs(np.asarray(values, dtype=np.float64)).ravel()
    med = float(np.median(v)) if v.size else 1.0
    return _f32(factor * (med if med > 0 else 1.0))


def _bootstrap_nt(term, boot_term, y):
    """Mixed termination and bootstrap >= 1% of the target scale."""
    t = np.asarray(term)
    mixed = bool(t.any() and (1 - t).any())
    big = _mag(boot_term) >= 0.01 * max(_mag(y), 1e-30) and _mag(boot_term) > 0
    labs = ["term-mixed" if mixed else ("term-all" if t.all() else "term-none")]
    labs.append("bootstrap>=1%" if big else "bootstrap-small")
    return mixed and big, labs


def _junk_rows(arr, rows, seed, k):
    out = np.array(arr, copy=True)
    if np.any(rows):
        mags = np.random.default_rng((int(seed), int(k), 1)).choice([1.0, 1e2, 1e4], size=out.shape)
        out[rows] = (_arr(seed, k, out.shape, 1.0) * mags).astype(np.float32)[rows]
    return out


def _branch_labels(q1, q2, what="min"):
    lo1, lo2 = bool(np.any(q1 < q2)), bool(np.any(q2 < q1))
    return lo1 and lo2, [f"{what}-both-nets" if lo1 and lo2 else f"{what}-one-net"]


def _simplify(case):
    """Greedy candidates for the bounded minimiser (used instead of Hypothesis shrinking)."""
    def var(**kw):
        c = dict(case)
        c.update(kw)
        return c
    for k, v in (("pscale", 1.0), ("oscale", 1.0), ("rscale", 1.0), ("gamma", 0.5), ("act", "tanh"),
                 ("rmode", "abs"), ("dmode", "abs"), ("cmode", "abs")):
        if k in case and case[k] != v:
            yield var(**{k: v})
    if isinstance(case.get("reward"), list) and case["reward"] and not isinstance(case["reward"][0], list) \
            and any(case["reward"]):
        yield var(reward=[0.0] * len(case["reward"]))
    for k in ("pseed", "dseed", "jseed", "permseed"):
        if case.get(k):
            yield var(**{k: 0})


SUBCHECKS = []
_BASE_RULE = "terminated and non-terminated rows mixed, bootstrap >= 1% of the target scale"


def _add(name, builder, run, rule="", cost=1.0, quick=60, floor=0.3):
    SUBCHECKS.append(SubCheck(name, _cases(builder), run, quick=quick, thorough=1500, shards=2, shrink=False,
                              suppress_too_slow=True, min_nontrivial_frac=floor,
                              simplify=_simplify, cost=cost, rule=_BASE_RULE + rule))


# --------------------------------------------------------------------------- discrete family

DISCRETE_POOL = [
    {"n": 3, "do": 2, "na": 3, "hidden": [4]},
    {"n": 2, "do": 1, "na": 2, "hidden": [4]},
    {"n": 5, "do": 3, "na": 2, "hidden": [5, 3]},
    {"n": 8, "do": 2, "na": 5, "hidden": [5, 3]},
    {"n": 3, "do": 3, "na": 5, "hidden": []},
    {"n": 1, "do": 2, "na": 3, "hidden": [4], "w": 0.3},
]
DISCRETE_EXTRA = [
    {"n": 2, "do": 3, "na": 3, "hidden": [5, 3]},
    {"n": 4, "do": 1, "na": 4, "hidden": [4]},
    {"n": 16, "do": 2, "na": 2, "hidden": [4]},
    {"n": 1, "do": 1, "na": 2, "hidden": [], "w": 0.5},
    {"n": 7, "do": 5, "na": 7, "hidden": [4]},
]


TIE_FRAC = 0.28          # share of double-DQN cases whose online maximiser is exactly tied in some rows
TIE_ENUM_CAP = 100000    # admissible selections enumerated at most (fallback of DiscreteSetup.resolve_ties)


def _tie_spec(r, cfg):
    """Exact ties of the ONLINE network's maximal Q-value at successor observations (double-DQN family; the
    target network stays generic, so its values at the tied actions differ).

    'all'   : zero output kernel and equal output biases - every action ties in every row (what a
              zero-initialised last layer gives);
    'const' : the output units ``cols`` get a zero kernel column and one common bias, placed between the row maxima
              of the other units so that the tied group is the maximiser in 1 + floor(frac L) of the L
              non-terminated rows;
    'dup'   : the output units ``cols[1:]`` are copies of unit ``cols[0]`` (same kernel column, same bias: the
              tied value depends on the observation), with a common bias offset placed in the same way."""
    u = r.random()
    if u < 0.2:
        return {"mode": "all"}
    k = 3 if (cfg["na"] >= 4 and r.random() < 0.3) else 2
    cols = [int(x) for x in r.permutation(cfg["na"])[:k]]
    return {"mode": "const" if u < 0.55 else "dup", "cols": cols, "frac": _f32(r.random())}


def discrete_builder(kind):
    def build(r):
        cfg = _pick_cfg(r, DISCRETE_POOL, DISCRETE_EXTRA)
        c = _common(r, cfg)
        c["action"] = r.integers(0, cfg["na"], cfg["n"]).tolist()
        if kind == "ddqn_per":
            c["is_ratio"] = ([1.0] * cfg["n"] if r.random() < 0.2
                             else [_f32(x) for x in r.uniform(1e-3, 1.0, cfg["n"])])
        if kind in ("ddqn", "ddqn_per"):
            c["tie"] = _tie_spec(r, cfg) if r.random() < TIE_FRAC else None
        return c
    return build


class DiscreteSetup(Setup):
    obj = "discrete"

    def __init__(self, kind, case):
        self.name = self.call = kind
        self.kind = kind
        self.case = case
        cfg = case["cfg"]
        n, do = cfg["n"], cfg["do"]
        self.n = n
        self.farrs = {
            "observation": _arr(case["dseed"], 0, (n, do), case["oscale"]),
            "next_observation": _arr(case["dseed"], 1, (n, do), case["oscale"]),
        }
        mods = self.make_mods()
        self.farrs["reward"] = _rew(case, _mag(mods[-1](self.farrs["next_observation"])))
        self.iarrs = {"action": np.asarray(case["action"], dtype=np.int32),
                      "termination": np.asarray(case["term"], dtype=np.int32)}
        if kind == "ddqn_per":
            self.farrs["is_ratio"] = np.asarray(case["is_ratio"], dtype=np.float32)
        self.sc = {"gamma": float(case["gamma"])}
        self.zero_arrs = ("next_observation",)
        self.zero_mods = () if kind == "dqn" else ((1, "q_target"),)
        self.per_sample = ()

    def make_mods(self):
        ns = L()
        cfg, c = self.case["cfg"], self.case
        q = ns.mlp(cfg["do"], cfg["na"], cfg["hidden"], c["act"], c["pseed"], c["pscale"])
        if self.kind == "dqn":
            return (q,)
        if c.get("tie") and self.kind in ("ddqn", "ddqn_per"):
            self._tie_online(q, c["tie"])
        return (q, ns.mlp(cfg["do"], cfg["na"], cfg["hidden"], c["act"], c["pseed"] + 1, c["pscale"]))

    def _tie_online(self, q, tie):
        """Make output units of the online network exactly equal (see _tie_spec); pure function of the case."""
        ns = L()
        out = q.output_layer
        K, B = np.array(out.kernel.value), np.array(out.bias.value)
        na = B.shape[0]

        def put():
            out.kernel.value = ns.jnp.asarray(K)
            out.bias.value = ns.jnp.asarray(B)

        if tie["mode"] == "all":
            K[:] = 0.0
            B[:] = B[0]
            return put()
        cols = [int(a) for a in tie["cols"]]
        src = cols[0]
        rest = [a for a in range(na) if a not in cols]
        K[:, cols] = 0.0 if tie["mode"] == "const" else K[:, [src]]
        B[cols] = B[src]
        put()
        if not rest:
            return None
        # level of the tied group: it is the row maximum in k of the L non-terminated rows
        Qn = F(q(self.farrs["next_observation"]))
        live = np.asarray(self.case["term"]) == 0
        rows = live if live.any() else np.ones_like(live)
        d = np.sort((Qn[:, rest].max(1) - Qn[:, src])[rows])
        k = 1 + int(float(tie["frac"]) * (len(d) - 1))  # 1 .. L-1 (L when L = 1): some, not all, live rows tie
        shift = 0.5 * (d[k - 1] + d[k]) if k < len(d) else d[-1] + 0.25 * max(_mag(Qn), 1e-3)
        B[cols] = np.float32(float(B[src]) + shift)
        return put()

    def outputs(self, raw):
        if self.kind == "ddqn_per":
            return {"loss": raw[0], "q_mean": raw[1][0], "td_error_mean": raw[1][1]}
        return {"loss": raw[0], "q_mean": raw[1]}

    def reference(self, mods):
        a, i = self.farrs, self.iarrs
        q = mods[0]
        qt = mods[-1]
        Q = F(q(a["observation"]))
        Qn = F(q(a["next_observation"]))
        Qtn = F(qt(a["next_observation"]))
        n = self.n
        rows = np.arange(n)
        labels = []
        skip = False
        r = F(a["reward"])
        t = F(i["termination"])
        g = float(np.float32(self.case["gamma"]))
        pred = Q[rows, i["action"]]
        w = F(a["is_ratio"]) if self.kind == "ddqn_per" else np.ones(n)
        scale = max(_mag(r, Q, Qn, Qtn), 1e-6)
        sel, tie, tie_nt = None, None, False
        if self.kind == "dqn":
            boot = Qn.max(1)
        elif self.kind == "nature_dqn":
            boot = Qtn.max(1)
        else:
            sel = Qn.argmax(1)  # first maximiser; resolve_ties replaces it in exactly tied rows
            boot = Qtn[rows, sel]
            top = Qn.max(1)
            tied = Qn == top[:, None]  # exact ties of the float32 outputs: every tied action is an admissible selection
            below = np.where(tied, -np.inf, Qn).max(1)  # largest Q-value strictly below the row maximum
            live = np.asarray(i["termination"]) == 0
            if np.any(live & (top - below <= 1e-4 * (1e-30 + np.abs(top)))) and self.case["gamma"] != 0:
                skip = True
                labels.append("argmax-near-tie")
            # the double-Q selection matters only where it differs from the target net's own arg-max
            dif = live & (sel != Qtn.argmax(1))
            labels.append("selection!=target-argmax" if np.any(dif) else "selection==target-argmax")
            trows = [int(k) for k in np.nonzero(live & (tied.sum(1) >= 2))[0]] if self.case["gamma"] != 0 else []
            if trows:
                cands = [np.nonzero(tied[k])[0] for k in trows]
                spread = max(float(np.ptp(Qtn[k, c])) for k, c in zip(trows, cands))
                tie_nt = spread > 1e-3 * scale  # the choice among the tied actions changes the target
                labels += ["online-max-tie", "online-max-tie:targets-differ" if tie_nt else "online-max-tie:targets-equal",
                           "online-max-tie:all-live-rows" if len(trows) == int(live.sum()) else "online-max-tie:some-live-rows",
                           "online-max-tie:%d-way" % max(len(c) for c in cands)]
                tie = {"rows": trows, "cands": cands, "scale": scale, "pred": pred,
                       "ycand": r[:, None] + (1.0 - t)[:, None] * g * Qtn}
            elif self.case.get("tie"):
                labels.append("online-max-tie-moot")
            if self.case.get("tie"):
                labels.append("tie-mode:" + self.case["tie"]["mode"])

        def assemble(boot_):
            bterm_ = (1.0 - t) * g * boot_
            y_ = r + bterm_
            ref_ = {"loss": (np.mean(w * (pred - y_) ** 2), scale ** 2), "q_mean": (np.mean(pred), scale)}
            if self.kind == "ddqn_per":
                ref_["td_error_mean"] = (np.mean(np.abs(pred - y_)), scale)
            return ref_, y_, bterm_

        ref, y, bterm = assemble(boot)
        nt, labs = _bootstrap_nt(i["termination"], bterm, y)
        if self.kind in ("ddqn", "ddqn_per"):
            nt = nt and ("selection!=target-argmax" in labels or tie_nt)
        if tie is not None:
            tie.update(sel=sel, assemble=lambda sel_: assemble(Qtn[rows, sel_]))
        return ref, {"y": y, "w": w, "labels": labels + labs, "nontrivial": nt and not skip, "skip_value": skip,
                     "ignored_rows": np.nonzero(i["termination"])[0].tolist(), "tie": tie}

    def resolve_ties(self, ns, mods, out, ref, info):
        """Rows whose online maximiser is exactly tied: the documented bootstrap Q'(o', argmax_a Q(o', a)) admits any
        of the tied actions, per sample.  Decide which admissible selection the library took in each such row and
        rebuild the reference (and the constant target of the gradient clause) from these selections; all clauses
        keep their tolerances.

        The loss has no per-sample output, but d loss / d reward_i = -2 w_i (Q(o_i, a_i) - y_i) / N carries the signed
        TD error of row i: where this gradient reproduces the library's own loss (and mean |TD error|), each tied
        row takes the admissible action whose TD error is nearest, and that TD error must agree
        (``<sub>.value.tie_selection``: the sample's target belongs to none of the tied maximisers).  An
        implementation that passes no gradient to the reward is resolved by enumeration: the admissible combination
        (at most TIE_ENUM_CAP) that reproduces the scalar outputs best.
        -> (ref, info, labels)"""
        T = info["tie"]
        n, sub, scale, w = self.n, self.name, T["scale"], info["w"]
        trows, cands, pred, ycand = T["rows"], T["cands"], T["pred"], T["ycand"]
        sel = np.array(T["sel"], copy=True)
        per = self.kind == "ddqn_per"
        _, ga = ns.jit_grad(self.call)(mods, self.farrs, self.iarrs, self.sc, self.static)
        gr = F(ga["reward"]).reshape(-1)
        e = None
        if gr.shape == (n,) and np.all(np.isfinite(gr)) and np.any(gr != 0):
            e = -n * gr / (2.0 * w)
            if not (close(np.mean(w * e ** 2), out["loss"], scale=scale ** 2, rel=2e-4, abs_=1e-5)
                    and (not per or close(np.mean(np.abs(e)), out["td_error_mean"], scale=scale, rel=2e-4, abs_=1e-5))):
                e = None
        if e is not None:
            how = "reward-gradient"
            for k, c in zip(trows, cands):
                td = pred[k] - ycand[k, c]
                j = int(np.argmin(np.abs(td - e[k])))
                sel[k] = int(c[j])
                check(abs(td[j] - e[k]) <= 1e-5 * scale + 2e-4 * abs(td[j]), f"{sub}.value.tie_selection",
                      lambda: f"row {k}: the online maximiser is tied between actions {c.tolist()}, admissible TD errors "
                              f"{td.tolist()} (targets {ycand[k, c].tolist()}), but d loss / d reward gives TD error "
                              f"{float(e[k])!r} (scale {scale:.4g}, n={n})")
        else:
            total = 1
            for c in cands:
                total *= len(c)
            if total > TIE_ENUM_CAP:
                return ref, info, ["tie-unresolved"]
            how = "enumeration"
            import itertools
            idx = np.asarray(list(itertools.product(*[c.tolist() for c in cands])), dtype=int)  # (C, R)
            Y = np.repeat(ycand[np.arange(n), sel][None, :], len(idx), axis=0)
            Y[:, trows] = ycand[np.asarray(trows)[None, :], idx]
            TD = pred[None, :] - Y
            lo = np.mean(w[None, :] * TD ** 2, axis=1)
            miss = np.abs(lo - float(out["loss"])) / (1e-5 * scale ** 2 + 2e-4 * np.abs(lo))
            if per:
                tm = np.mean(np.abs(TD), axis=1)
                miss = np.maximum(miss, np.abs(tm - float(out["td_error_mean"])) / (1e-5 * scale + 2e-4 * np.abs(tm)))
            sel[trows] = idx[int(np.argmin(miss))]
        ref2, y2, _ = T["assemble"](sel)
        first = bool(np.all(sel == T["sel"]))
        return ref2, dict(info, y=y2), ["tie-resolved:" + how,
                                        "tie-selection:first-maximiser" if first else "tie-selection:other-maximiser"]

    def consts(self, info):
        return {"observation": self.farrs["observation"], "action": self.iarrs["action"],
                "y": info["y"].astype(np.float32), "w": info["w"].astype(np.float32)}

    def junk(self):
        rows = self.iarrs["termination"] == 1
        if not rows.any():
            return None
        f2 = dict(self.farrs)
        f2["next_observation"] = _junk_rows(self.farrs["next_observation"], rows, self.case["jseed"], 0)
        return f2, self.iarrs


def _runner(cls, kind):
    def run(case):
        return run_engine(cls(kind, case), case)
    return run


for _k in ("dqn", "nature_dqn", "ddqn", "ddqn_per"):
    _add(_k, discrete_builder(_k), _runner(DiscreteSetup, _k),
         ", online arg-max differs from the target net's arg-max in a non-terminated row or is exactly tied there "
         "between actions whose target values differ" if "ddqn" in _k else "")


# --------------------------------------------------------------------------- continuous family

CONT_POOL = [
    {"n": 5, "do": 2, "da": 1, "hidden": [4]},
    {"n": 8, "do": 2, "da": 3, "hidden": [5, 3]},
    {"n": 4, "do": 3, "da": 2, "hidden": [5, 3]},
    {"n": 3, "do": 3, "da": 1, "hidden": []},
    {"n": 2, "do": 1, "da": 2, "hidden": [4], "w": 0.3},
    {"n": 1, "do": 2, "da": 1, "hidden": [4], "w": 0.3},
]
CONT_EXTRA = [
    {"n": 2, "do": 3, "da": 3, "hidden": [5, 3]},
    {"n": 6, "do": 1, "da": 1, "hidden": [4]},
    {"n": 16, "do": 2, "da": 2, "hidden": [4]},
    {"n": 1, "do": 1, "da": 1, "hidden": [], "w": 0.5},
    {"n": 7, "do": 5, "da": 4, "hidden": [4]},
]


def cont_builder(kind):
    def build(r):
        cfg = _pick_cfg(r, CONT_POOL, CONT_EXTRA)
        c = _common(r, cfg)
        if kind == "td3_lap":
            c["min_priority"] = _choice(r, FACTORS)
            c["dmode"] = "abs" if r.random() < 0.1 else "rel"
        if kind == "sac":
            c["alpha"] = _choice(r, [0.2, 1.0, 0.0, 0.01, 5.0])
            c["policy"] = _choice(r, ["gaussian", "probe"] if gen.tier() == "quick"
                                  else ["gaussian", "probe", "gaussian_shared"])
            c["key"] = int(r.integers(2**31))
        return c
    return build


def _box(ns, seed, da):
    low = -(np.abs(_arr(seed, 90, (da,), 2.0)) + 0.1)
    high = np.abs(_arr(seed, 91, (da,), 2.0)) + 0.1
    return ns.gym.spaces.Box(low=low.astype(np.float32), high=high.astype(np.float32))


class ContSetup(Setup):
    def __init__(self, kind, case):
        ns = L()
        self.name = self.call = kind
        self.kind = kind
        self.case = case
        cfg = case["cfg"]
        n, do, da = cfg["n"], cfg["do"], cfg["da"]
        self.n = n
        self.farrs = {
            "observation": _arr(case["dseed"], 0, (n, do), case["oscale"]),
            "next_observation": _arr(case["dseed"], 1, (n, do), case["oscale"]),
            "action": _arr(case["dseed"], 2, (n, da), 1.0),
        }
        self.iarrs = {"termination": np.asarray(case["term"], dtype=np.int32)}
        self.sc = {"gamma": float(case["gamma"])}
        self.zero_arrs = ("next_observation",)
        if kind in ("td3", "td3_lap"):
            self.farrs["next_action"] = _arr(case["dseed"], 3, (n, da), 1.0)
            self.zero_arrs = ("next_observation", "next_action")
        if kind == "ddpg":
            self.zero_mods = ((1, "q_target"), (2, "policy_target"))
            self.obj = "single"
        elif kind == "sac":
            self.zero_mods = ((1, "q_target"), (2, "policy"))
            self.obj = "double"
            self.sc["alpha"] = float(case["alpha"])
            self.sc["key"] = ns.jax.random.key(int(case["key"]))
            self.permute = case["policy"] == "probe"  # the Gaussian policy's noise is positional
            self.labels = ["policy=" + case["policy"]]
        else:
            self.zero_mods = ((1, "q_target"),)
            self.obj = "double_huber" if kind == "td3_lap" else "double"
        # data-dependent parts of the case (pure functions of it): output-bias centring of the twin
        # critics, reward scale, Huber delta
        self.shifts = None
        mods = self._raw_mods()
        fw = self._forward(mods)
        if kind != "ddpg":
            live = self.iarrs["termination"] == 0
            s_t = self._shift(fw["t2"] - fw["t1"], live)
            s_o = self._shift(fw["p2"] - fw["p1"], np.ones(n, bool))
            self.shifts = (s_o, s_t)
            fw["t2"] = fw["t2"] - s_t
            fw["p2"] = fw["p2"] - s_o
        boot = fw["t1"] if kind == "ddpg" else np.minimum(fw["t1"], fw["t2"])
        self.farrs["reward"] = _rew(case, _mag(boot))
        if kind == "td3_lap":
            y = self._target(fw)
            ee = np.concatenate((np.abs(fw["p1"] - y), np.abs(fw["p2"] - y)))
            self.delta = _rel_level(case["min_priority"], ee, case["dmode"])
            self.sc["min_priority"] = self.delta
            self.per_sample = ("max_abs_td_error",)

    @staticmethod
    def _shift(d, rows):
        d = np.sort(np.asarray(d, dtype=np.float64).reshape(len(rows))[rows])
        if d.size < 2:
            return 0.0
        k = d.size // 2
        return float(np.float32(0.5 * (d[k - 1] + d[k])))

    def _double(self, seed):
        ns = L()
        cfg, c = self.case["cfg"], self.case
        d = cfg["do"] + cfg["da"]
        return ns.DoubleQ(ns.mlp(d, 1, cfg["hidden"], c["act"], seed, c["pscale"]),
                          ns.mlp(d, 1, cfg["hidden"], c["act"], seed + 1, c["pscale"], twin_of=seed))

    def _raw_mods(self):
        ns = L()
        cfg, c = self.case["cfg"], self.case
        do, da = cfg["do"], cfg["da"]
        if self.kind == "ddpg":
            q = ns.mlp(do + da, 1, cfg["hidden"], c["act"], c["pseed"], c["pscale"])
            qt = ns.mlp(do + da, 1, cfg["hidden"], c["act"], c["pseed"] + 1, c["pscale"])
            pt = ns.DeterministicTanhPolicy(ns.mlp(do, da, cfg["hidden"], c["act"], c["pseed"] + 2, 1.0),
                                            _box(ns, c["pseed"], da))
            return (q, qt, pt)
        q, qt = self._double(c["pseed"]), self._double(c["pseed"] + 2)
        if self.kind != "sac":
            return (q, qt)
        if c["policy"] == "probe":
            pol = ns.ProbePolicy(ns.mlp(do, da, [4], "tanh", c["pseed"] + 4, 1.0),
                                 ns.mlp(do + da, 1, [4], "tanh", c["pseed"] + 5, 1.0))
        else:
            net = ns.reinit(ns.GaussianMLP(c["policy"] == "gaussian_shared", do, da, list(cfg["hidden"]), c["act"],
                                           ns.nnx.Rngs(0)), c["pseed"] + 4, 1.0)
            # keep the standard deviation O(1): log pi(a'|o') of a' = mean + std * eps re-computes
            # (a' - mean) / std, whose float32 rounding error is ulp(mean) / std -- with std ~ e^-8 the
            # jitted loss and the eager reference differ by 1e-3 in log pi for rounding reasons only
            if c["policy"] == "gaussian_shared":
                ol = net.output_layers[0]
                ol.kernel.value = ol.kernel.value.at[:, da:].multiply(0.1)
                ol.bias.value = ol.bias.value.at[da:].multiply(0.1)
            else:
                ol = net.output_layers[1]
                ol.kernel.value = ol.kernel.value * 0.1
                ol.bias.value = ol.bias.value * 0.1
            pol = ns.GaussianTanhPolicy(net, _box(ns, c["pseed"], da))
        return (q, qt, pol)

    def make_mods(self):
        mods = self._raw_mods()
        if self.shifts is not None:
            for m, s in zip(mods[:2], self.shifts):
                b = m.q2.output_layer.bias
                b.value = b.value - np.float32(s)
        return mods

    def _forward(self, mods):
        """The modules' own float32 forward passes, as float64."""
        ns = L()
        jnp = ns.jnp
        a = self.farrs
        q, qt = mods[0], mods[1]
        oa = jnp.concatenate((a["observation"], a["action"]), axis=-1)
        fw = {}
        if self.kind == "ddpg":
            na = mods[2](a["next_observation"])
            fw["t1"] = F(qt(jnp.concatenate((a["next_observation"], na), axis=-1)))[:, 0]
            fw["p1"] = F(q(oa))[:, 0]
            return fw
        if self.kind == "sac":
            pol = mods[2]
            na = pol.sample(a["next_observation"], self.sc["key"])
            fw["logp"] = F(pol.log_probability(a["next_observation"], na))
            check(fw["logp"].shape == (self.n,), "sac.harness.logp_shape", f"{fw['logp'].shape}")
        else:
            na = a["next_action"]
        noa = jnp.concatenate((a["next_observation"], na), axis=-1)
        fw["t1"], fw["t2"] = F(qt.q1(noa))[:, 0], F(qt.q2(noa))[:, 0]
        fw["p1"], fw["p2"] = F(q.q1(oa))[:, 0], F(q.q2(oa))[:, 0]
        return fw

    def _boot(self, fw):
        if self.kind == "ddpg":
            return fw["t1"]
        boot = np.minimum(fw["t1"], fw["t2"])
        if self.kind == "sac":
            boot = boot - float(np.float32(self.case["alpha"])) * fw["logp"]
        return boot

    def _target(self, fw):
        r = F(self.farrs["reward"])
        t = F(self.iarrs["termination"])
        g = float(np.float32(self.case["gamma"]))
        return r + (1.0 - t) * g * self._boot(fw)

    def outputs(self, raw):
        if self.kind == "td3_lap":
            return {"loss": raw[0], "q_mean": raw[1][0], "max_abs_td_error": raw[1][1]}
        return {"loss": raw[0], "q_mean": raw[1]}

    def reference(self, mods):
        i = self.iarrs
        fw = self._forward(mods)
        labels = []
        both = True
        boot = self._boot(fw)
        y = self._target(fw)
        r = F(self.farrs["reward"])
        bterm = y - r
        p1, p2 = fw["p1"], fw.get("p2")
        live = np.asarray(i["termination"]) == 0
        extra = 0.0
        if self.kind != "ddpg":
            both, labs = _branch_labels(fw["t1"][live], fw["t2"][live], "target-min")
            labels += labs + _branch_labels(p1, p2, "online-min")[1]
        if self.kind == "sac":
            ent = float(np.float32(self.case["alpha"])) * fw["logp"]
            extra = _mag(ent)
            labels.append("entropy-term>=1%" if _mag(ent[live]) >= 0.01 * max(_mag(boot[live]), 1e-30)
                          and _mag(ent[live]) > 0 else "entropy-term-small")
        scale = max(_mag(r, boot, p1, p2 if p2 is not None else 0.0, extra), 1e-6)
        info = {}
        if self.kind == "ddpg":
            ref = {"loss": (np.mean((p1 - y) ** 2), scale ** 2), "q_mean": (np.mean(p1), scale)}
        elif self.kind == "td3_lap":
            d = self.delta
            e1, e2 = np.abs(p1 - y), np.abs(p2 - y)
            ref = {"loss": (np.mean(_huber(e1, d)) + np.mean(_huber(e2, d)), max(scale ** 2, scale * d)),
                   "q_mean": (np.mean(np.minimum(p1, p2)), scale),
                   "max_abs_td_error": (np.maximum(e1, e2), scale)}
            ee = np.concatenate((e1, e2))
            hb = bool(np.any(ee < d) and np.any(ee > d))
            labels.append("huber-both-branches" if hb else "huber-one-branch")
            labels += _branch_labels(e1, e2, "max-td")[1]
            both = both and hb
            info["grad_slack"] = _huber_slack(d, ee)
            info["huber_delta"] = float(d)
        else:
            ref = {"loss": (np.mean((p1 - y) ** 2) + np.mean((p2 - y) ** 2), scale ** 2),
                   "q_mean": (np.mean(np.minimum(p1, p2)), scale)}
        nt, labs = _bootstrap_nt(i["termination"], bterm, y)
        info.update({"y": y, "labels": labels + labs, "nontrivial": nt and both,
                     "ignored_rows": np.nonzero(i["termination"])[0].tolist()})
        return ref, info

    def consts(self, info):
        c = {"observation": self.farrs["observation"], "action": self.farrs["action"],
             "y": info["y"].astype(np.float32)}
        if self.kind == "td3_lap":
            c["delta"] = self.delta
        return c

    def junk(self):
        rows = self.iarrs["termination"] == 1
        if not rows.any():
            return None
        f2 = dict(self.farrs)
        f2["next_observation"] = _junk_rows(self.farrs["next_observation"], rows, self.case["jseed"], 0)
        if "next_action" in f2:
            f2["next_action"] = _junk_rows(self.farrs["next_action"], rows, self.case["jseed"], 1)
        return f2, self.iarrs


_MIN_RULE = ", each target critic is the minimum in some non-terminated row"
_add("ddpg", cont_builder("ddpg"), _runner(ContSetup, "ddpg"))
_add("td3", cont_builder("td3"), _runner(ContSetup, "td3"), _MIN_RULE)
_add("td3_lap", cont_builder("td3_lap"), _runner(ContSetup, "td3_lap"),
     _MIN_RULE + ", absolute TD errors on both sides of min_priority",
     floor=0.2)  # conjunction of four constructed features (observed 0.35-0.45)
_add("sac", cont_builder("sac"), _runner(ContSetup, "sac"), _MIN_RULE, cost=1.5)


# --------------------------------------------------------------------------- ContinuousClippedDoubleQNet

def double_q_builder(r):
    cfg = _pick_cfg(r, CONT_POOL, CONT_EXTRA)
    return {"cfg": cfg, "pseed": int(r.integers(2**31)), "dseed": int(r.integers(2**31)),
            "pscale": _choice(r, PSCALES), "oscale": _choice(r, [1.0, 3.0, 0.1, 10.0]), "act": _choice(r, ACTS),
            "sale": bool(r.random() < 0.4)}


def run_double_q(case):
    ns = L()
    cfg = case["cfg"]
    n, d = cfg["n"], cfg["do"] + cfg["da"]
    x = _arr(case["dseed"], 0, (n, d), case["oscale"])
    kw = {}
    if case["sale"]:
        z = 3
        kw = {"zsa": _arr(case["dseed"], 1, (n, z)), "zs": _arr(case["dseed"], 2, (n, z))}

        def crit(seed, twin=None):
            c = ns.CriticSALE(ns.MLP(4 + 2 * z, 1, list(cfg["hidden"]), case["act"], ns.nnx.Rngs(0)), cfg["do"],
                              cfg["da"], 4, ns.nnx.Rngs(0))
            return ns.reinit(c, seed, case["pscale"], twin)
        q1, q2 = crit(case["pseed"]), crit(case["pseed"] + 1, case["pseed"])
        out_layer = q2.q_net.output_layer
    else:
        q1 = ns.mlp(d, 1, cfg["hidden"], case["act"], case["pseed"], case["pscale"])
        q2 = ns.mlp(d, 1, cfg["hidden"], case["act"], case["pseed"] + 1, case["pscale"], twin_of=case["pseed"])
        out_layer = q2.output_layer
    shift = ContSetup._shift(F(q2(x, **kw)) - F(q1(x, **kw)), np.ones(n, bool))
    out_layer.bias.value = out_layer.bias.value - np.float32(shift)
    dq = ns.DoubleQ(q1, q2)
    v1, v2 = np.asarray(q1(x, **kw)), np.asarray(q2(x, **kw))
    lo = np.asarray(dq(x, **kw))
    mean = np.asarray(dq.mean(x, **kw))
    check(lo.shape == (n, 1), "double_q.call.shape", f"{lo.shape}")
    check(_same(lo, np.minimum(v1, v2)), "double_q.call.is_minimum",
          lambda: f"q(x)={lo.ravel().tolist()} q1={v1.ravel().tolist()} q2={v2.ravel().tolist()}")
    scale = max(_mag(v1, v2), 1e-6)
    check(mean.shape == (n, 1), "double_q.mean.shape", f"{mean.shape}")
    check(close(mean, 0.5 * (F(v1) + F(v2)), scale=scale, rel=1e-6, abs_=1e-6), "double_q.mean.value",
          lambda: f"mean={mean.ravel().tolist()} q1={v1.ravel().tolist()} q2={v2.ravel().tolist()}")
    both, labs = _branch_labels(v1, v2, "min")
    return Outcome(labels=labs + ["sale-critics" if case["sale"] else "plain-critics", "n=%d" % n], nontrivial=both)


SUBCHECKS.append(SubCheck("double_q", _cases(double_q_builder), run_double_q, quick=60, thorough=1500, shards=1,
                          shrink=False, suppress_too_slow=True, simplify=_simplify, cost=0.5,
                          rule="each of the two critics is the smaller one for some row"))


# --------------------------------------------------------------------------- SALE embedding loss

def sale_builder(r):
    cfg = _pick_cfg(r, CONT_POOL, CONT_EXTRA)
    return {"cfg": cfg, "pseed": int(r.integers(2**31)), "dseed": int(r.integers(2**31)),
            "permseed": int(r.integers(2**31)),
            "pscale": _choice(r, PSCALES), "oscale": _choice(r, [1.0, 3.0, 0.1, 10.0]), "act": _choice(r, ACTS),
            "zdim": 3}


class SaleSetup(Setup):
    name = call = "sale"
    obj = "sale"
    zero_arrs = ("next_observation",)

    def __init__(self, kind, case):
        self.case = case
        cfg = case["cfg"]
        n, do, da = cfg["n"], cfg["do"], cfg["da"]
        self.n = n
        self.farrs = {"observation": _arr(case["dseed"], 0, (n, do), case["oscale"]),
                      "next_observation": _arr(case["dseed"], 1, (n, do), case["oscale"]),
                      "action": _arr(case["dseed"], 2, (n, da), 1.0)}
        self.iarrs = {}
        self.sc = {}

    def make_mods(self):
        ns = L()
        cfg, c = self.case["cfg"], self.case
        z = c["zdim"]
        return (ns.SALE(ns.mlp(cfg["do"], z, cfg["hidden"], c["act"], c["pseed"], c["pscale"]),
                        ns.mlp(z + cfg["da"], z, cfg["hidden"], c["act"], c["pseed"] + 1, c["pscale"])),)

    def outputs(self, raw):
        return {"loss": raw[0]}

    def reference(self, mods):
        emb = mods[0]
        zsa, zs = emb(self.farrs["observation"], self.farrs["action"])
        target = emb.state_embedding(self.farrs["next_observation"])
        zsa, target = F(zsa), F(target)
        scale = max(_mag(zsa, target), 1e-6)
        # z^s is AvgL1-normalised: mean |z| = 1 per row
        labels = ["dynamics-error>=1%" if _mag(zsa - target) >= 0.01 * scale else "dynamics-error-small"]
        return ({"loss": (np.mean((zsa - target) ** 2), scale ** 2)},
                {"target": target, "labels": labels, "nontrivial": self.n >= 2 and "dynamics-error>=1%" in labels})

    def consts(self, info):
        return {"observation": self.farrs["observation"], "action": self.farrs["action"],
                "target": info["target"].astype(np.float32)}


SUBCHECKS.append(SubCheck("sale", _cases(sale_builder), _runner(SaleSetup, "sale"), quick=60, thorough=1500,
                          shards=1, shrink=False, suppress_too_slow=True, simplify=_simplify, cost=0.5,
                          rule="batch size >= 2 and a prediction error >= 1% of the embedding scale"))


# --------------------------------------------------------------------------- TD7 critic update

TD7_POOL = [
    {"n": 5, "do": 2, "da": 1, "hidden": [4], "zdim": 3, "hn": 4},
    {"n": 8, "do": 3, "da": 2, "hidden": [5, 3], "zdim": 3, "hn": 4},
    {"n": 4, "do": 2, "da": 2, "hidden": [4], "zdim": 2, "hn": 3},
    {"n": 1, "do": 2, "da": 1, "hidden": [4], "zdim": 3, "hn": 4, "w": 0.3},
]
TD7_EXTRA = [
    {"n": 2, "do": 1, "da": 1, "hidden": [], "zdim": 2, "hn": 3},
    {"n": 6, "do": 3, "da": 3, "hidden": [4], "zdim": 4, "hn": 5},
    {"n": 16, "do": 2, "da": 1, "hidden": [4], "zdim": 3, "hn": 4},
]
# gamma and min_priority are static arguments of the library's own jit: small pools
TD7_GAMMAS = [0.99] * 3 + [0.5] * 3 + [1.0] * 3 + [0.0]
TD7_DELTAS = [1.0, 1.0, 0.25]


def td7_builder(r):
    cfg = _pick_cfg(r, TD7_POOL, TD7_EXTRA)
    c = _common(r, cfg)
    c["act"] = _choice(r, ["elu", "relu"])
    c["gamma"] = _choice(r, TD7_GAMMAS if gen.tier() == "quick" else TD7_GAMMAS + [0.9, 0.75])
    c["min_priority"] = _choice(r, TD7_DELTAS if gen.tier() == "quick" else TD7_DELTAS + [10.0])
    c["dfactor"] = _choice(r, FACTORS)       # median |TD error| = min_priority / dfactor after rescaling
    u = r.random()
    c["cmode"] = "quartiles" if u < 0.8 else ("wide" if u < 0.87 else ("zero" if u < 0.94 else "one-sided"))
    return c


class TD7Setup:
    """TD7: the library function performs the update itself, so the trained module's gradient is read
    off an SGD(1.0) step and clause 3 becomes 'encoders and targets are byte-identical afterwards'."""

    def __init__(self, case):
        self.case = case
        cfg = case["cfg"]
        n, do, da = cfg["n"], cfg["do"], cfg["da"]
        self.n = n
        self.arrs = {
            "observation": _arr(case["dseed"], 0, (n, do), case["oscale"]),
            "next_observation": _arr(case["dseed"], 1, (n, do), case["oscale"]),
            "action": _arr(case["dseed"], 2, (n, da), 1.0),
            "next_action": _arr(case["dseed"], 3, (n, da), 1.0),
        }
        self.term = np.asarray(case["term"], dtype=np.int32)
        self.gamma = float(case["gamma"])
        self.delta = float(case["min_priority"])
        live = self.term == 0
        # data-dependent construction (pure function of the case)
        self.shifts, self.out_scale = (0.0, 0.0), 1.0
        fw = self.forward(self.make_mods())
        self.shifts = (ContSetup._shift(fw["p2"] - fw["p1"], np.ones(n, bool)),
                       ContSetup._shift(fw["t2"] - fw["t1"], live))
        fw["p2"] = fw["p2"] - self.shifts[0]
        fw["t2"] = fw["t2"] - self.shifts[1]
        boot = np.minimum(fw["t1"], fw["t2"])
        bl = boot[live] if live.any() else boot
        mode = case["cmode"]
        if mode == "quartiles" and bl.size == 2:
            lo, hi = -1e8, float(np.mean(bl))  # one value clipped, one strictly inside
        elif mode == "quartiles":
            lo, hi = np.quantile(bl, 0.3), np.quantile(bl, 0.7)
        elif mode == "wide":
            lo, hi = -1e8, 1e8
        elif mode == "zero":
            lo, hi = 0.0, 0.0
        else:
            lo, hi = (np.quantile(bl, 0.4), 1e8) if case["pseed"] % 2 else (-1e8, np.quantile(bl, 0.6))
        clipped = np.clip(boot, lo, hi)
        reward = F(_rew(case, _mag(clipped[live] if live.any() else clipped)))
        y = reward + (1.0 - self.term) * float(np.float32(self.gamma)) * clipped
        ee = np.concatenate((np.abs(fw["p1"] - y), np.abs(fw["p2"] - y)))
        med = float(np.median(ee))
        s = self.delta / (case["dfactor"] * med) if med > 0 else 1.0
        self.out_scale = float(np.float32(s))
        self.reward = (reward * self.out_scale).astype(np.float32)
        self.q_min = float(np.float32(max(lo * self.out_scale, -3e38))) if abs(lo) < 1e8 else float(lo)
        self.q_max = float(np.float32(min(hi * self.out_scale, 3e38))) if abs(hi) < 1e8 else float(hi)

    def make_mods(self):
        ns = L()
        cfg, c = self.case["cfg"], self.case
        do, da, z, hn = cfg["do"], cfg["da"], cfg["zdim"], cfg["hn"]

        def emb(seed):
            return ns.SALE(ns.mlp(do, z, cfg["hidden"], c["act"], seed, 1.0),
                           ns.mlp(z + da, z, cfg["hidden"], c["act"], seed + 1, 1.0))

        def crit(seed, twin=None):
            m = ns.CriticSALE(ns.MLP(hn + 2 * z, 1, list(cfg["hidden"]), c["act"], ns.nnx.Rngs(0)), do, da, hn,
                              ns.nnx.Rngs(0))
            return ns.reinit(m, seed, c["pscale"], twin)

        def dq(seed, shift):
            d = ns.DoubleQ(crit(seed), crit(seed + 1, seed))
            b = d.q2.q_net.output_layer.bias
            b.value = b.value - np.float32(shift)
            for net in (d.q1, d.q2):
                ol = net.q_net.output_layer
                ol.kernel.value = ol.kernel.value * np.float32(self.out_scale)
                ol.bias.value = ol.bias.value * np.float32(self.out_scale)
            return d

        p = c["pseed"]
        return (emb(p), emb(p + 10), dq(p + 20, self.shifts[0]), dq(p + 30, self.shifts[1]))

    def forward(self, mods, arrs=None):
        ns = L()
        jnp = ns.jnp
        a = self.arrs if arrs is None else arrs
        fe, fet, q, qt = mods
        zsa, zs = fe(a["observation"], a["action"])
        nzsa, nzs = fet(a["next_observation"], a["next_action"])
        oa = jnp.concatenate((a["observation"], a["action"]), axis=-1)
        noa = jnp.concatenate((a["next_observation"], a["next_action"]), axis=-1)
        return {"zsa": np.asarray(zsa), "zs": np.asarray(zs),
                "p1": F(q.q1(oa, zsa=zsa, zs=zs))[:, 0], "p2": F(q.q2(oa, zsa=zsa, zs=zs))[:, 0],
                "t1": F(qt.q1(noa, zsa=nzsa, zs=nzs))[:, 0], "t2": F(qt.q2(noa, zsa=nzsa, zs=nzs))[:, 0]}

    def call(self, mods, arrs, reward, term):
        ns = L()
        fe, fet, q, qt = mods
        opt = ns.nnx.Optimizer(q, ns.sgd1, wrt=ns.nnx.Param)
        raw = ns.td7_update_critic(fe, fet, q, qt, opt, self.gamma, arrs["observation"], arrs["action"],
                                   arrs["next_observation"], arrs["next_action"], reward, term, self.delta,
                                   self.q_min, self.q_max)
        return {"loss": np.asarray(raw[0]), "max_abs_td_error": np.asarray(raw[1]), "q_target": np.asarray(raw[2])}


def run_td7(case):
    from vlib.instruments import diff_states, param_arrays, state_bytes

    ns = L()
    S = TD7Setup(case)
    n = S.n
    sub = "td7"
    labels = ["n=%d" % n, "clip=" + case["cmode"]]
    mods = S.make_mods()
    fw = S.forward(mods)
    live = S.term == 0
    t1, t2, p1, p2 = fw["t1"], fw["t2"], fw["p1"], fw["p2"]
    raw_boot = np.minimum(t1, t2)
    lo, hi = float(np.float32(S.q_min)), float(np.float32(S.q_max))
    boot = np.clip(raw_boot, lo, hi)
    r = F(S.reward)
    g = float(np.float32(S.gamma))
    bterm = (1.0 - S.term) * g * boot
    y = r + bterm
    d = S.delta
    e1, e2 = np.abs(p1 - y), np.abs(p2 - y)
    ee = np.concatenate((e1, e2))
    scale = max(_mag(r, boot, p1, p2), 1e-6)
    ref = {"loss": (np.mean(_huber(e1, d)) + np.mean(_huber(e2, d)), max(scale ** 2, scale * d)),
           "max_abs_td_error": (np.maximum(e1, e2), scale), "q_target": (y, scale)}
    min_both, labs = _branch_labels(t1[live], t2[live], "target-min")
    labels += labs + _branch_labels(e1, e2, "max-td")[1]
    hb = bool(np.any(ee < d) and np.any(ee > d))
    labels.append("huber-both-branches" if hb else "huber-one-branch")
    rb = raw_boot[live]
    cb = bool(np.any((rb < lo) | (rb > hi)) and np.any((rb > lo) & (rb < hi)))
    labels.append("clip-both-branches" if cb else "clip-one-branch")
    if np.any(rb < lo):
        labels.append("clipped-low")
    if np.any(rb > hi):
        labels.append("clipped-high")
    nt, labs = _bootstrap_nt(S.term, bterm, y)
    labels += labs
    nontrivial = nt and min_both and hb and cb
    # a bootstrap value within rounding of a clip bound makes the branch undecidable: value is continuous, fine

    before = param_arrays(mods[2])
    frozen = [state_bytes(m) for m in (mods[0], mods[1], mods[3])]
    try:
        out = S.call(mods, S.arrs, S.reward, S.term)
    except Exception as e:  # noqa: BLE001
        if n == 1 and ns.from_lib(e.__traceback__) is not None:
            return Outcome(labels=labels + ["n1-raises", "n1-raises:" + type(e).__name__], nontrivial=False)
        raise
    if n == 1:
        labels.append("n1-value")
    # clause 1
    for name, (rv, sc_) in ref.items():
        ov = out[name]
        if n == 1 and ov.size == 1:
            ov = ov.reshape(np.shape(rv))
        check(ov.shape == np.shape(rv), f"{sub}.value.{name}.shape", lambda: f"{ov.shape} expected {np.shape(rv)}")
        check(close(ov, rv, scale=sc_, rel=2e-4, abs_=1e-5), f"{sub}.value.{name}",
              lambda: f"got {ov.tolist()} expected {np.asarray(rv).tolist()} (tolerance scale {sc_:.4g}) "
                      f"clip=[{lo}, {hi}] gamma={g} delta={d}")
    # clause 3: nothing but the critic moves
    for lab, m, b in zip(("fixed_embedding", "fixed_embedding_target", "critic_target"),
                         (mods[0], mods[1], mods[3]), frozen):
        ch = diff_states(b, state_bytes(m))
        check(not ch, f"{sub}.untouched.{lab}", lambda: f"changed: {ch[:4]}")
    # clause 2: SGD(1.0) step == - gradient of the constant-target objective
    after = param_arrays(mods[2])
    consts = {"observation": S.arrs["observation"], "action": S.arrs["action"], "zsa": fw["zsa"], "zs": fw["zs"],
              "y": y.astype(np.float32), "delta": d}
    fresh = S.make_mods()
    g_ref = ns.leaves(ns.jit_obj("td7")(fresh[2], consts, ()))
    g_ref = {k.replace(".value", ""): v for k, v in g_ref.items()}
    g_lib = {k.replace(".value", ""): before[k] - after[k] for k in before}
    check(sorted(g_ref) == sorted(g_lib), f"{sub}.harness.grad_structure", lambda: f"{sorted(g_ref)} vs {sorted(g_lib)}")
    gmax = max([_mag(v) for v in g_ref.values()] + [1e-30])
    pmax = max(_mag(v) for v in before.values())
    slack = max(_huber_slack(d, ee), 1.0) + 4e-3 * pmax / gmax
    hu = _huber_ulp_allowance(g_ref, d)  # optax.huber_loss has the same form
    bad = [(k, maxdiff(g_lib[k], g_ref[k])) for k in sorted(g_ref)
           if not close(g_lib[k], g_ref[k], scale=gmax * slack + hu[k] / 1e-4, rel=2e-4, abs_=1e-4)]
    check(not bad, f"{sub}.update.critic_step",
          lambda: f"SGD(1.0) step differs from the gradient of the constant-target Huber objective: {bad[:3]} "
                  f"(max |g_ref| {gmax:.4g})")
    # clause 4
    rows = S.term == 1
    if rows.any():
        a2 = dict(S.arrs)
        a2["next_observation"] = _junk_rows(S.arrs["next_observation"], rows, case["jseed"], 0)
        a2["next_action"] = _junk_rows(S.arrs["next_action"], rows, case["jseed"], 1)
        m2 = S.make_mods()
        out2 = S.call(m2, a2, S.reward, S.term)
        for name in out:
            check(_same(out[name], out2[name]), f"{sub}.ignored_successor.{name}",
                  lambda: f"{name} changed from {out[name].tolist()} to {out2[name].tolist()} when only the successor "
                          f"data of terminated rows {np.nonzero(rows)[0].tolist()} changed")
        check(not diff_states(state_bytes(mods[2]), state_bytes(m2[2])), f"{sub}.ignored_successor.critic_step",
              "updated critic differs")
        labels.append("junk-checked")
    # clause 5
    if n >= 2:
        perm = np.random.default_rng((int(case["permseed"]), 5)).permutation(n)
        if np.all(perm == np.arange(n)):
            perm = np.roll(perm, 1)
        out3 = S.call(S.make_mods(), {k: v[perm] for k, v in S.arrs.items()}, S.reward[perm], S.term[perm])
        check(close(out3["loss"], out["loss"], scale=ref["loss"][1], rel=1e-5, abs_=1e-9), f"{sub}.permutation.loss",
              lambda: f"{out['loss']} -> {out3['loss']} under {perm.tolist()}")
        for name in ("max_abs_td_error", "q_target"):
            check(close(out3[name], out[name][perm], scale=scale, rel=1e-5, abs_=2e-6), f"{sub}.permutation.{name}",
                  lambda: f"{out[name].tolist()} -> {out3[name].tolist()} under {perm.tolist()}")
        labels.append("perm-checked")
    return Outcome(labels=labels, nontrivial=bool(nontrivial))


SUBCHECKS.append(SubCheck(
    "td7", _cases(td7_builder), run_td7, quick=60, thorough=1500, shards=3, shrink=False, suppress_too_slow=True, simplify=_simplify, cost=3.0,
    min_nontrivial_frac=0.2,  # conjunction of five constructed features
    rule=_BASE_RULE + _MIN_RULE + ", absolute TD errors on both sides of min_priority, some non-terminated "
         "bootstrap value clipped and some strictly inside the clip range"))


# --------------------------------------------------------------------------- MR.Q critic loss

# every distinct (shape, activation, flag) combination is a separate XLA compilation of a scanned /
# LayerNorm graph (seconds): the quick pools tie activation and flags to the shape configuration
MRQ_POOL = [
    {"n": 5, "h": 3, "do": 2, "da": 1, "zs": 3, "za": 2, "zsa": 4, "hidden": [4], "act": "elu", "act_last": False},
    {"n": 8, "h": 2, "do": 3, "da": 2, "zs": 3, "za": 2, "zsa": 4, "hidden": [4], "act": "relu", "act_last": True},
    {"n": 4, "h": 1, "do": 2, "da": 2, "zs": 2, "za": 2, "zsa": 3, "hidden": [5, 3], "act": "elu", "act_last": False},
    {"n": 1, "h": 3, "do": 2, "da": 1, "zs": 3, "za": 2, "zsa": 4, "hidden": [4], "act": "elu", "act_last": False,
     "w": 0.3},
]
MRQ_EXTRA = [
    {"n": 2, "h": 5, "do": 1, "da": 1, "zs": 2, "za": 1, "zsa": 2, "hidden": [4]},
    {"n": 16, "h": 3, "do": 2, "da": 1, "zs": 3, "za": 2, "zsa": 4, "hidden": [4]},
    {"n": 6, "h": 4, "do": 4, "da": 3, "zs": 4, "za": 3, "zsa": 5, "hidden": [5, 3]},
]


def _term_matrix(r, n, h):
    """Per row: index of the first terminated step (or none); flags after it are arbitrary (post-terminal)."""
    u = r.random()
    first = []
    for _ in range(n):
        if u < 0.07:
            first.append(None)
        elif u < 0.14:
            first.append(int(r.integers(h)))
        else:
            first.append(None if r.random() < 0.6 else int(r.integers(h)))
    if 0.14 <= u and n >= 2:
        i = int(r.integers(n))
        j = (i + 1 + int(r.integers(n - 1))) % n
        first[i] = int(r.integers(max(1, h - 1)))  # terminates before the last step when h >= 2
        first[j] = None
    t = np.zeros((n, h), dtype=int)
    for i, f in enumerate(first):
        if f is not None:
            t[i, f] = 1
            t[i, f + 1:] = r.integers(0, 2, h - f - 1)
    return t.tolist()


def mrq_builder(r):
    cfg = _pick_cfg(r, MRQ_POOL, MRQ_EXTRA)
    c = _common(r, cfg)
    n, h = cfg["n"], cfg["h"]
    c["pscale"] = _choice(r, [1.0, 1.0, 3.0, 0.3])
    c["act"] = cfg.pop("act", None) or _choice(r, ["elu", "relu"])
    c["act_last"] = cfg.pop("act_last") if "act_last" in cfg else bool(r.random() < 0.3)
    c["reward"] = _unit_rewards(r, (n, h))
    c["term"] = _term_matrix(r, n, h)
    c["reward_scale"] = _choice(r, [1.0, 1.0, 2.5, 0.4, 37.0])
    c["target_reward_scale"] = c["reward_scale"] if r.random() < 0.4 else _choice(r, [1.0, 1.7, 0.6, 25.0, 0.0])
    c["dfactor"] = _choice(r, FACTORS)
    return c


def _first_term(term):
    """(n,) index of the first terminated step, h if none."""
    t = np.asarray(term)
    h = t.shape[1]
    return np.where(t.any(1), t.argmax(1), h)


def _encoder(ns, cfg, case, seed, nb=5):
    enc = ns.ModelBasedEncoder(cfg["do"], cfg["da"], nb, cfg["zs"], cfg["za"], cfg["zsa"], list(cfg["hidden"]),
                               case["act"], bool(case.get("act_last", False)), ns.nnx.Rngs(0))
    return ns.reinit(enc, seed, case["pscale"])


def _encode_zs_doc(ns, enc, obs, case):
    """The latent state as ModelBasedEncoder documents it, composed from the encoder's documented parts (not
    through ``encode_zs``): the state encoder ``zs``, the layer normalisation ``zs_layer_norm`` of the latent
    state and, for an encoder built with ``encoder_activation_in_last_layer=True``, the activation function
    after it (float32 forward passes of the sub-modules, like every other reference input)."""
    z = enc.zs_layer_norm(enc.zs(obs))
    return getattr(ns.nnx, case["act"])(z) if case.get("act_last", False) else z


class MRQSetup(Setup):
    name = call = "mrq"
    obj = "mrq"
    conditioning = True
    zero_mods = ((1, "q_target"), (2, "encoder"), (3, "encoder_target"))
    zero_arrs = ("next_observation", "next_action")
    per_sample = ("zs", "max_abs_td_error")

    def __init__(self, kind, case):
        self.case = case
        cfg = case["cfg"]
        n, h, do, da = cfg["n"], cfg["h"], cfg["do"], cfg["da"]
        self.n = n
        self.farrs = {
            "observation": _arr(case["dseed"], 0, (n, do), case["oscale"]),
            "next_observation": _arr(case["dseed"], 1, (n, do), case["oscale"]),
            "action": _arr(case["dseed"], 2, (n, da), 1.0),
            "next_action": _arr(case["dseed"], 3, (n, da), 1.0),
        }
        self.iarrs = {"terminated": np.asarray(case["term"], dtype=np.int32).reshape(n, h),
                      "truncated": np.zeros((n, h), dtype=np.int32)}
        self.rs = float(np.float32(case["reward_scale"]))
        self.trs = float(np.float32(case["target_reward_scale"]))
        self.sc = {"gamma": float(case["gamma"]), "reward_scale": self.rs, "target_reward_scale": self.trs}
        self.first = _first_term(self.iarrs["terminated"])
        self.live = self.first == h
        self.shifts, self.out_scale = (0.0, 0.0), 1.0
        fw = self._forward(self.make_mods())
        self.shifts = (ContSetup._shift(fw["p2"] - fw["p1"], np.ones(n, bool)),
                       ContSetup._shift(fw["t2"] - fw["t1"], self.live))
        fw["p2"] -= self.shifts[0]
        fw["t2"] -= self.shifts[1]
        boot = np.minimum(fw["t1"], fw["t2"]) * self.trs
        unit = np.asarray(case["reward"], dtype=np.float32).reshape(n, h)
        self.farrs["reward"] = _rew(case, _mag(boot[self.live]) if self.live.any() and self.trs else _mag(fw["t1"]), unit)
        y = self._target(fw)
        ee = np.concatenate((np.abs(fw["p1"] - y), np.abs(fw["p2"] - y)))
        med = float(np.median(ee))
        # scale the whole value problem so that the median |TD error| is 1 / dfactor (the Huber delta is 1)
        self.out_scale = float(np.float32(1.0 / (case["dfactor"] * med))) if med > 0 else 1.0
        self.farrs["reward"] = (self.farrs["reward"] * np.float32(self.out_scale)).astype(np.float32)

    def make_mods(self):
        ns = L()
        cfg, c = self.case["cfg"], self.case
        p = c["pseed"]

        def dq(seed, shift):
            d = ns.DoubleQ(ns.lnmlp(cfg["zsa"], 1, cfg["hidden"], c["act"], seed, c["pscale"]),
                           ns.lnmlp(cfg["zsa"], 1, cfg["hidden"], c["act"], seed + 1, c["pscale"], twin_of=seed))
            b = d.q2.output_layer.bias
            b.value = b.value - np.float32(shift)
            for net in (d.q1, d.q2):
                ol = net.output_layer
                ol.kernel.value = ol.kernel.value * np.float32(self.out_scale)
                ol.bias.value = ol.bias.value * np.float32(self.out_scale)
            return d
        return (dq(p, self.shifts[0]), dq(p + 2, self.shifts[1]), _encoder(ns, cfg, c, p + 4), _encoder(ns, cfg, c, p + 5))

    def _forward(self, mods):
        a = self.farrs
        q, qt, enc, enct = mods
        ns = L()
        nzs = _encode_zs_doc(ns, enct, a["next_observation"], self.case)
        nzsa = enct.encode_zsa(nzs, a["next_action"])
        zs = _encode_zs_doc(ns, enc, a["observation"], self.case)
        zsa = enc.encode_zsa(zs, a["action"])
        return {"zs": F(zs), "zsa": np.asarray(zsa), "t1": F(qt.q1(nzsa))[:, 0], "t2": F(qt.q2(nzsa))[:, 0],
                "p1": F(q.q1(zsa))[:, 0], "p2": F(q.q2(zsa))[:, 0]}

    def _nstep(self):
        """Truncated n-step return and the discount of the bootstrap (docstring of discounted_n_step_return)."""
        r = F(self.farrs["reward"])
        t = F(self.iarrs["terminated"])
        g = float(np.float32(self.case["gamma"]))
        n, h = r.shape
        ret = np.zeros(n)
        for i in range(n):
            for k in range(h):
                ret[i] += g ** k * r[i, k]
                if t[i, k]:
                    break
        disc = np.where(self.live, g ** h, 0.0)
        return ret, disc

    def _target(self, fw):
        ret, disc = self._nstep()
        return (ret + disc * np.minimum(fw["t1"], fw["t2"]) * self.trs) / self.rs

    def outputs(self, raw):
        return {"loss": raw[0], "zs": raw[1][0], "q_mean": raw[1][1], "max_abs_td_error": raw[1][2]}

    def reference(self, mods):
        fw = self._forward(mods)
        ret, disc = self._nstep()
        y = self._target(fw)
        p1, p2 = fw["p1"], fw["p2"]
        e1, e2 = np.abs(p1 - y), np.abs(p2 - y)
        ee = np.concatenate((e1, e2))
        bterm = y - ret / self.rs
        scale = max(_mag(ret / self.rs, bterm, p1, p2), 1e-6)
        ref = {"loss": (np.mean(_huber(e1, 1.0)) + np.mean(_huber(e2, 1.0)), max(scale ** 2, scale)),
               "zs": (fw["zs"], max(_mag(fw["zs"]), 1e-6)),
               "q_mean": (np.mean(np.minimum(p1, p2)), scale),
               "max_abs_td_error": (np.maximum(e1, e2), scale)}
        labels = []
        both, labs = _branch_labels(fw["t1"][self.live], fw["t2"][self.live], "target-min")
        labels += labs + _branch_labels(e1, e2, "max-td")[1]
        hb = bool(np.any(ee < 1.0) and np.any(ee > 1.0))
        labels.append("huber-both-branches" if hb else "huber-one-branch")
        h = self.case["cfg"]["h"]
        early = bool(np.any(self.first < h - 1))
        labels.append("terminated-before-last-step" if early else "no-early-termination")
        labels.append("h=%d" % h)
        labels.append("activation-after-last-encoder-layer" if self.case.get("act_last") else "no-activation-after-last-encoder-layer")
        labels.append("reward-scales-differ" if self.rs != self.trs else "reward-scales-equal")
        nt, labs = _bootstrap_nt(1 - self.live.astype(int), bterm, y)
        info = {"y": y, "zsa": fw["zsa"], "labels": labels + labs,
                "nontrivial": nt and both and hb and (early or h == 1),
                "grad_slack": _huber_slack(1.0, ee), "ignored_rows": np.nonzero(~self.live)[0].tolist()}
        return ref, info

    def consts(self, info):
        return {"zsa": info["zsa"], "y": info["y"].astype(np.float32)}

    def junk(self):
        rows = ~self.live
        if not rows.any():
            return None
        c = self.case
        f2 = dict(self.farrs)
        f2["next_observation"] = _junk_rows(self.farrs["next_observation"], rows, c["jseed"], 0)
        f2["next_action"] = _junk_rows(self.farrs["next_action"], rows, c["jseed"], 1)
        h = c["cfg"]["h"]
        post = np.arange(h)[None, :] > self.first[:, None]  # steps after the first termination
        rj = _junk_rows(self.farrs["reward"], np.ones(self.n, bool), c["jseed"], 2)
        f2["reward"] = np.where(post, rj, self.farrs["reward"]).astype(np.float32)
        i2 = dict(self.iarrs)
        i2["terminated"] = np.where(post, 1 - self.iarrs["terminated"], self.iarrs["terminated"]).astype(np.int32)
        return f2, i2


SUBCHECKS.append(SubCheck(
    "mrq", _cases(mrq_builder), _runner(MRQSetup, "mrq"), quick=60, thorough=1500, shards=3, shrink=False, suppress_too_slow=True,
    simplify=_simplify, cost=3.0, min_nontrivial_frac=0.2,  # conjunction of five constructed features
    rule="rows terminated inside the horizon mixed with rows that are not, bootstrap >= 1% of the target scale"
         + _MIN_RULE + ", absolute TD errors on both sides of the Huber delta, a termination before the last step "
         "of the horizon (so that post-terminal rewards exist)"))


# --------------------------------------------------------------------------- MR.Q model-based encoder loss

ENC_POOL = [
    {"n": 4, "h": 3, "do": 2, "da": 1, "nb": 5, "zs": 3, "za": 2, "zsa": 4, "hidden": [4], "act": "elu",
     "act_last": False, "normalize": True},
    {"n": 3, "h": 2, "do": 3, "da": 2, "nb": 5, "zs": 3, "za": 2, "zsa": 4, "hidden": [4], "act": "elu",
     "act_last": True, "normalize": False},
    {"n": 6, "h": 2, "do": 2, "da": 2, "nb": 9, "zs": 2, "za": 2, "zsa": 3, "hidden": [5, 3], "act": "relu",
     "act_last": False, "normalize": True},
    {"n": 1, "h": 3, "do": 2, "da": 1, "nb": 5, "zs": 3, "za": 2, "zsa": 4, "hidden": [4], "act": "elu",
     "act_last": False, "normalize": True, "w": 0.3},
    # encoder_activation_in_last_layer together with normalize_targets: the target encode_zs(o') then carries the
    # activation after the layer norm
    {"n": 5, "h": 2, "do": 2, "da": 1, "nb": 5, "zs": 3, "za": 2, "zsa": 4, "hidden": [4], "act": "elu",
     "act_last": True, "normalize": True},
]
ENC_EXTRA = [
    {"n": 2, "h": 5, "do": 1, "da": 1, "nb": 3, "zs": 2, "za": 1, "zsa": 2, "hidden": [4]},
    {"n": 8, "h": 1, "do": 2, "da": 1, "nb": 5, "zs": 3, "za": 2, "zsa": 4, "hidden": [4]},
    {"n": 5, "h": 4, "do": 4, "da": 3, "nb": 17, "zs": 4, "za": 3, "zsa": 5, "hidden": [5, 3]},
]
D2 = "mask_not_per_sample@model_based_encoder_loss"
RLOGIT_FACTORS = [30.0, 100.0, 1000.0]
# log of the smallest positive float32 (subnormal; XLA CPU flushes those, i.e. underflow starts at ~ -87.3 already)
LOG_F32_TINY = float(np.log(2.0 ** -149))


def enc_builder(r):
    cfg = _pick_cfg(r, ENC_POOL, ENC_EXTRA)
    n, h = cfg["n"], cfg["h"]
    c = {"cfg": cfg, "pseed": int(r.integers(2**31)), "dseed": int(r.integers(2**31)),
         "jseed": int(r.integers(2**31)), "permseed": int(r.integers(2**31)),
         "pscale": _choice(r, [1.0, 1.0, 3.0, 0.3]), "oscale": _choice(r, [1.0, 3.0, 0.1, 10.0]),
         "act": cfg.pop("act", None) or _choice(r, ["elu", "relu"]),
         "act_last": cfg.pop("act_last") if "act_last" in cfg else bool(r.random() < 0.3),
         "normalize_targets": cfg.pop("normalize") if "normalize" in cfg else bool(r.random() < 0.6),
         "reward": _unit_rewards(r, (n, h)), "rscale": _choice(r, [1.0, 1.0, 5.0, 19.0, 0.1]),
         "term": _term_matrix(r, n, h),
         "dynamics_weight": _choice(r, [1.0, 1.0, 0.0, 2.5]), "reward_weight": _choice(r, [0.1, 0.1, 1.0, 0.0]),
         "done_weight": _choice(r, [0.1, 0.1, 1.0, 0.0]),
         "environment_terminates": bool(r.random() < 0.8)}
    if c["dynamics_weight"] == 0.0 and c["reward_weight"] == 0.0:
        c["dynamics_weight"] = 1.0
    # 'all network parameter values': a confident (and, for some rows, wrong) reward head.  The columns of the
    # model head that produce the reward logits are multiplied by this factor, so that the softmax probability of
    # a target bin is far below the smallest float32 (the documented cross-entropy is then ~ the logit gap,
    # 1e2 .. 1e4, and finite)
    u, f = r.random(), _choice(r, RLOGIT_FACTORS)
    c["rlogit_factor"] = f if u < 0.23 else 1.0
    return c


def _scale_reward_head(enc, factor):
    """Multiply the reward-logit columns of the encoder's linear model head (ModelBasedEncoder.model_head: column 0
    is 'done', the next zs_dim columns the next latent state, the remaining n_bins columns the reward logits)."""
    if factor == 1.0:
        return enc
    k = 1 + int(enc.zs_dim)
    f = np.float32(factor)
    ker, bias = np.array(enc.model.kernel.value), np.array(enc.model.bias.value)
    ker[:, k:] *= f
    bias[k:] *= f
    enc.model.kernel.value = L().jnp.asarray(ker)
    enc.model.bias.value = L().jnp.asarray(bias)
    return enc


class EncoderSetup(Setup):
    name = call = "encoder"
    obj = "enc"
    conditioning = True
    finite = True      # every output and the trained encoder's gradient are finite whenever the reference is
    zero_mods = ((1, "encoder_target"),)
    zero_arrs = ("next_observation",)
    rel_outputs = ("dynamics_loss", "reward_loss", "done_loss", "reward_mse")

    def __init__(self, kind, case):
        ns = L()
        self.case = case
        cfg = case["cfg"]
        n, h, do, da = cfg["n"], cfg["h"], cfg["do"], cfg["da"]
        self.n, self.h = n, h
        self.bins = ns.make_two_hot_bins(-3.0, 3.0, cfg["nb"])
        b = F(self.bins)
        unit = np.asarray(case["reward"], dtype=np.float32).reshape(n, h)
        rew = np.clip(unit * np.float32(case["rscale"]), np.float32(b[0]), np.float32(b[-1])).astype(np.float32)
        self.farrs = {
            "observation": _arr(case["dseed"], 0, (n, h, do), case["oscale"]),
            "next_observation": _arr(case["dseed"], 1, (n, h, do), case["oscale"]),
            "action": _arr(case["dseed"], 2, (n, h, da), 1.0),
            "reward": rew + np.float32(0.0),
        }
        self.iarrs = {"terminated": np.asarray(case["term"], dtype=np.int32).reshape(n, h),
                      "truncated": np.zeros((n, h), dtype=np.int32)}
        self.w = {k: float(np.float32(case[k])) for k in ("dynamics_weight", "reward_weight", "done_weight")}
        self.env_term = bool(case["environment_terminates"])
        self.sc = {"bins": self.bins, **self.w, "environment_terminates": self.env_term}
        self.static = (h, bool(case["normalize_targets"]))
        self.obj_static = (h, False)
        self.first = _first_term(self.iarrs["terminated"])

    def make_mods(self):
        ns = L()
        cfg, c = self.case["cfg"], self.case
        enc = _scale_reward_head(_encoder(ns, cfg, c, c["pseed"], cfg["nb"]), float(c.get("rlogit_factor", 1.0)))
        return (enc, _encoder(ns, cfg, c, c["pseed"] + 1, cfg["nb"]))

    def outputs(self, raw):
        return {"loss": raw[0], "dynamics_loss": raw[1][0], "reward_loss": raw[1][1], "done_loss": raw[1][2],
                "reward_mse": raw[1][3]}

    def _twohot(self, r):
        """Reference two-hot encoding (n, nb) of rewards inside the bin range."""
        b = F(self.bins)
        out = np.zeros((len(r), len(b)))
        for i, x in enumerate(r):
            k = int(np.searchsorted(b, x, side="right") - 1)
            k = min(max(k, 0), len(b) - 2)
            w = (x - b[k]) / (b[k + 1] - b[k])
            out[i, k], out[i, k + 1] = 1.0 - w, w
        return out

    def _components(self, mods, farrs, iarrs):
        """Per-step pieces of the documented loss from the encoder's own forward passes."""
        enc, enct = mods
        n, h = self.n, self.h
        term = F(iarrs["terminated"])
        no = farrs["next_observation"].reshape(n * h, -1)
        # documented target: the (gradient-stopped) latent state encode_zs(o') of the target encoder -- layer norm
        # and, if the encoder was built with it, the last-layer activation -- when normalize_targets, zs(o') otherwise
        tz = _encode_zs_doc(L(), enct, no, self.case) if self.case["normalize_targets"] else enct.zs(no)
        target_zs = F(tz).reshape(n, h, -1)
        b = F(self.bins)
        zs = enc.encode_zs(farrs["observation"][:, 0])
        mask = np.ones(n)
        steps = []
        mags = [_mag(target_zs)]
        for t in range(h):
            d, zs, rl = enc.model_head(zs, farrs["action"][:, t])
            d64, z64, l64 = F(d), F(zs), F(rl)
            r = F(farrs["reward"][:, t])
            mx = l64.max(1, keepdims=True)
            logp = l64 - (mx + np.log(np.exp(l64 - mx).sum(1, keepdims=True)))
            th = self._twohot(r)
            ce = -(th * logp).sum(1)
            dec = (np.exp(logp) * b).sum(1)
            steps.append({"mask": mask.copy(), "dyn_e2": ((z64 - target_zs[:, t]) ** 2).mean(1), "ce": ce,
                          "done_e2": (d64 - term[:, t]) ** 2, "rmse_e2": (dec - r) ** 2, "twohot": th,
                          # smallest log-probability of a bin that carries two-hot weight, per row
                          "min_target_logp": np.where(th > 0, logp, 0.0).min(1)})
            mags += [_mag(z64), _mag(d64)]
            mask = mask * (1.0 - term[:, t])
        return steps, target_zs, mags

    def _totals(self, steps, broadcast):
        """Sum over the horizon of the masked per-sample means.  ``broadcast`` evaluates the 1-D terms
        as mean(err) * mean(mask) instead (used only to recognise recorded finding D2)."""
        dyn = sum(np.mean(s["dyn_e2"] * s["mask"]) for s in steps)
        rew = sum(np.mean(s["ce"] * s["mask"]) for s in steps)
        if broadcast:
            done = sum(np.mean(s["done_e2"]) * np.mean(s["mask"]) for s in steps)
            rmse = sum(np.mean(s["rmse_e2"]) * np.mean(s["mask"]) for s in steps)
        else:
            done = sum(np.mean(s["done_e2"] * s["mask"]) for s in steps)
            rmse = sum(np.mean(s["rmse_e2"] * s["mask"]) for s in steps)
        if not self.env_term:
            done = 0.0
        w = self.w
        total = w["dynamics_weight"] * dyn + w["reward_weight"] * rew + w["done_weight"] * done
        return {"dynamics_loss": dyn, "reward_loss": rew, "done_loss": done, "reward_mse": rmse, "loss": total}

    def _scales(self, steps, mags):
        b = F(self.bins)
        zsc = max(max(mags), 1e-6) ** 2
        cesc = max(1.0, max(_mag(s["ce"]) for s in steps))
        dsc = max(1.0, max(_mag(s["done_e2"]) for s in steps))
        rsc = max(_mag(b) ** 2, max(_mag(s["rmse_e2"]) for s in steps))
        h = self.h
        w = self.w
        sc = {"dynamics_loss": h * zsc, "reward_loss": h * cesc, "done_loss": h * dsc, "reward_mse": h * rsc}
        sc["loss"] = max(w["dynamics_weight"] * sc["dynamics_loss"] + w["reward_weight"] * sc["reward_loss"]
                         + w["done_weight"] * sc["done_loss"], 1e-6)
        return sc

    def reference(self, mods):
        steps, target_zs, mags = self._components(mods, self.farrs, self.iarrs)
        tot = self._totals(steps, False)
        alt = self._totals(steps, True)
        sc = self._scales(steps, mags)
        ref = {k: (np.float64(tot[k]), sc[k]) for k in tot}
        h = self.h
        early = self.first < h - 1          # a masked step exists in these rows
        full = self.first == h
        act_last = bool(self.case.get("act_last", False))
        labels = ["h=%d" % h, "normalize_targets" if self.case["normalize_targets"] else "raw_targets",
                  "activation-after-last-encoder-layer" if act_last else "no-activation-after-last-encoder-layer",
                  "env-terminates" if self.env_term else "env-never-terminates"]
        if act_last and self.case["normalize_targets"]:
            # the only configuration in which the normalised target is more than the layer norm of zs(o')
            enct = mods[1]
            moved = _mag(F(enct.zs_layer_norm(enct.zs(self.farrs["next_observation"].reshape(self.n * h, -1))))
                         - target_zs.reshape(self.n * h, -1))
            labels.append("target-activation-matters" if moved > 1e-3 * max(_mag(target_zs), 1e-30)
                          else "target-activation-is-identity-here")
        mixed = bool(early.any() and full.any())
        labels.append("mask-mixed" if mixed else ("mask-all-ones" if not early.any() else "mask-no-full-row"))
        done_active = self.env_term and self.w["done_weight"] > 0
        labels.append("done-term-active" if done_active else "done-term-off")
        fac = float(self.case.get("rlogit_factor", 1.0))
        labels.append("reward-head-x%g" % fac if fac != 1.0 else "reward-head-as-drawn")
        # a target bin of a step that counts (mask 1) whose softmax probability is not representable in float32
        under = any(bool(np.any((s["min_target_logp"] < LOG_F32_TINY) & (s["mask"] > 0))) for s in steps)
        labels.append("reward-target-prob-underflows-f32" if under else "reward-target-prob-representable")
        if under:
            labels.append("reward-ce-max~1e%d" % int(np.floor(np.log10(max(_mag(s["ce"]) for s in steps)))))
        info = {"steps": steps, "target_zs": target_zs, "alt": alt, "scales": sc, "labels": labels,
                "nontrivial": mixed, "ignored_rows": np.nonzero(early)[0].tolist()}
        return ref, info

    # -- defect D2 (fixed in /repo by 785d558, witness in replays/regress): if it ever comes back it is
    #    recognised precisely and reported under its own keys; anything else gets the general key
    def classify(self, name, ov, info):
        alt, sc = info["alt"], info["scales"]
        if name in ("done_loss", "reward_mse", "loss") and close(
                ov, alt[name], scale=sc[name] + info["extra_tol"][name] / 1e-5, rel=2e-4, abs_=1e-5):
            return f"encoder.value.{name}.{D2}"
        return None

    def consts(self, info):
        steps = info["steps"]
        return {"obs0": self.farrs["observation"][:, 0], "action": self.farrs["action"],
                "target_zs": info["target_zs"].astype(np.float32),
                "twohot": np.stack([s["twohot"] for s in steps], axis=1).astype(np.float32),
                "term": self.iarrs["terminated"].astype(np.float32),
                "mask": np.stack([s["mask"] for s in steps], axis=1).astype(np.float32),
                **self.w, "done_on": 1.0 if self.env_term else 0.0}

    def classify_grad(self, ns, mods, g_lib, info):
        g_alt = ns.jit_obj("enc")(mods[0], self.consts(info), (self.h, True))
        bad, _ = _compare_grads(ns, "encoder", "trained", g_lib, g_alt, info.get("grad_slack", 1.0))
        return None if bad else f"encoder.grad.trained.{D2}"

    def junk(self):
        h = self.h
        post = np.arange(h)[None, :] > self.first[:, None]
        if not post.any():
            return None
        c = self.case
        f2 = {}
        for k_, (name, mag) in enumerate((("observation", None), ("next_observation", None), ("action", None))):
            j = _junk_rows(self.farrs[name], np.ones(self.n, bool), c["jseed"], k_)
            f2[name] = np.where(post[:, :, None], j, self.farrs[name]).astype(np.float32)
        b = F(self.bins)
        rj = np.clip(_arr(c["jseed"], 7, (self.n, h), 10.0), np.float32(b[0]), np.float32(b[-1]))
        f2["reward"] = np.where(post, rj, self.farrs["reward"]).astype(np.float32)
        i2 = dict(self.iarrs)
        i2["terminated"] = np.where(post, 1 - self.iarrs["terminated"], self.iarrs["terminated"]).astype(np.int32)
        self._junk = (f2, i2)
        return f2, i2

    def classify_junk(self, name, ov2):
        """Post-terminal data changed an output: D2 if the new value is what the unmasked 1-D terms give
        on the new data, anything else is a different violation."""
        if name not in ("done_loss", "reward_mse", "loss"):
            return None
        f2, i2 = self._junk
        steps, _, mags = self._components(self.make_mods(), f2, i2)
        alt = self._totals(steps, True)
        sc = self._scales(steps, mags)
        if close(ov2, alt[name], scale=sc[name], rel=2e-4, abs_=1e-5):
            return f"encoder.ignored_successor.{name}.{D2}"
        return None


SUBCHECKS.append(SubCheck(
    "encoder", _cases(enc_builder), _runner(EncoderSetup, "encoder"), quick=60, thorough=1500, shards=3,
    shrink=False, suppress_too_slow=True, simplify=_simplify, cost=4.0,
    rule="some subtrajectory terminates before its last step (masked steps exist) and some does not terminate "
         "(labels reward-head-x*, reward-target-prob-underflows-f32: confident-and-wrong reward heads, every "
         "output and the trained gradient must stay finite and equal to the log-sum-exp reference)"))
