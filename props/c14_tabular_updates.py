"""C14 Tabular learners apply their textbook update to exactly one entry.

Single-update functions of Q-learning, SARSA, double Q-learning, Monte-Carlo
control and Dyna-Q are compared with numpy float64 references written from the
property statement; the Dyna-Q model is compared with the empirical successor
frequencies / mean rewards of generated histories with stochastic successors;
``planning`` is judged by an existential oracle (no RNG replication); short
recorded runs of the five ``train_*`` routines on a ScriptedTabularEnv are
replayed step by step by the reference from the environment log.  Q-learning,
SARSA and double Q-learning (single updates and runs) are also driven with the
tables ``make_q_table`` builds for Tuple(Discrete, ...) observation spaces (2 or
3 observation axes) and tuple observations, as in examples/toy_text/
blackjack_example.py.  See DESIGN.md §5 C14.
"""
from __future__ import annotations

import numpy as np
from hypothesis import strategies as st

from vlib import gen
from vlib.core import HarnessError, Outcome, SubCheck, bytes_equal, check, report

PROPERTY = "C14"
RULE = (
    "Single updates: tables of 2-6 states x 2-4 actions (values within +-130, integer-valued tables "
    "with ties, zero tables), transition (s, a, r, s', a', terminated), gamma, learning rate drawn by "
    "Hypothesis; about 40% of the q_learning / sarsa / double_q cases (and of their recorded runs) use a table "
    "with 2 or 3 observation axes (shape obs axes + (n_actions,), as make_q_table builds it for "
    "Tuple(Discrete, ...) observation spaces) and hand the observation over as a tuple of python ints or of "
    "numpy integers (runs: a scripted environment with such an observation space); "
    "non-trivial = learning rate and gamma large enough and the table non-zero at the "
    "successor such that the bootstrap term lr*gamma*V_next exceeds 20x the comparison tolerance (so a "
    "wrong V_next or a dropped (1-terminated) is visible); double Q-learning additionally needs the "
    "value selected by the updated table's greedy action at s' to differ (by > 20x tolerance) from the "
    "value selected by its greedy action at s, or a terminated transition. monte_carlo: episode with a "
    "state-action pair visited >= 2 times, length >= 2, gamma > 0. dynaq_model: history in which some "
    "(s, a) was observed with >= 2 different successors, the older one not being the last. "
    "dynaq_planning: >= 1 planning step, >= 2 distinct buffered pairs, bootstrap term visible. runs: "
    "at least one terminated and one non-terminated step whose bootstrap term is visible (Monte-Carlo: "
    ">= 1 finished episode containing a repeated pair or a second visit across episodes). Distinct = "
    "distinct canonical case."
)
ASSUMPTIONS = [
    "float32 tables (make_q_table dtype); references in float64 on the float32 inputs; comparison "
    "|a-b| <= 1e-5*scale + 2e-4*|b| with scale the largest intermediate magnitude (DESIGN §3)",
    "ties in an argmax: Q-learning/SARSA values do not depend on the tie-break; for double Q-learning and "
    "planning any maximal action / any successor with positive model probability is accepted",
    "Dyna-Q's real-step update is not required to honour `terminated` (the property does not state it)",
    "entries of the Dyna-Q model for never-observed (s, a) rows and rewards of never-observed triples are "
    "not constrained",
    "recorded runs observe the tables by wrapping the module-level callables epsilon_greedy_policy / "
    "_dql_update / planning of the algorithm module from the test side (restored after each case)",
    "Q-tables with several observation axes are in the domain of Q-learning, SARSA and double Q-learning: "
    "make_q_table builds them for Tuple(Discrete, ...) observation spaces, greedy_policy / epsilon_greedy_policy "
    "index q_table[observation] with the tuple, and examples/toy_text/blackjack_example.py trains Q-learning and "
    "SARSA on Blackjack-v1; the visited entry is q_table[o_1, ..., o_k, action]. Dyna-Q and Monte-Carlo call "
    "int(observation) and so reject tuple observations loudly (not generated)",
    "a failure of a tuple-observation case gets the suffix `.tuple_observation` only when the whole returned "
    "table equals (within tolerance) the update with the observation tuple read as an advanced index on axis 0 "
    "(numpy model with XLA's out-of-bounds rules: reads clamped, writes dropped, repeated rows accumulate); "
    "anything else is reported under the same keys as for tables with one observation axis",
]

QUICK = gen.tier() == "quick"
SHAPES_QUICK = [[2, 2], [3, 2], [4, 3], [5, 4], [6, 3]]
# Tables with several observation axes: observation axes + [n_actions], the shape make_q_table builds for
# Tuple(Discrete, ...) observation spaces (Blackjack-v1: (32, 11, 2, 2)).  Axis sizes mostly differ from each
# other and from n_actions so that an index applied to the wrong axis shows.
SHAPES_ND_QUICK = [[3, 2, 4], [2, 5, 3], [4, 3, 2], [2, 2, 3], [3, 3, 2], [3, 4, 2, 2], [2, 3, 2, 4], [2, 2, 2, 3]]
ND_SHARE = [False, True, False, True, False]  # 40% of the cases


def _jnp():
    import jax.numpy as jnp

    return jnp


# ---------------------------------------------------------------- generators

def shapes():
    pool = st.sampled_from(SHAPES_QUICK)
    if QUICK:
        return pool
    return st.one_of(pool, st.tuples(st.integers(2, 6), st.integers(2, 4)).map(list))


def nd_shapes():
    pool = st.sampled_from(SHAPES_ND_QUICK)
    if QUICK:
        return pool
    free = st.tuples(st.lists(st.integers(1, 5), min_size=2, max_size=3), st.integers(2, 4)).map(lambda t: t[0] + [t[1]])
    return st.one_of(pool, free)


def table_modes():
    return st.sampled_from(["normal", "int", "normal", "normal", "small", "normal", "int", "normal", "zero"])


def gammas():
    """Mostly discount factors that keep the bootstrap term visible; 0 stays in the domain."""
    return st.one_of(st.sampled_from([0.99, 0.9, 0.5, 1.0, 0.99, 0.9, 0.0]), gen.f32(0.05, 1.0), gen.f32(0.0, 1.0))


def make_table(ns, na, seed, mode):
    """float32 table, pure function of the case."""
    return make_table_nd((ns, na), seed, mode)


def table_shape(case):
    """(ns, na), or observation axes + (na,) for the cases with several observation axes."""
    if case.get("obs_shape"):
        return tuple(case["obs_shape"]) + (case["na"],)
    return (case["ns"], case["na"])


def make_table_nd(shape, seed, mode):
    """float32 table of any rank, pure function of the case."""
    x = gen.rng_array(seed, tuple(shape), 1.0).astype(np.float64)
    if mode == "normal":
        t = np.clip(x * 40.0, -100.0, 100.0)
    elif mode == "int":  # many exact ties
        t = np.round(x * 1.5)
    elif mode == "small":
        t = x
    else:
        t = np.zeros(tuple(shape))
    return t.astype(np.float32)


def lrs():
    return st.one_of(st.sampled_from([0.5, 0.1, 1.0, 0.25]), gen.f32(0.05, 1.0), gen.f32(0.01, 1.0))


def rewards(mode="normal"):
    """Rewards on the scale of the table (the comparison tolerance follows the largest magnitude)."""
    return gen.values(100.0) if mode == "normal" else gen.values(4.0)


def _idx(v, kind):
    if kind == "int":
        return int(v)
    if kind == "np":
        return np.int64(v)
    return _jnp().asarray(int(v), dtype=_jnp().int32)


def _sidx(s):
    """State as an index tuple over the observation axes (cases store ints or lists)."""
    if isinstance(s, (tuple, list)):
        return tuple(int(i) for i in s)
    return (int(s),)


def _show(si):
    return si[0] if len(si) == 1 else si


def _obs(s, kind):
    """The observation as the tabular training loops receive it from env.reset / env.step."""
    if kind == "tuple":  # Blackjack-v1
        return tuple(int(i) for i in s)
    if kind == "np_tuple":  # Tuple.sample()
        return tuple(np.int64(i) for i in s)
    return _idx(s, kind)


def _flag(v, kind):
    return bool(v) if kind == "bool" else np.bool_(bool(v))


@st.composite
def transition_cases(draw, two_tables=False, with_next_action=False, with_term=True, nd=False):
    if nd and draw(st.sampled_from(ND_SHARE)):
        # several observation axes, tuple observations; the action comes from the policy (0-d jax array) in the
        # training loops, python / numpy ints are drawn as well
        shape = draw(nd_shapes())
        dims, na = shape[:-1], shape[-1]
        ns = int(np.prod(dims))
        f = draw(st.integers(0, ns - 1))
        f2 = (f + draw(st.sampled_from([0] + 3 * list(range(1, ns))))) % ns
        head = {"obs_shape": dims, "na": na}
        s, s2 = [int(i) for i in np.unravel_index(f, dims)], [int(i) for i in np.unravel_index(f2, dims)]
        idx = draw(st.sampled_from(["tuple", "np_tuple"]))
        aidx = draw(st.sampled_from(["jnp", "int", "jnp", "np"]))
    else:
        ns, na = draw(shapes())
        head = {"ns": ns, "na": na}
        s = draw(st.integers(0, ns - 1))
        # mostly s' != s (constructed), sometimes a self-loop
        s2 = (s + draw(st.sampled_from([0] + 3 * list(range(1, ns))))) % ns
        idx = aidx = None
    mode = draw(table_modes())
    case = dict(head, **{
        "seed": draw(gen.seeds()), "mode": mode,
        "s": s, "a": draw(st.integers(0, na - 1)), "r": draw(rewards(mode)), "s2": s2,
        "gamma": draw(gammas()), "lr": draw(lrs()),
        "idx": idx or draw(st.sampled_from(["int", "np", "jnp"])),
    })
    if aidx:
        case["aidx"] = aidx
    if with_term:
        case["term"] = draw(st.sampled_from([0, 0, 1]))
        case["flag"] = draw(st.sampled_from(["bool", "np"]))
    if with_next_action:
        case["a2"] = draw(st.integers(0, na - 1))
    if two_tables:
        case["seed2"] = draw(gen.seeds())
        case["mode2"] = draw(st.sampled_from(["normal", "normal", "normal", "int", "normal", "small", "zero"]))
        # construct (not filter) distinct greedy actions: bumps [g1(s), g1(s'), g2(s')] or none
        g_s = draw(st.integers(0, na - 1))
        g_s2 = (g_s + draw(st.sampled_from(3 * list(range(1, na)) + [0]))) % na
        case["force"] = draw(st.sampled_from([True, True, True, False])) and [g_s, g_s2, draw(st.integers(0, na - 1))] or None
    return case


# ------------------------------------------------------------------ reference

def td_ref(q_sa, r, gamma, term, v_next, lr):
    """new value of the visited entry and the scale of the computation (float64)."""
    boot = gamma * (0.0 if term else 1.0) * v_next
    err = r + boot - q_sa
    new = q_sa + lr * err
    scale = max(abs(q_sa), abs(r), abs(boot), abs(err), abs(new), 1e-3)
    return new, scale


def tol_of(ref, scale):
    return 1e-5 * scale + 2e-4 * abs(ref)


def near(a, ref, scale):
    a = float(a)
    return bool(np.isfinite(a) and abs(a - ref) <= tol_of(ref, scale))


def only_entry_changed(before, after, s, a):
    """Every entry but (s, a) is byte-identical (s: int or index tuple over the observation axes)."""
    b = np.array(before, copy=True)
    c = np.array(after, copy=True)
    if b.shape != c.shape or b.dtype != c.dtype:
        return False
    e = _sidx(s) + (int(a),)
    b[e] = 0
    c[e] = 0
    return b.tobytes() == c.tobytes()


def changed_entries(before, after):
    b = np.asarray(before)
    c = np.asarray(after)
    if b.shape != c.shape:
        return "shape %s -> %s" % (b.shape, c.shape)
    bb = b.view(np.uint32) if b.dtype == np.float32 else b
    cc = c.view(np.uint32) if c.dtype == np.float32 else c
    return [list(map(int, ix)) for ix in np.argwhere(bb != cc)]


def axis0_reading(q, s, a, r, s2, a2, gamma, term, lr, q_eval=None):
    """Used only to *name* a failure of a tuple-observation case (never as the reference): the table one TD update
    gives when the observation tuple (o_1, ..., o_k) is read as an advanced index on axis 0, i.e. with numpy's
    meaning of ``q[(o_1, ..., o_k), a]``: rows o_1 ... o_k of axis 0 and ``a`` applied to axis 1 (the second
    observation axis), instead of the single entry ``q[o_1, ..., o_k, a]``.  XLA's out-of-bounds rules: reads are
    clamped, writes dropped, writes to a repeated row accumulate.  Returns (table, magnitude)."""
    q64 = q.astype(np.float64)
    qe = q64 if q_eval is None else q_eval.astype(np.float64)
    n0, n1 = q.shape[0], q.shape[1]
    rows, rows2 = np.clip(np.asarray(s), 0, n0 - 1), np.clip(np.asarray(s2), 0, n0 - 1)
    val = q64[rows, min(int(a), n1 - 1)]
    nxt = qe[rows2, min(int(a2), n1 - 1)]
    err = r + gamma * (0.0 if term else 1.0) * nxt - val
    out = q64.copy()
    if int(a) < n1:
        for i, o in enumerate(s):
            if o < n0:
                out[o, int(a)] += lr * err[i]
    mag = max(float(np.abs(out).max()), float(np.abs(err).max()), float(np.abs(q64).max()), abs(r), 1e-3)
    return out, mag


def explained_by_axis0_reading(after, readings):
    after = np.asarray(after, dtype=np.float64)
    for out, mag in readings:
        if after.shape == out.shape and bool(np.all(np.abs(after - out) <= 2e-5 * mag + 2e-4 * np.abs(out))):
            return True
    return False


AXIS0_TEXT = ("the returned table equals the update with the observation tuple read as an advanced index on axis 0 "
              "(q_table[observation, action] with a tuple observation selects the rows o_1..o_k of the first "
              "observation axis and applies `action` to the second one) instead of the entry "
              "q_table[o_1, ..., o_k, action]")


def report_tuple_observation(sub, before, after, si, a, isolated, readings, detail):
    """Failure of a case with several observation axes: reported (once) with the suffix .tuple_observation when the
    axis-0 reading explains the whole returned table.  Returns True when it did."""
    if len(si) < 2 or not explained_by_axis0_reading(after, readings()):
        return False
    e = si + (int(a),)
    if not isolated:
        report(f"{sub}.only_visited_entry_changes.tuple_observation",
               f"table shape {tuple(before.shape)}, visited entry {e}; changed entries "
               f"{changed_entries(before, after)}; {AXIS0_TEXT} {detail}")
    else:
        report(f"{sub}.value.tuple_observation",
               f"table shape {tuple(before.shape)}, visited entry {e}: got {float(np.asarray(after)[e])!r} (before "
               f"{float(before[e])!r}), no other entry changed; {AXIS0_TEXT} (reads clamped, out-of-range writes "
               f"dropped) {detail}")
    return True


def check_single_update(sub, before, after, s, a, ref, scale, value_key=None, detail="", readings=None):
    """``readings``: zero-argument callable giving the axis0_reading tables of the case (several observation axes
    only)."""
    after = np.asarray(after)
    check(after.shape == before.shape and after.dtype == before.dtype, f"{sub}.shape_dtype",
          lambda: f"{before.shape}/{before.dtype} -> {after.shape}/{after.dtype}")
    si = _sidx(s)
    e = si + (int(a),)
    isolated = only_entry_changed(before, after, si, a)
    value_ok = near(after[e], ref, scale)
    if not (isolated and value_ok) and readings is not None:
        if report_tuple_observation(sub, before, after, si, a, isolated, readings, detail):
            return
    s = _show(si)
    check(isolated, f"{sub}.other_entries_changed",
          lambda: f"visited ({s},{a}); changed entries {changed_entries(before, after)} {detail}")
    check(value_ok, value_key or f"{sub}.value",
          lambda: f"entry ({s},{a}): got {float(after[e])!r}, reference {ref!r} (tol {tol_of(ref, scale):.3g}) {detail}")


def obs_labels(case):
    n = len(_sidx(case["s"]))
    labels = [f"obs-axes={n}", "obs=" + case["idx"]]
    if n > 1:
        labels.append("action=" + case.get("aidx", case["idx"]))
    return labels


# --------------------------------------------------------- Q-learning (single)

def run_q_learning(case):
    jnp = _jnp()
    from rl_blox.algorithm.q_learning import _update_policy
    from rl_blox.blox.value_policy import greedy_policy

    q = make_table_nd(table_shape(case), case["seed"], case["mode"])
    s, a, s2, term = _sidx(case["s"]), case["a"], _sidx(case["s2"]), bool(case["term"])
    qj = jnp.asarray(q)
    # Q-learning step as documented: the next action is the greedy one at the successor
    a2 = greedy_policy(qj, _obs(case["s2"], case["idx"]))
    out = _update_policy(qj, _obs(case["s"], case["idx"]), _idx(a, case.get("aidx", case["idx"])), case["r"],
                         _obs(case["s2"], case["idx"]), a2, case["gamma"], _flag(term, case["flag"]), case["lr"])
    q64 = q.astype(np.float64)
    v_next = float(q64[s2].max())
    ref, scale = td_ref(q64[s + (a,)], case["r"], case["gamma"], term, v_next, case["lr"])
    greedy = np.flatnonzero(q64[s2] == q64[s2].max())
    check_single_update("q_learning", q, out, s, a, ref, scale,
                        detail=f"r={case['r']} gamma={case['gamma']} lr={case['lr']} term={term} V_next={v_next} "
                               f"s'={_show(s2)}",
                        readings=lambda: [axis0_reading(q, s, a, case["r"], s2, g, case["gamma"], term, case["lr"])
                                          for g in greedy])
    check(bytes_equal(np.asarray(qj), q), "q_learning.input_mutated", "")
    vis = case["lr"] * case["gamma"] * abs(v_next) > 20 * tol_of(ref, scale)
    labels = ["terminated" if term else "non-terminated", "self-loop" if s2 == s else "s'!=s",
              "table:" + case["mode"], "bootstrap-visible" if vis else "bootstrap-invisible"] + obs_labels(case)
    if int(np.argmax(q64[s2])) != a:
        labels.append("greedy(s')!=a")
    return Outcome(labels=labels, nontrivial=bool(vis))


# -------------------------------------------------------------- SARSA (single)

def run_sarsa(case):
    jnp = _jnp()
    from rl_blox.algorithm.sarsa import _update_policy

    q = make_table_nd(table_shape(case), case["seed"], case["mode"])
    s, a, s2, a2, term = _sidx(case["s"]), case["a"], _sidx(case["s2"]), case["a2"], bool(case["term"])
    qj = jnp.asarray(q)
    aidx = case.get("aidx", case["idx"])
    out = _update_policy(qj, _obs(case["s"], case["idx"]), _idx(a, aidx), case["r"], _obs(case["s2"], case["idx"]),
                         _idx(a2, aidx), case["gamma"], case["lr"], _flag(term, case["flag"]))
    q64 = q.astype(np.float64)
    v_next = float(q64[s2 + (a2,)])
    ref, scale = td_ref(q64[s + (a,)], case["r"], case["gamma"], term, v_next, case["lr"])
    check_single_update("sarsa", q, out, s, a, ref, scale,
                        detail=f"r={case['r']} gamma={case['gamma']} lr={case['lr']} term={term} a'={a2} "
                               f"V_next={v_next} s'={_show(s2)}",
                        readings=lambda: [axis0_reading(q, s, a, case["r"], s2, a2, case["gamma"], term, case["lr"])])
    vis = case["lr"] * case["gamma"] * abs(v_next) > 20 * tol_of(ref, scale)
    greedy_val = float(q64[s2].max())
    off = abs(greedy_val - v_next) * case["lr"] * case["gamma"] > 20 * tol_of(ref, scale)
    labels = ["terminated" if term else "non-terminated", "table:" + case["mode"],
              "a'-not-greedy-visible" if off else "a'-greedy-or-equal",
              "bootstrap-visible" if vis else "bootstrap-invisible"] + obs_labels(case)
    return Outcome(labels=labels, nontrivial=bool(vis))


# ---------------------------------------------------- double Q-learning (single)

def double_q_tables(case):
    q1 = make_table_nd(table_shape(case), case["seed"], case["mode"])
    q2 = make_table_nd(table_shape(case), case["seed2"] + (1 if case["seed2"] == case["seed"] else 0), case["mode2"])
    f = case.get("force")
    if f:
        s, s2 = _sidx(case["s"]), _sidx(case["s2"])
        q1[s + (f[0],)] = 120.0
        q1[s2 + (f[1],)] = 125.0
        q2[s2 + (f[2],)] = 130.0
    return q1, q2


def double_q_oracle(sub, q1, q2, out, s, a, r, s2, gamma, lr, term, detail=""):
    """Oracle for one double-Q update of table q1 (evaluated by q2).  Returns
    (visible, d6_distinguishable)."""
    out = np.asarray(out)
    check(out.shape == q1.shape and out.dtype == q1.dtype, f"{sub}.shape_dtype", f"{out.shape} {out.dtype}")
    s, s2 = _sidx(s), _sidx(s2)  # index tuples over the observation axes
    e = s + (int(a),)
    a64, b64 = q1.astype(np.float64), q2.astype(np.float64)
    greedy = np.flatnonzero(a64[s2] == a64[s2].max())  # any maximal action is accepted
    refs = [td_ref(a64[e], r, gamma, term, float(b64[s2 + (g,)]), lr) for g in greedy]
    isolated = only_entry_changed(q1, out, s, a)
    ok = any(near(out[e], ref, sc) for ref, sc in refs)
    if not (isolated and ok) and report_tuple_observation(
            sub, q1, out, s, a, isolated,
            lambda: [axis0_reading(q1, s, a, r, s2, g, gamma, term, lr, q_eval=q2) for g in greedy], detail):
        isolated = ok = True  # named and reported; the remaining clauses of the case go on
    check(isolated, f"{sub}.other_entries_changed",
          lambda: f"visited ({_show(s)},{a}); changed entries {changed_entries(q1, out)} {detail}")
    ref0, sc0 = refs[0]
    # alternative reading used only to classify the failure: action selected at `observation`
    g_obs = np.flatnonzero(a64[s] == a64[s].max())
    alts = [td_ref(a64[e], r, gamma, term, float(b64[s2 + (g,)]), lr) for g in g_obs]
    if not ok:
        d = (f"entry ({_show(s)},{a}): got {float(out[e])!r}, reference {ref0!r} = q1[s,a] + lr*(r + gamma*(1-term)*"
             f"q2[s', argmax q1[s']]) with argmax q1[s']={greedy.tolist()}, q2[s']={b64[s2].tolist()}, "
             f"q1[s]={a64[s].tolist()}, q1[s']={a64[s2].tolist()}, r={r}, gamma={gamma}, lr={lr}, term={term} {detail}")
        if any(near(out[e], ref, sc) for ref, sc in alts):
            report(f"{sub}.value.next_action_selected_at_observation",
                   d + f"; result equals the update with the action argmax q1[s]={g_obs.tolist()} selected at the "
                       "current observation instead of the successor")
        else:
            report(f"{sub}.value", d)
    t0 = tol_of(ref0, sc0)
    vis = lr * gamma * max(abs(float(b64[s2 + (g,)])) for g in greedy) > 20 * t0
    dist = (not term) and all(abs(r1 - r2) > 20 * t0 for r1, _ in refs for r2, _ in alts)
    return bool(vis), bool(dist)


def run_double_q(case):
    import jax

    jnp = _jnp()
    from rl_blox.algorithm.double_q_learning import _dql_update

    q1, q2 = double_q_tables(case)
    s, a, s2, term = _sidx(case["s"]), case["a"], _sidx(case["s2"]), bool(case["term"])
    out = _dql_update(jax.random.key(case["seed"] % 1000), jnp.asarray(q1), jnp.asarray(q2),
                      _obs(case["s"], case["idx"]), _idx(a, case.get("aidx", case["idx"])), case["r"],
                      _obs(case["s2"], case["idx"]), case["gamma"], case["lr"], _flag(term, case["flag"]))
    vis, dist = double_q_oracle("double_q", q1, q2, out, s, a, case["r"], s2, case["gamma"], case["lr"], term,
                                detail=f"[s'={_show(s2)} r={case['r']} gamma={case['gamma']} lr={case['lr']} term={term}]")
    g1 = int(np.argmax(q1[s2]))
    labels = ["terminated" if term else "non-terminated",
              "greedy(s')-differs-between-tables" if g1 != int(np.argmax(q2[s2])) else "greedy(s')-same-in-both",
              "greedy-differs-s-vs-s'" if g1 != int(np.argmax(q1[s])) else "greedy-same-s-vs-s'",
              "selection-site-visible" if dist else "selection-site-invisible",
              "self-loop" if s2 == s else "s'!=s"] + obs_labels(case)
    return Outcome(labels=labels, nontrivial=bool(vis and (dist or term)))


# ------------------------------------------------------------ Monte-Carlo update

EP_LENS_QUICK = [1, 2, 3, 4, 6, 9]


@st.composite
def mc_cases(draw):
    ns, na = draw(shapes())
    n = draw(st.sampled_from(EP_LENS_QUICK) if QUICK else st.one_of(st.sampled_from(EP_LENS_QUICK), st.integers(1, 12)))
    # few distinct pairs so that pairs repeat inside the episode
    k = draw(st.integers(1, min(3, ns * na)))
    pairs = draw(st.lists(st.tuples(st.integers(0, ns - 1), st.integers(0, na - 1)), min_size=k, max_size=k))
    mode = draw(table_modes())
    steps = draw(st.lists(st.tuples(st.integers(0, k - 1), rewards(mode)), min_size=n, max_size=n))
    return {"ns": ns, "na": na, "seed": draw(gen.seeds()), "mode": mode,
            "visits": draw(st.sampled_from(["zero", "zero", "seeded"])),
            "episode": [[pairs[i][0], pairs[i][1], r] for i, r in steps],
            "gamma": draw(gammas())}


def mc_reference(q, n0, episode, gamma):
    """Every-visit running mean with visit counts: entry -> (n0*Q0 + sum G) / (n0 + k)."""
    g = 0.0
    rets = {}
    mag = 0.0
    for s, a, r in reversed(episode):
        g = r + gamma * g
        mag = max(mag, abs(g))
        rets.setdefault((s, a), []).append(g)
    ref_q = q.astype(np.float64).copy()
    ref_n = n0.astype(np.float64).copy()
    for (s, a), gs in rets.items():
        ref_n[s, a] = n0[s, a] + len(gs)
        ref_q[s, a] = (n0[s, a] * float(q[s, a]) + sum(gs)) / ref_n[s, a]
    return ref_q, ref_n, rets, mag


def mc_oracle(sub, q, n0, out_q, out_n, episode, gamma):
    out_q, out_n = np.asarray(out_q), np.asarray(out_n)
    ref_q, ref_n, rets, mag = mc_reference(q, n0, episode, gamma)
    check(out_q.shape == q.shape and out_n.shape == n0.shape, f"{sub}.shape", f"{out_q.shape} {out_n.shape}")
    visited = np.zeros(q.shape, dtype=bool)
    for (s, a) in rets:
        visited[s, a] = True
    check(np.array_equal(out_q[~visited].view(np.uint32), q[~visited].view(np.uint32)), f"{sub}.unvisited_q_changed",
          lambda: f"changed {changed_entries(q, out_q)} visited {sorted(rets)}")
    check(np.array_equal(out_n.astype(np.float64), ref_n), f"{sub}.visit_counts",
          lambda: f"n_visits {out_n.tolist()} reference {ref_n.tolist()}")
    scale = max(mag, float(np.abs(q).max()), 1e-3)
    for (s, a), gs in rets.items():
        check(near(out_q[s, a], ref_q[s, a], scale), f"{sub}.running_mean",
              lambda: f"entry ({s},{a}): got {float(out_q[s, a])!r}, reference {ref_q[s, a]!r}; returns {gs}, "
                      f"prior count {float(n0[s, a])}, prior value {float(q[s, a])}, gamma={gamma}")
    return rets, scale


def run_mc(case):
    jnp = _jnp()
    from rl_blox.algorithm.monte_carlo import update

    q = make_table(case["ns"], case["na"], case["seed"], case["mode"])
    if case["visits"] == "zero":
        n0 = np.zeros_like(q)
    else:
        n0 = np.abs(np.round(gen.rng_array(case["seed"] + 3, q.shape, 2.0))).astype(np.float32)
    ep = case["episode"]
    res = update(jnp.asarray(q), jnp.asarray(n0),
                 jnp.asarray([e[2] for e in ep], dtype=jnp.float32),
                 jnp.asarray([e[0] for e in ep], dtype=jnp.int32),
                 jnp.asarray([e[1] for e in ep], dtype=jnp.int32), case["gamma"])
    out_q, out_n = res
    rets, scale = mc_oracle("monte_carlo", q, n0, out_q, out_n, ep, case["gamma"])
    rep = any(len(gs) >= 2 and max(gs) - min(gs) > 20 * tol_of(max(map(abs, gs)), scale) for gs in rets.values())
    labels = ["len=%s" % ("1" if len(ep) == 1 else "2+"), "repeated-pair" if rep else "no-repeat",
              "prior-visits" if case["visits"] != "zero" else "fresh-visits",
              "gamma=0" if case["gamma"] == 0 else "gamma>0"]
    return Outcome(labels=labels, nontrivial=bool(rep and len(ep) >= 2 and case["gamma"] > 0))


# --------------------------------------------------- Dyna-Q real-step update

def run_dynaq_update(case):
    jnp = _jnp()
    from rl_blox.algorithm.dynaq import q_learning_update

    q = make_table(case["ns"], case["na"], case["seed"], case["mode"])
    s, a, s2 = case["s"], case["a"], case["s2"]
    out = q_learning_update(_idx(s, case["idx"]), _idx(a, case["idx"]), case["r"], _idx(s2, case["idx"]),
                            case["gamma"], case["lr"], jnp.asarray(q))
    q64 = q.astype(np.float64)
    v_next = float(q64[s2].max())
    ref, scale = td_ref(q64[s, a], case["r"], case["gamma"], False, v_next, case["lr"])
    check_single_update("dynaq_update", q, out, s, a, ref, scale,
                        detail=f"r={case['r']} gamma={case['gamma']} lr={case['lr']} V_next={v_next}")
    vis = case["lr"] * case["gamma"] * abs(v_next) > 20 * tol_of(ref, scale)
    labels = ["table:" + case["mode"], "self-loop" if s2 == s else "s'!=s",
              "bootstrap-visible" if vis else "bootstrap-invisible"]
    return Outcome(labels=labels, nontrivial=bool(vis))


# ------------------------------------------------------------- Dyna-Q model

@st.composite
def history_cases(draw, max_len=10, min_len=1, mode="normal"):
    ns = draw(st.sampled_from([2, 3, 4]))
    na = draw(st.sampled_from([1, 2, 3]))
    n = draw(st.integers(min_len, max_len))
    steps = draw(st.lists(
        st.tuples(st.integers(0, ns - 1), st.integers(0, na - 1), rewards(mode), st.integers(0, ns - 1)),
        min_size=n, max_size=n))
    # a focus pair re-visited with several successors (stochastic successors by construction)
    focus = draw(st.lists(st.tuples(st.integers(0, n), rewards(mode), st.integers(0, ns - 1)), max_size=4))
    fs, fa = draw(st.integers(0, ns - 1)), draw(st.integers(0, na - 1))
    hist = [list(x) for x in steps]
    for pos, r, s2 in focus:
        hist.insert(min(pos, len(hist)), [fs, fa, r, s2])
    return {"ns": ns, "na": na, "history": hist}


def empirical_model(ns, na, history):
    cnt = np.zeros((ns, na, ns))
    rsum = np.zeros((ns, na, ns))
    for s, a, r, s2 in history:
        cnt[s, a, s2] += 1
        rsum[s, a, s2] += r
    tot = cnt.sum(-1, keepdims=True)
    with np.errstate(invalid="ignore", divide="ignore"):
        p = np.where(tot > 0, cnt / np.where(tot > 0, tot, 1.0), 0.0)
        rm = np.where(cnt > 0, rsum / np.where(cnt > 0, cnt, 1.0), 0.0)
    return cnt, p, rm


def stale_frequencies(ns, na, history):
    """Frequency of each triple *as of the last time that triple was observed*
    (used only to classify a model mismatch)."""
    cnt = np.zeros((ns, na, ns))
    stale = np.zeros((ns, na, ns))
    for s, a, r, s2 in history:
        cnt[s, a, s2] += 1
        stale[s, a, s2] = cnt[s, a, s2] / cnt[s, a].sum()
    return stale


def model_oracle(sub, ns, na, history, trans, rew, where=""):
    """Model arrays versus the empirical model of ``history``."""
    trans = np.asarray(trans, dtype=np.float64)
    rew = np.asarray(rew, dtype=np.float64)
    check(trans.shape == (ns, na, ns) and rew.shape == (ns, na, ns), f"{sub}.shape", f"{trans.shape} {rew.shape}")
    cnt, p, rm = empirical_model(ns, na, history)
    visited = cnt.sum(-1) > 0
    bad = visited[..., None] & ~(np.abs(trans - p) <= 1e-6)
    if bad.any():
        stale = stale_frequencies(ns, na, history)
        rows = sorted({(int(i), int(j)) for i, j, _ in np.argwhere(bad)})
        s, a = rows[0]
        d = (f"{where}transition[{s},{a}] = {trans[s, a].tolist()} (sum {trans[s, a].sum():.6g}), empirical "
             f"frequencies {p[s, a].tolist()} from counts {cnt[s, a].tolist()}; history (s,a,r,s') = {history}")
        if np.all(np.abs(trans - stale)[bad] <= 1e-6):
            report(f"{sub}.transition.stale_other_successors",
                   d + "; every wrong entry equals the frequency at the time that successor was last observed "
                       "(entries of the other successors of the row are not refreshed)")
        else:
            report(f"{sub}.transition", d)
    else:
        check(bool(np.all(np.abs(trans.sum(-1)[visited] - 1.0) <= 1e-5)), f"{sub}.row_sum", "")
    obs = cnt > 0
    scale = max(1e-3, float(max(abs(h[2]) for h in history)))
    okr = np.abs(rew - rm) <= 1e-5 * scale + 2e-4 * np.abs(rm)
    check(bool(np.all(okr[obs])), f"{sub}.reward_mean",
          lambda: f"{where}reward model at observed triples {np.argwhere(obs & ~okr).tolist()}: "
                  f"{rew[obs & ~okr].tolist()} vs mean rewards {rm[obs & ~okr].tolist()}; history {history}")
    return cnt


def run_dynaq_model(case):
    jnp = _jnp()
    from rl_blox.algorithm.dynaq import Counter, ForwardModel, counter_update, model_update

    ns, na, hist = case["ns"], case["na"], case["history"]
    # constructed exactly as train_dynaq does
    counter = Counter(
        transition_counter=[[[0 for _ in range(ns)] for _ in range(na)] for _ in range(ns)],
        reward_history=[[[[] for _ in range(ns)] for _ in range(na)] for _ in range(ns)],
    )
    model = ForwardModel(transition=jnp.zeros((ns, na, ns)), reward=jnp.zeros((ns, na, ns)))
    for k, (s, a, r, s2) in enumerate(hist):
        counter = counter_update(counter, int(s), int(a), float(r), int(s2))
        model = model_update(model, counter, int(s), int(a), int(s2))
        cnt = model_oracle("dynaq_model", ns, na, hist[:k + 1], model.transition, model.reward,
                           where=f"after {k + 1} transitions: ")
        check(np.array_equal(np.asarray(counter.transition_counter, dtype=np.float64), cnt), "dynaq_model.counter",
              lambda: f"counter {counter.transition_counter} vs counts {cnt.tolist()}")
    # stochastic successors: an older successor of a pair is followed by a different one
    seen = {}
    stochastic = False
    for s, a, r, s2 in hist:
        if (s, a) in seen and seen[(s, a)] != {s2}:
            stochastic = True
        if (s, a) in seen and s2 not in seen[(s, a)]:
            stochastic = True
        seen.setdefault((s, a), set()).add(s2)
    rep_r = any(sum(1 for h in hist if h[0] == x[0] and h[1] == x[1] and h[3] == x[3]) >= 2 for x in hist)
    labels = ["stochastic-successors" if stochastic else "deterministic", "len=%d" % min(len(hist), 5) + ("+" if len(hist) >= 5 else ""),
              "repeated-triple" if rep_r else "no-repeated-triple"]
    return Outcome(labels=labels, nontrivial=stochastic)


# ---------------------------------------------------------- Dyna-Q planning

@st.composite
def planning_cases(draw):
    mode = draw(table_modes())
    h = draw(history_cases(max_len=6, min_len=2, mode=mode))
    ns, na = h["ns"], h["na"]
    return {"ns": ns, "na": na, "history": h["history"], "seed": draw(gen.seeds()),
            "mode": mode, "n_planning": draw(st.sampled_from([1, 2, 1, 2, 3, 1, 2, 0])),
            "buffer_size": draw(st.sampled_from([3, 5, 20, 5, 3, 20, 2, 1])),
            "key": draw(st.integers(0, 2**16)), "gamma": draw(gammas()), "lr": draw(lrs())}


def planning_oracle(sub, q_in, q_out, trans, rew, obs_buf, act_buf, n_steps, gamma, lr, detail=""):
    """Existential oracle: q_out is the result of n_steps sequential greedy-successor
    updates, each of some buffered pair (s, a) with a successor s* the model allows
    (probability > 0) and the model's reward for (s, a, s*).  Returns visibility info."""
    q_in = np.asarray(q_in)
    q_out = np.asarray(q_out)
    check(q_out.shape == q_in.shape and q_out.dtype == q_in.dtype, f"{sub}.shape_dtype", f"{q_out.shape} {q_out.dtype}")
    trans = np.asarray(trans, dtype=np.float64)
    rew = np.asarray(rew, dtype=np.float64)
    pairs = sorted({(int(s), int(a)) for s, a in zip(obs_buf, act_buf)})
    if n_steps == 0:
        check(bytes_equal(q_in, q_out), f"{sub}.zero_steps_changed", lambda: f"{changed_entries(q_in, q_out)}")
        return False, pairs
    moves = []
    for s, a in pairs:
        succ = np.flatnonzero(trans[s, a] > 0)
        for s2 in succ:
            moves.append((s, a, int(s2), float(rew[s, a, s2])))
    # entries outside the buffered pairs can never change
    mask = np.zeros(q_in.shape, dtype=bool)
    for s, a in pairs:
        mask[s, a] = True
    check(np.array_equal(q_in[~mask].view(np.uint32), q_out[~mask].view(np.uint32)), f"{sub}.unbuffered_entry_changed",
          lambda: f"changed {changed_entries(q_in, q_out)}, buffered pairs {pairs} {detail}")
    target = q_out.astype(np.float64)
    scale_box = [1e-3]
    visible = [False]

    def matches(q):
        sc = max(scale_box[0], float(np.abs(q).max()))
        return bool(np.all(np.abs(target - q) <= 1e-5 * sc * n_steps + 2e-4 * np.abs(q)))

    def dfs(q, depth):
        if depth == n_steps:
            return matches(q)
        for s, a, s2, r in moves:
            v = float(q[s2].max())
            new, sc = td_ref(q[s, a], r, gamma, False, v, lr)
            scale_box.append(max(scale_box.pop(), sc))
            q2 = q.copy()
            q2[s, a] = new
            if lr * gamma * abs(v) > 20 * tol_of(new, sc):
                visible[0] = True
            if dfs(q2, depth + 1):
                return True
        return False

    ok = dfs(q_in.astype(np.float64), 0)
    check(ok, f"{sub}.no_buffered_pair_explains_result",
          lambda: f"q_in={q_in.tolist()} q_out={q_out.tolist()} changed={changed_entries(q_in, q_out)} "
                  f"candidate (s,a,s*,reward)={moves} n_planning_steps={n_steps} gamma={gamma} lr={lr} {detail}")
    return visible[0], pairs


def run_dynaq_planning(case):
    import jax

    jnp = _jnp()
    from rl_blox.algorithm.dynaq import planning

    ns, na, hist = case["ns"], case["na"], case["history"]
    q = make_table(ns, na, case["seed"], case["mode"])
    _, p, rm = empirical_model(ns, na, hist)
    trans = p.astype(np.float32)
    rew = rm.astype(np.float32)
    buf = [(h[0], h[1]) for h in hist][-case["buffer_size"]:]
    obs_buf = jnp.asarray([b[0] for b in buf], dtype=int)
    act_buf = jnp.asarray([b[1] for b in buf], dtype=int)
    out = planning(jnp.asarray(trans), jnp.asarray(rew), obs_buf, act_buf, case["n_planning"],
                   jax.random.key(case["key"]), case["gamma"], case["lr"], jnp.asarray(q))
    vis, pairs = planning_oracle("dynaq_planning", q, out, trans, rew, [b[0] for b in buf], [b[1] for b in buf],
                                 case["n_planning"], case["gamma"], case["lr"])
    labels = ["n_planning=%d" % case["n_planning"], "pairs=%s" % ("1" if len(pairs) == 1 else "2+"),
              "table:" + case["mode"], "visible" if vis else "invisible"]
    nt = case["n_planning"] >= 1 and len(pairs) >= 2 and vis
    return Outcome(labels=labels, nontrivial=bool(nt))


# ------------------------------------------------------------- recorded runs

class Tap:
    """Wrap a module-level callable from the test side; records (args, kwargs,
    result) of every call and never raises by itself."""

    def __init__(self, module, name, snapshot):
        self.module, self.name, self.snapshot = module, name, snapshot
        self.calls = []
        self.error = None

    def __enter__(self):
        self.orig = getattr(self.module, self.name)

        def wrapper(*args, **kwargs):
            res = self.orig(*args, **kwargs)
            try:
                self.calls.append(self.snapshot(args, kwargs, res))
            except Exception as e:  # noqa: BLE001
                self.error = repr(e)
            return res

        setattr(self.module, self.name, wrapper)
        return self

    def __exit__(self, *exc):
        setattr(self.module, self.name, self.orig)
        return False


def _snap_policy(args, kwargs, res):
    q_table, observation = args[0], args[1]
    return {"table": np.array(q_table), "obs": _sidx(observation), "action": int(res),
            "epsilon": float(args[2]) if len(args) > 2 else None}


RUN_OBS_SHAPES = [[2, 2], [3, 2], [2, 3], [2, 2, 2]] if QUICK else [[2, 2], [3, 2], [2, 3], [2, 2, 2], [1, 4], [3, 1, 2]]


@st.composite
def run_cases(draw, algo):
    ns = draw(st.sampled_from([2, 3, 4]))
    na = draw(st.sampled_from([2, 3]))
    n_ep = draw(st.integers(1, 5))
    script = draw(st.lists(
        st.tuples(st.one_of(st.sampled_from([1, 1, 2, 3]), st.integers(1, 8)), st.sampled_from(["term", "term", "trunc"])),
        min_size=n_ep, max_size=n_ep))
    script = [list(x) for x in script]
    # constructed so that most runs contain a terminated and a bootstrapping step: a short
    # terminated episode of >= 2 steps comes early
    if draw(st.sampled_from([True, True, True, True, False])):
        script.insert(draw(st.integers(0, min(1, len(script)))), [draw(st.sampled_from([2, 3, 2, 4])), "term"])
    lead = sum(x[0] for x in script[:2])
    case = {"algo": algo, "ns": ns, "na": na, "script": script,
            "env_seed": draw(st.integers(0, 10**6)),
            "total": draw(st.integers(min(lead + 1, 12), 18 if algo == "dynaq" else 30)),
            "epsilon": draw(st.sampled_from([0.0, 0.3, 0.3, 1.0])),
            "gamma": draw(st.sampled_from([0.99, 0.9, 0.5, 1.0])),
            "lr": draw(st.sampled_from([0.1, 0.5, 1.0, 0.3])),
            "seed": draw(st.integers(0, 1000)), "tseed": draw(gen.seeds()),
            "mode": draw(st.sampled_from(["normal", "int", "normal", "small", "normal", "int", "zero"]))}
    if algo in ("q_learning", "sarsa", "double_q") and draw(st.sampled_from(ND_SHARE)):
        # Tuple(Discrete, ...) observation space: table with 2 or 3 observation axes, tuple observations
        case["obs_shape"] = draw(st.sampled_from(RUN_OBS_SHAPES))
        case["obs_form"] = draw(st.sampled_from(["tuple", "np_tuple"]))
    if algo == "double_q":
        case["tseed2"] = draw(gen.seeds())
    if algo == "monte_carlo":
        case["visits"] = draw(st.sampled_from(["none", "none", "seeded"]))
    if algo == "dynaq":
        case["n_planning"] = draw(st.sampled_from([0, 1, 1, 2]))
        case["buffer_size"] = draw(st.sampled_from([1, 2, 3, 4]))
    return case


def simplify_run(case):
    """Smaller candidate cases for the greedy minimiser."""
    if case["total"] > 1:
        for t in sorted({1, 2, case["total"] // 2, case["total"] - 1}):
            if 1 <= t < case["total"]:
                yield dict(case, total=t)
    if len(case["script"]) > 1:
        for i in range(len(case["script"])):
            yield dict(case, script=case["script"][:i] + case["script"][i + 1:])
    for i, (l, e) in enumerate(case["script"]):
        if l > 1:
            yield dict(case, script=case["script"][:i] + [[l - 1, e]] + case["script"][i + 1:])
    if case["epsilon"] != 0.0:
        yield dict(case, epsilon=0.0)
    if case.get("n_planning"):
        yield dict(case, n_planning=case["n_planning"] - 1)
    if case["mode"] != "int":
        yield dict(case, mode="int")


def _make_env(case):
    from vlib.envs import ScriptedTabularEnv

    if case.get("obs_shape"):
        from vlib.tabular_tuple_env import ScriptedTupleTabularEnv

        return ScriptedTupleTabularEnv(case["script"], dims=case["obs_shape"], n_actions=case["na"],
                                       seed=case["env_seed"], form=case["obs_form"])
    return ScriptedTabularEnv(case["script"], n_states=case["ns"], n_actions=case["na"], seed=case["env_seed"])


def _run_table(sub, env, case, seed, mode):
    """Initial table of a recorded run; for Tuple observation spaces of the shape make_q_table builds."""
    shape = table_shape(case)
    if case.get("obs_shape"):
        from rl_blox.blox.value_policy import make_q_table

        built = tuple(make_q_table(env).shape)
        if built != shape:
            raise HarnessError(f"{sub}: make_q_table builds {built} for {env.observation_space}, case uses {shape}")
    return make_table_nd(shape, seed, mode)


def _run_labels(case):
    if case.get("obs_shape"):
        return [f"obs-axes={len(case['obs_shape'])}", "obs=" + case["obs_form"]]
    return ["obs-axes=1", "obs=int"]


def _transitions(env):
    from vlib.envs import transitions_from_log

    return transitions_from_log(env.log)


def _check_env_discipline(sub, env, total):
    check(not env.log.violations, f"{sub}.step_on_finished_episode", lambda: f"{env.log.violations[:3]}")
    check(env.n_steps == total, f"{sub}.step_count", f"{env.n_steps} environment steps for total_timesteps={total}")


def _tap_ok(*taps):
    for t in taps:
        if t.error:
            raise HarnessError(f"tap {t.name}: {t.error}")


def _vis_labels(flags):
    """flags: list of (terminated, visible) per step."""
    t_vis = any(t and v for t, v in flags)
    n_vis = any((not t) and v for t, v in flags)
    labels = []
    labels.append("terminated-step-visible" if t_vis else "no-visible-terminated-step")
    labels.append("bootstrap-step-visible" if n_vis else "no-visible-bootstrap-step")
    return labels, (t_vis and n_vis)


def run_run_q_learning(case):
    jnp = _jnp()
    import rl_blox.algorithm.q_learning as mod

    sub = "run_q_learning"
    env = _make_env(case)
    q0 = _run_table(sub, env, case, case["tseed"], case["mode"])
    with Tap(mod, "epsilon_greedy_policy", _snap_policy) as tap:
        final = mod.train_q_learning(env, jnp.asarray(q0), learning_rate=case["lr"], epsilon=case["epsilon"],
                                     gamma=case["gamma"], total_timesteps=case["total"], seed=case["seed"],
                                     progress_bar=False)
    _tap_ok(tap)
    _check_env_discipline(sub, env, case["total"])
    tr = _transitions(env)
    check(len(tap.calls) == len(tr), f"{sub}.one_action_selection_per_step", f"{len(tap.calls)} vs {len(tr)}")
    tables = [c["table"] for c in tap.calls] + [np.asarray(final)]
    check(bytes_equal(tables[0], q0), f"{sub}.initial_table_changed_before_first_step", "")
    flags = []
    for i, t in enumerate(tr):
        s, a, s2, term = _sidx(t["observation"]), int(t["action"]), _sidx(t["next_observation"]), bool(t["terminated"])
        check(tap.calls[i]["obs"] == s and tap.calls[i]["action"] == a, f"{sub}.acts_on_current_observation",
              f"step {i}: policy asked at {tap.calls[i]['obs']} -> {tap.calls[i]['action']}, env at {s} got {a}")
        q64 = tables[i].astype(np.float64)
        v = float(q64[s2].max())
        ref, scale = td_ref(q64[s + (a,)], t["reward"], case["gamma"], term, v, case["lr"])
        greedy = np.flatnonzero(q64[s2] == q64[s2].max())
        check_single_update(sub, tables[i], tables[i + 1], s, a, ref, scale,
                            detail=f"[step {i}: s={_show(s)} a={a} r={t['reward']} s'={_show(s2)} terminated={term} "
                                   f"truncated={t['truncated']} table={tables[i].tolist()}]",
                            readings=lambda: [axis0_reading(tables[i], s, a, t["reward"], s2, g, case["gamma"], term,
                                                            case["lr"]) for g in greedy])
        flags.append((term, case["lr"] * case["gamma"] * abs(v) > 20 * tol_of(ref, scale)))
    labels, nt = _vis_labels(flags)
    if any(t["truncated"] for t in tr):
        labels.append("has-truncation")
    return Outcome(labels=labels + _run_labels(case), nontrivial=nt)


def run_run_sarsa(case):
    jnp = _jnp()
    import rl_blox.algorithm.sarsa as mod

    sub = "run_sarsa"
    env = _make_env(case)
    q0 = _run_table(sub, env, case, case["tseed"], case["mode"])
    with Tap(mod, "epsilon_greedy_policy", _snap_policy) as tap:
        final = mod.train_sarsa(env, jnp.asarray(q0), learning_rate=case["lr"], epsilon=case["epsilon"],
                                gamma=case["gamma"], total_timesteps=case["total"], seed=case["seed"],
                                progress_bar=False)
    _tap_ok(tap)
    _check_env_discipline(sub, env, case["total"])
    tr = _transitions(env)
    check(len(tap.calls) == 2 * len(tr), f"{sub}.two_action_selections_per_step", f"{len(tap.calls)} vs {len(tr)}")
    flags = []
    off_policy_next = False
    for i, t in enumerate(tr):
        s, a, s2, term = _sidx(t["observation"]), int(t["action"]), _sidx(t["next_observation"]), bool(t["terminated"])
        c_act, c_next = tap.calls[2 * i], tap.calls[2 * i + 1]
        before = c_act["table"]
        after = tap.calls[2 * i + 2]["table"] if 2 * i + 2 < len(tap.calls) else np.asarray(final)
        if i == 0:
            check(bytes_equal(before, q0), f"{sub}.initial_table_changed_before_first_step", "")
        check(c_act["obs"] == s and c_act["action"] == a, f"{sub}.acts_on_current_observation",
              f"step {i}: policy asked at {c_act['obs']} -> {c_act['action']}, env at {s} got {a}")
        check(c_next["obs"] == s2 and bytes_equal(c_next["table"], before), f"{sub}.next_action_selected_at_successor",
              f"step {i}: next action selected at {c_next['obs']}, successor {s2}")
        a2 = c_next["action"]
        q64 = before.astype(np.float64)
        v = float(q64[s2 + (a2,)])
        if a2 != int(np.argmax(q64[s2])) and abs(v - q64[s2].max()) > 1e-3:
            off_policy_next = True
        ref, scale = td_ref(q64[s + (a,)], t["reward"], case["gamma"], term, v, case["lr"])
        check_single_update(sub, before, after, s, a, ref, scale,
                            detail=f"[step {i}: s={_show(s)} a={a} r={t['reward']} s'={_show(s2)} a'={a2} "
                                   f"terminated={term} truncated={t['truncated']} table={before.tolist()}]",
                            readings=lambda: [axis0_reading(before, s, a, t["reward"], s2, a2, case["gamma"], term,
                                                            case["lr"])])
        flags.append((term, case["lr"] * case["gamma"] * abs(v) > 20 * tol_of(ref, scale)))
    labels, nt = _vis_labels(flags)
    labels.append("non-greedy-next-action" if off_policy_next else "greedy-next-actions")
    return Outcome(labels=labels + _run_labels(case), nontrivial=nt)


def run_run_mc(case):
    jnp = _jnp()
    import rl_blox.algorithm.monte_carlo as mod

    sub = "run_monte_carlo"
    q0 = make_table(case["ns"], case["na"], case["tseed"], case["mode"])
    n0 = None
    if case["visits"] == "seeded":
        n0 = np.abs(np.round(gen.rng_array(case["tseed"] + 3, q0.shape, 1.5))).astype(np.float32)
    env = _make_env(case)
    with Tap(mod, "epsilon_greedy_policy", _snap_policy) as tap:
        res = mod.train_monte_carlo(env, jnp.asarray(q0), case["total"],
                                    n_visits=None if n0 is None else jnp.asarray(n0),
                                    epsilon=case["epsilon"], gamma=case["gamma"], seed=case["seed"],
                                    progress_bar=False)
    _tap_ok(tap)
    final_q, final_n = np.asarray(res[0]), np.asarray(res[1])
    _check_env_discipline(sub, env, case["total"])
    tr = _transitions(env)
    check(len(tap.calls) == len(tr), f"{sub}.one_action_selection_per_step", f"{len(tap.calls)} vs {len(tr)}")
    tables = [c["table"] for c in tap.calls] + [final_q]
    check(bytes_equal(tables[0], q0), f"{sub}.initial_table_changed_before_first_step", "")
    n_ref = np.zeros(q0.shape) if n0 is None else n0.astype(np.float64)
    episode = []
    all_returns = {}
    finished = 0
    repeat = False
    for i, t in enumerate(tr):
        s, a = int(t["observation"]), int(t["action"])
        check(tap.calls[i]["obs"] == (s,) and tap.calls[i]["action"] == a, f"{sub}.acts_on_current_observation",
              f"step {i}: policy asked at {tap.calls[i]['obs']} -> {tap.calls[i]['action']}, env at {s} got {a}")
        episode.append([s, a, float(t["reward"])])
        if t["terminated"] or t["truncated"]:
            # the finished episode moves every visited entry to its running mean
            ref_q, new_n, rets, mag = mc_reference(tables[i], n_ref.astype(np.float32), episode, case["gamma"])
            visited = np.zeros(q0.shape, dtype=bool)
            for key in rets:
                visited[key] = True
            check(np.array_equal(tables[i + 1][~visited].view(np.uint32), tables[i][~visited].view(np.uint32)),
                  f"{sub}.unvisited_q_changed",
                  lambda: f"episode ending at step {i}: changed {changed_entries(tables[i], tables[i + 1])}, visited {sorted(rets)}")
            scale = max(mag, float(np.abs(tables[i]).max()), 1e-3)
            for (ss, aa), gs in rets.items():
                check(near(tables[i + 1][ss, aa], ref_q[ss, aa], scale), f"{sub}.running_mean",
                      lambda: f"episode ending at step {i} = {episode}: entry ({ss},{aa}) got "
                              f"{float(tables[i + 1][ss, aa])!r}, reference {ref_q[ss, aa]!r}; returns {gs}, prior "
                              f"count {n_ref[ss, aa]}, prior value {float(tables[i][ss, aa])}, gamma={case['gamma']}")
                if len(gs) >= 2 or n_ref[ss, aa] > 0:
                    repeat = True
                all_returns.setdefault((ss, aa), []).extend(gs)
            n_ref = new_n
            episode = []
            finished += 1
        else:
            check(bytes_equal(tables[i], tables[i + 1]), f"{sub}.table_changed_inside_episode",
                  lambda: f"step {i}: changed {changed_entries(tables[i], tables[i + 1])}")
    check(np.array_equal(final_n.astype(np.float64), n_ref), f"{sub}.visit_counts",
          lambda: f"n_visits {final_n.tolist()} reference {n_ref.tolist()}")
    # whole-history statement: entries without prior visits hold the mean of all their returns
    for (ss, aa), gs in all_returns.items():
        if n0 is None or n0[ss, aa] == 0:
            m = float(np.mean(gs))
            sc = max(max(map(abs, gs)), float(np.abs(q0).max()), 1e-3)  # the first visit overwrites Q0 in float32
            check(abs(float(final_q[ss, aa]) - m) <= (1e-5 * sc + 2e-4 * abs(m)) * max(1, len(gs)),
                  f"{sub}.final_mean_of_all_returns",
                  lambda: f"entry ({ss},{aa}) = {float(final_q[ss, aa])!r}, mean of returns {gs} = {m!r}")
    labels = ["episodes=%s" % ("0" if finished == 0 else "1" if finished == 1 else "2+"),
              "repeat-visit" if repeat else "no-repeat-visit",
              "unfinished-tail" if episode else "ends-at-episode-end",
              "prior-visits" if n0 is not None else "fresh"]
    return Outcome(labels=labels, nontrivial=bool(finished >= 1 and repeat))


def _snap_dql(args, kwargs, res):
    return {"upd": np.array(args[1]), "other": np.array(args[2]), "obs": _sidx(args[3]), "action": int(args[4]),
            "reward": float(args[5]), "next_obs": _sidx(args[6]), "result": np.array(res)}


def run_run_double_q(case):
    jnp = _jnp()
    import rl_blox.algorithm.double_q_learning as mod

    sub = "run_double_q"
    env = _make_env(case)
    qa = _run_table(sub, env, case, case["tseed"], case["mode"])
    # the two tables always differ (equal seeds would make the roles of the tables unobservable)
    qb = _run_table(sub, env, case, case["tseed2"] + (1 if case["tseed2"] == case["tseed"] else 0), "normal")
    with Tap(mod, "epsilon_greedy_policy", _snap_policy) as tap, Tap(mod, "_dql_update", _snap_dql) as upd:
        res = mod.train_double_q_learning(env, jnp.asarray(qa), jnp.asarray(qb), learning_rate=case["lr"],
                                          epsilon=case["epsilon"], gamma=case["gamma"],
                                          total_timesteps=case["total"], seed=case["seed"], progress_bar=False)
    _tap_ok(tap, upd)
    _check_env_discipline(sub, env, case["total"])
    tr = _transitions(env)
    check(len(tap.calls) == len(tr), f"{sub}.one_action_selection_per_step", f"{len(tap.calls)} vs {len(tr)}")
    check(len(upd.calls) == len(tr), f"{sub}.one_update_per_step",
          f"{len(upd.calls)} table updates for {len(tr)} environment steps")
    cur = [qa, qb]
    flags = []
    which = set()
    ambiguous = False
    for i, t in enumerate(tr):
        s, a, s2, term = _sidx(t["observation"]), int(t["action"]), _sidx(t["next_observation"]), bool(t["terminated"])
        check(tap.calls[i]["obs"] == s and tap.calls[i]["action"] == a, f"{sub}.acts_on_current_observation",
              f"step {i}")
        ssum = (cur[0].astype(np.float64) + cur[1].astype(np.float64))
        check(bool(np.all(np.abs(tap.calls[i]["table"] - ssum) <= 1e-5 * np.maximum(1.0, np.abs(ssum)))),
              f"{sub}.behaviour_table_is_sum", f"step {i}")
        u = upd.calls[i]
        m0 = bytes_equal(u["upd"], cur[0]) and bytes_equal(u["other"], cur[1])
        m1 = bytes_equal(u["upd"], cur[1]) and bytes_equal(u["other"], cur[0])
        check(m0 or m1, f"{sub}.tables_not_threaded", f"step {i}: update called with tables that are not the current pair")
        if m0 and m1:
            ambiguous = True
            break
        k = 0 if m0 else 1
        which.add(k)
        vis, dist = double_q_oracle(sub, cur[k], cur[1 - k], u["result"], s, a, float(t["reward"]), s2,
                                    case["gamma"], case["lr"], term,
                                    detail=f"[step {i}: s={_show(s)} a={a} r={t['reward']} s'={_show(s2)} "
                                           f"terminated={term} updated table {k + 1}]")
        cur[k] = u["result"]
        flags.append((term, vis))
    if not ambiguous:
        check(bytes_equal(np.asarray(res[0]), cur[0]) and bytes_equal(np.asarray(res[1]), cur[1]),
              f"{sub}.returned_tables", "returned tables are not the results of the last updates")
    labels, nt = _vis_labels(flags)
    labels.append("both-tables-updated" if which == {0, 1} else "one-table-updated")
    if ambiguous:
        labels.append("ambiguous-equal-tables")
    return Outcome(labels=labels + _run_labels(case), nontrivial=bool(nt and not ambiguous))


def _snap_planning(args, kwargs, res):
    return {"trans": np.array(args[0]), "rew": np.array(args[1]), "obs_buf": np.array(args[2]).tolist(),
            "act_buf": np.array(args[3]).tolist(), "n": int(args[4]), "gamma": float(args[6]),
            "lr": float(args[7]), "q_in": np.array(args[8]), "result": np.array(res)}


def run_run_dynaq(case):
    jnp = _jnp()
    import rl_blox.algorithm.dynaq as mod

    sub = "run_dynaq"
    ns, na = case["ns"], case["na"]
    q0 = make_table(ns, na, case["tseed"], case["mode"])
    env = _make_env(case)
    with Tap(mod, "epsilon_greedy_policy", _snap_policy) as tap, Tap(mod, "planning", _snap_planning) as pl:
        final = mod.train_dynaq(env, jnp.asarray(q0), gamma=case["gamma"], learning_rate=case["lr"],
                                epsilon=case["epsilon"], n_planning_steps=case["n_planning"],
                                buffer_size=case["buffer_size"], total_timesteps=case["total"], seed=case["seed"],
                                progress_bar=False)
    _tap_ok(tap, pl)
    _check_env_discipline(sub, env, case["total"])
    tr = _transitions(env)
    check(len(tap.calls) == len(tr), f"{sub}.one_action_selection_per_step", f"{len(tap.calls)} vs {len(tr)}")
    check(len(pl.calls) == len(tr), f"{sub}.one_planning_phase_per_step", f"{len(pl.calls)} vs {len(tr)}")
    tables = [c["table"] for c in tap.calls] + [np.asarray(final)]
    check(bytes_equal(tables[0], q0), f"{sub}.initial_table_changed_before_first_step", "")
    hist = []
    flags = []
    plan_vis = False
    stochastic = False
    for i, t in enumerate(tr):
        s, a, s2 = int(t["observation"]), int(t["action"]), int(t["next_observation"])
        r = float(t["reward"])
        check(tap.calls[i]["obs"] == (s,) and tap.calls[i]["action"] == a, f"{sub}.acts_on_current_observation", f"step {i}")
        if any(h[0] == s and h[1] == a and h[3] != s2 for h in hist):
            stochastic = True
        hist.append([s, a, r, s2])
        p = pl.calls[i]
        # direct RL on the real transition (termination not demanded, see ASSUMPTIONS)
        q64 = tables[i].astype(np.float64)
        v = float(q64[s2].max())
        ref, scale = td_ref(q64[s, a], r, case["gamma"], False, v, case["lr"])
        check_single_update(sub + ".direct", tables[i], p["q_in"], s, a, ref, scale,
                            detail=f"[step {i}: s={s} a={a} r={r} s'={s2} table={tables[i].tolist()}]")
        flags.append((bool(t["terminated"]), case["lr"] * case["gamma"] * abs(v) > 20 * tol_of(ref, scale)))
        # learned model handed to planning = empirical model of the transitions so far
        model_oracle(sub + ".model", ns, na, hist, p["trans"], p["rew"], where=f"step {i}: ")
        buf = [(h[0], h[1]) for h in hist][-case["buffer_size"]:]
        check(p["obs_buf"] == [b[0] for b in buf] and p["act_buf"] == [b[1] for b in buf], f"{sub}.planning_buffer",
              lambda: f"step {i}: buffers {p['obs_buf']} {p['act_buf']} vs last {case['buffer_size']} visited pairs {buf}")
        check(p["n"] == case["n_planning"], f"{sub}.n_planning_steps", f"{p['n']}")
        vis, _ = planning_oracle(sub + ".planning", p["q_in"], p["result"], p["trans"], p["rew"], p["obs_buf"],
                                 p["act_buf"], p["n"], case["gamma"], case["lr"], detail=f"[step {i}]")
        plan_vis = plan_vis or vis
        check(bytes_equal(p["result"], tables[i + 1]), f"{sub}.table_after_planning_not_used", f"step {i}")
    labels = ["n_planning=%d" % case["n_planning"], "stochastic-successors" if stochastic else "deterministic",
              "planning-visible" if plan_vis else "planning-invisible"]
    nt = any(v for _, v in flags) and (case["n_planning"] == 0 or plan_vis)
    return Outcome(labels=labels, nontrivial=bool(nt))


def _runs(algo):
    return lambda: run_cases(algo)


_RUN_KW = dict(shrink=False, suppress_too_slow=True, simplify=simplify_run, shards=2, shards_thorough=8)

SUBCHECKS = [
    SubCheck("q_learning", lambda: transition_cases(nd=True), run_q_learning, quick=400, thorough=6000, shards=2,
             rule="bootstrap term lr*gamma*max_a Q(s',a) visible (> 20x tolerance)"),
    SubCheck("sarsa", lambda: transition_cases(with_next_action=True, nd=True), run_sarsa, quick=400, thorough=6000, shards=2,
             rule="bootstrap term lr*gamma*Q(s',a') visible"),
    SubCheck("double_q", lambda: transition_cases(two_tables=True, nd=True), run_double_q, quick=500, thorough=8000, shards=2,
             rule="bootstrap term visible and (terminated, or selection at s' vs at s distinguishable)"),
    SubCheck("monte_carlo", mc_cases, run_mc, quick=300, thorough=6000, shards=2, cost=1.5,
             rule="episode of length >= 2 with a pair visited twice with different returns, gamma > 0"),
    SubCheck("dynaq_update", lambda: transition_cases(with_term=False), run_dynaq_update, quick=300, thorough=6000,
             shards=2, rule="bootstrap term visible"),
    SubCheck("dynaq_model", history_cases, run_dynaq_model, quick=300, thorough=6000, shards=3, cost=3.0,
             rule="some (s,a) observed with >= 2 different successors"),
    SubCheck("dynaq_planning", planning_cases, run_dynaq_planning, quick=200, thorough=4000, shards=3, cost=4.0,
             rule=">= 1 planning step, >= 2 distinct buffered pairs, bootstrap visible"),
    SubCheck("run_q_learning", _runs("q_learning"), run_run_q_learning, quick=20, thorough=200, cost=40.0,
             rule="run with a visible terminated step and a visible bootstrap step", **_RUN_KW),
    SubCheck("run_sarsa", _runs("sarsa"), run_run_sarsa, quick=20, thorough=200, cost=40.0,
             rule="run with a visible terminated step and a visible bootstrap step", **_RUN_KW),
    SubCheck("run_monte_carlo", _runs("monte_carlo"), run_run_mc, quick=10, thorough=200, cost=60.0,
             rule=">= 1 finished episode and an entry visited more than once", **_RUN_KW),
    SubCheck("run_double_q", _runs("double_q"), run_run_double_q, quick=20, thorough=200, cost=50.0,
             rule="run with a visible terminated step and a visible bootstrap step", **_RUN_KW),
    SubCheck("run_dynaq", _runs("dynaq"), run_run_dynaq, quick=10, thorough=200, cost=120.0,
             rule="visible direct update and (no planning or a visible planning update)", **_RUN_KW),
]
