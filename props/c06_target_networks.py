"""C06 Target networks follow the Polyak / hard-copy law, only at update points.

(i)  function level: ``soft_target_net_update`` / ``hard_target_net_update``
     on generated parameter trees of every module type used as a target;
(ii) history level: every training routine that maintains targets, observed
     through the env ``on_step`` callback and the logger callbacks.

Oracles are written from the docstrings (``theta' <- tau*theta + (1-tau)*theta'``,
"completely replaces the weights of the target network with the weights of the
live network") and the cadence sentences of the training routines; see
DESIGN.md §5 C06 and §11.
"""
import numpy as np
from hypothesis import strategies as st

from vlib import gen
from vlib.core import Outcome, SubCheck, check

PROPERTY = "C06"
RULE = (
    "Function level: a module kind (MLP, LayerNormMLP, tanh policy, double-Q over MLP / LayerNormMLP / "
    "CriticSALE, SALE, SALE policy, model-based encoder, encoder+policy) with every leaf re-drawn from "
    "seeds, then a generated sequence of 1-4 soft (tau in [0,1] incl. 0, 1) / hard updates with the online "
    "tree re-drawn between updates; non-trivial = at least 2 updates that are observable (online != "
    "target, not tau=0) with an online change between them. History level: a training routine with "
    "generated episode script, learning_starts, delays, tau, gradient steps, batch size, seeds, target "
    "supplied or None; the supplied targets are fresh clones of the online networks or (target_offset, "
    "~40 % of the cases of every routine) clones with every parameter leaf changed (0.5*x + c), as a caller "
    "holds them after earlier training; in 40 % of the histories of the routines with two target arguments only "
    "one of them is supplied; MR.Q additionally as two calls, the second continuing exactly on a "
    "target-period boundary with what the first returned (split); the timeline starts with the state handed "
    "to the routine; non-trivial = at least 2 observed target updates with at least one online update "
    "between them. Distinct = distinct canonical case."
)
ASSUMPTIONS = [
    "float32 parameters (library default); Polyak reference computed in float64 from the float32 "
    "operands with tau and 1-tau rounded to float32, tolerance 2 ulp of the largest term",
    "generated parameter values are finite, not subnormal, not -0.0 and of magnitude <= 1e30 (tau in {0,1} "
    "compared by value, hard copies bytewise); at |x| > 1.7e38 the compiled update overflows for tau = 0.5 "
    "(0.5*a + 0.5*b is evaluated as 0.5*(a+b)), which is outside any parameter range a network reaches",
    "history level: delays 1-7, <= 100 environment steps, hidden layers [4]",
]


# ----------------------------------------------------------------- oracles

def polyak_within(new, online, target, tau, ulps=2.0):
    """new == tau*online + (1-tau)*target within ``ulps`` float32 ulp of the
    largest term (elementwise).  Returns (ok, worst ulp error)."""
    new = np.asarray(new)
    if new.shape != np.shape(online) or new.shape != np.shape(target):
        return False, float("inf")
    if new.dtype != np.float32:
        # non-float leaves (none in the modules used) must follow exactly
        ref = tau * np.asarray(online, dtype=np.float64) + (1.0 - tau) * np.asarray(target, dtype=np.float64)
        ok = bool(np.array_equal(np.asarray(new, dtype=np.float64), ref))
        return ok, 0.0 if ok else float("inf")
    on = np.asarray(online, dtype=np.float64)
    tg = np.asarray(target, dtype=np.float64)
    n64 = new.astype(np.float64)
    t32 = float(np.float32(tau))
    worst = np.inf
    ok_any = False
    # 1-tau may be formed in double and rounded, or formed in float32
    for u32 in {float(np.float32(1.0 - tau)), float(np.float32(1.0) - np.float32(tau))}:
        a = t32 * on
        b = u32 * tg
        ref = a + b
        mag = np.maximum(np.maximum(np.abs(a), np.abs(b)), np.abs(ref))
        ulp = np.spacing(np.maximum(mag, 1.1754944e-38).astype(np.float32)).astype(np.float64)
        # XLA CPU flushes subnormal products / sums to zero: each of the two
        # products and the sum may lose up to the smallest normal number
        with np.errstate(invalid="ignore", over="ignore"):
            err = np.maximum(np.abs(n64 - ref) - 3 * 1.1754944e-38, 0.0) / ulp
        # diverged training: a non-finite reference must be matched in kind
        nf = ~np.isfinite(ref)
        if nf.any():
            same_kind = (np.isnan(ref) & np.isnan(n64)) | (ref == n64)
            err = np.where(nf, np.where(same_kind, 0.0, np.inf), err)
        w = float(err.max()) if err.size else 0.0
        if not np.isfinite(w):
            w = float("inf")
        worst = min(worst, w)
        ok_any = ok_any or w <= ulps
    return ok_any, worst


def tree_polyak(new, online, target, tau):
    """Leaf-by-leaf Polyak check over {path: array}; returns list of bad paths
    with their ulp error."""
    bad = []
    if set(new) != set(online) or set(new) != set(target):
        return [("<structure>", sorted(set(new) ^ set(online) ^ set(target))[:4])]
    for k in new:
        if tau == 1.0:
            ok = bool(np.array_equal(new[k], online[k]))
            w = 0.0 if ok else float("inf")
        elif tau == 0.0:
            ok = bool(np.array_equal(new[k], target[k]))
            w = 0.0 if ok else float("inf")
        else:
            ok, w = polyak_within(new[k], online[k], target[k], tau)
        if not ok:
            bad.append((k, w))
    return bad


def bytes_of(arrs):
    return {k: (str(v.dtype), v.shape, v.tobytes()) for k, v in arrs.items()}


def same_bytes(a, b):
    return set(a) == set(b) and all(
        a[k].dtype == b[k].dtype and a[k].shape == b[k].shape and a[k].tobytes() == b[k].tobytes() for k in a)


def diff_paths(a, b):
    out = []
    for k in sorted(set(a) | set(b)):
        if k not in a or k not in b or a[k].shape != b[k].shape or a[k].tobytes() != b[k].tobytes():
            out.append(k)
    return out


# ---------------------------------------------------------- function level

FN_KINDS = ["mlp", "lnmlp", "tanh_policy", "dq_mlp", "dq_ln", "dq_sale", "sale", "sale_policy",
            "mbe", "mbe_policy"]
HIDDEN_POOL = [[], [4], [5, 3]]


def build_module(kind, hidden, seed=0):
    """Fresh module of the requested kind (sizes tiny; values are overwritten)."""
    import gymnasium as gym
    from flax import nnx

    from rl_blox.blox.double_qnet import ContinuousClippedDoubleQNet
    from rl_blox.blox.embedding.model_based_encoder import (
        ModelBasedEncoder,
        create_model_based_encoder_and_policy,
    )
    from rl_blox.blox.embedding.sale import SALE, ActorSALE, CriticSALE, DeterministicSALEPolicy
    from rl_blox.blox.function_approximator.layer_norm_mlp import LayerNormMLP
    from rl_blox.blox.function_approximator.mlp import MLP
    from rl_blox.blox.function_approximator.policy_head import DeterministicTanhPolicy

    rngs = nnx.Rngs(seed)
    hidden = list(hidden)
    box = gym.spaces.Box(np.array([-1.0, -0.5], dtype=np.float32), np.array([2.0, 0.5], dtype=np.float32))
    if kind == "mlp":
        return MLP(3, 2, hidden, "relu", rngs)
    if kind == "lnmlp":
        return LayerNormMLP(3, 2, hidden, "elu", rngs=rngs)
    if kind == "tanh_policy":
        return DeterministicTanhPolicy(MLP(3, 2, hidden, "relu", rngs), box)
    if kind == "dq_mlp":
        return ContinuousClippedDoubleQNet(MLP(5, 1, hidden, "relu", rngs), MLP(5, 1, hidden, "relu", rngs))
    if kind == "dq_ln":
        return ContinuousClippedDoubleQNet(LayerNormMLP(4, 1, hidden, "elu", rngs=rngs),
                                           LayerNormMLP(4, 1, hidden, "elu", rngs=rngs))
    if kind == "dq_sale":
        def critic():
            return CriticSALE(MLP(3 + 2 * 2, 1, hidden, "elu", rngs), 3, 2, 3, rngs)
        return ContinuousClippedDoubleQNet(critic(), critic())

    def sale():
        return SALE(MLP(3, 2, hidden, "elu", rngs), MLP(2 + 2, 2, hidden, "elu", rngs))
    if kind == "sale":
        return sale()
    if kind == "sale_policy":
        actor = ActorSALE(DeterministicTanhPolicy(MLP(3 + 2, 2, hidden, "relu", rngs), box), 3, 3, rngs)
        return DeterministicSALEPolicy(sale(), actor)
    if kind == "mbe":
        return ModelBasedEncoder(n_state_features=3, n_action_features=2, n_bins=5, zs_dim=3, za_dim=2,
                                 zsa_dim=3, hidden_nodes=hidden, activation="elu",
                                 encoder_activation_in_last_layer=False, rngs=rngs)
    if kind == "mbe_policy":
        return create_model_based_encoder_and_policy(
            n_state_features=3, n_action_features=2, action_space=box, policy_hidden_nodes=hidden,
            encoder_n_bins=5, encoder_zs_dim=3, encoder_za_dim=2, encoder_zsa_dim=3,
            encoder_hidden_nodes=hidden, rngs=rngs)
    raise ValueError(kind)


_PROTOTYPES = {}


def fresh_module(kind, hidden, seed=0):
    """A new module object (own nnx.Variables) per call; construction through
    the real constructors happens once per (kind, hidden) and process, later
    calls clone the prototype (all values are overwritten by fill_module)."""
    from flax import nnx

    key = (kind, tuple(hidden), seed)
    if key not in _PROTOTYPES:
        _PROTOTYPES[key] = build_module(kind, hidden, seed)
    return nnx.clone(_PROTOTYPES[key])


def fill_module(module, seed, scale, specials=()):
    """Overwrite every state leaf with generated values (pure function of the
    arguments).  ``specials``: [leaf index, flat position, value] entries."""
    import jax
    import jax.numpy as jnp
    from flax import nnx

    state = nnx.state(module)
    leaves, treedef = jax.tree_util.tree_flatten(state)
    new = []
    for i, leaf in enumerate(leaves):
        a = gen.rng_array(int(seed) + 7919 * i, np.shape(leaf), scale)
        a = np.where(np.abs(a) < 1e-30, 0.0, a).astype(np.float32)
        new.append(a)
    for li, pos, val in specials:
        a = new[li % len(new)]
        if a.size:
            a.reshape(-1)[pos % a.size] = np.float32(val)
    new = [jnp.asarray(a, dtype=jnp.asarray(l).dtype) for a, l in zip(new, leaves)]
    nnx.update(module, jax.tree_util.tree_unflatten(treedef, new))


TAU_POOL = [0.0, 1.0, 0.005, 0.3, 0.5, 0.995]
SCALES = [1e-3, 1.0, 1.0, 30.0, 1e4]


@st.composite
def fn_cases(draw):
    kind = draw(st.sampled_from(FN_KINDS))
    hidden = draw(st.sampled_from(HIDDEN_POOL))
    n_ops = draw(st.sampled_from([1, 2, 2, 3, 3, 3, 4, 4]))
    tau_st = st.sampled_from(TAU_POOL) if gen.tier() == "quick" else st.one_of(
        st.sampled_from(TAU_POOL), gen.f32(0.0, 1.0))
    if gen.tier() == "quick":
        # tau is a static jit argument: every new value is a compilation
        tau_st = st.one_of(tau_st, tau_st, tau_st, gen.f32(0.0, 1.0))
    ops = []
    for _ in range(n_ops):
        op = draw(st.sampled_from(["soft", "soft", "hard"]))
        ops.append({
            "op": op,
            "tau": draw(tau_st) if op == "soft" else None,
            # how the online tree is re-drawn before this update
            "online": draw(st.sampled_from(["redraw"] * 5 + ["keep", "equal_target"])),
            "seed": draw(gen.seeds()),
            "scale": draw(st.sampled_from(SCALES)),
        })
    ops[0]["online"] = "redraw"
    specials = draw(st.lists(st.tuples(
        st.integers(0, 40), st.integers(0, 200),
        st.one_of(st.just(0.0), st.sampled_from([1.0, -1.0, 1e30, -1e30, 1e-30, 16777216.0]), gen.f32(-1e3, 1e3))),
        max_size=4))
    return {"kind": kind, "hidden": hidden, "ops": ops,
            "target_seed": draw(gen.seeds()), "target_scale": draw(st.sampled_from(SCALES)),
            "specials": [list(s) for s in specials]}


def run_fn(case):
    from rl_blox.blox.target_net import hard_target_net_update, soft_target_net_update
    from vlib.instruments import shares_storage, state_arrays

    online = fresh_module(case["kind"], case["hidden"], 0)
    target = fresh_module(case["kind"], case["hidden"], 1)
    fill_module(target, case["target_seed"], case["target_scale"], case["specials"])
    check(not shares_storage(online, target), "fn.harness.fresh_modules_share", "")
    labels = [case["kind"]]
    observable = []  # per op: (observable?, online changed since previous op?)
    prev_online = None
    for i, op in enumerate(case["ops"]):
        if op["online"] == "redraw":
            fill_module(online, op["seed"], op["scale"], case["specials"][::-1])
        elif op["online"] == "equal_target":
            from flax import nnx
            import jax
            nnx.update(online, jax.tree_util.tree_map(lambda x: x, nnx.state(target)))
        on0 = state_arrays(online)
        tg0 = state_arrays(target)
        changed_online = prev_online is None or not same_bytes(prev_online, on0)
        if op["op"] == "soft":
            tau = float(op["tau"])
            ret = soft_target_net_update(online, target, tau)
            name = "soft"
        else:
            tau = 1.0
            ret = hard_target_net_update(online, target)
            name = "hard"
        check(ret is None, f"fn.{name}.returns_none", f"returned {type(ret).__name__}")
        on1 = state_arrays(online)
        tg1 = state_arrays(target)
        check(same_bytes(on0, on1), f"fn.{name}.online_changed",
              lambda: f"{case['kind']} op {i}: online leaves changed {diff_paths(on0, on1)[:3]}")
        check(set(tg1) == set(tg0) and all(tg1[k].shape == tg0[k].shape and tg1[k].dtype == tg0[k].dtype for k in tg0),
              f"fn.{name}.target_structure", lambda: f"{sorted(set(tg1) ^ set(tg0))[:3]}")
        if op["op"] == "hard":
            check(same_bytes(tg1, on0), "fn.hard.not_equal_online",
                  lambda: f"{case['kind']} op {i}: leaves differing from online {diff_paths(tg1, on0)[:3]}")
        else:
            bad = tree_polyak(tg1, on0, tg0, tau)
            clause = "fn.soft.tau1_not_online" if tau == 1.0 else (
                "fn.soft.tau0_not_noop" if tau == 0.0 else "fn.soft.polyak")
            check(not bad, clause, lambda: f"{case['kind']} op {i} tau={tau}: {bad[:3]}")
            labels.append("tau=%s" % ("0" if tau == 0 else "1" if tau == 1 else "mid"))
        check(not shares_storage(online, target), f"fn.{name}.shares_storage",
              f"{case['kind']} op {i}: target and online share nnx.Variable objects")
        obs = (not same_bytes(on0, tg0)) and not (op["op"] == "soft" and tau == 0.0)
        observable.append((obs, changed_online))
        labels.append(name)
        prev_online = on1
    # storage independence by mutation: rewriting the online tree afterwards
    # must leave the target as it is (and vice versa)
    tg_before = state_arrays(target)
    fill_module(online, case["target_seed"] ^ 0x5A5A, 2.0)
    check(same_bytes(tg_before, state_arrays(target)), "fn.storage.target_follows_online_mutation",
          f"{case['kind']}: target changed when online was rewritten after the update")
    on_before = state_arrays(online)
    fill_module(target, case["target_seed"] ^ 0x3C3C, 2.0)
    check(same_bytes(on_before, state_arrays(online)), "fn.storage.online_follows_target_mutation",
          f"{case['kind']}: online changed when target was rewritten after the update")
    n_obs = sum(1 for o, _ in observable if o)
    nt = n_obs >= 2 and any(o and c for (o, c) in observable[1:])
    labels.append("ops=%d" % len(case["ops"]))
    return Outcome(labels=sorted(set(labels)), nontrivial=nt)



# ----------------------------------------------------------- history level
#
# A timeline (vlib.routines_c06.Recorder) is a list of observations, each with
# a snapshot of every watched module.  A *transition* is a pair of consecutive
# observations.  Per (target, online) pair:
#
#   (a) a transition in which the target's bytes change must be exactly the
#       documented rule applied to the previous target and the online network
#       of that moment (hard: equal to online; soft: Polyak within 2 ulp);
#   documented-slot cadence (DDPG: every gradient step; TD3/TD3+LAP: gradient
#       steps of steps t >= learning_starts with t % policy_delay == 0):
#       in a slot the rule must hold, outside slots the target is byte-identical;
#   phase-free cadence (DESIGN §11: Nature-DQN, DDQN, PER, SAC in environment
#       steps; TD7, MR.Q in training epochs):
#   (b) all observed changes fall on one residue class mod k, at most one per
#       unit, and in every unit of that class from the first learning unit on
#       the rule holds (a hard copy of an unchanged online net is a no-op and
#       counts as holding);
#   (c) hence the first update is no later than k units after learning starts;
#   (d) no change in a step before ``learning_starts``;
#   (e) no change between the hand-over of the networks to the routine ("init"
#       observation, taken right before every call) and the first environment
#       step of that call: every documented update point lies behind a
#       gradient step of an environment step.  With ``target_offset`` the
#       supplied targets differ from the online networks in every leaf, so a
#       copy at call start is visible to (d), (e) and the slot cadence; the
#       'target=None twin' is compared only when the targets start as clones.
#
# "Online network of that moment": the routines update the online network
# before the target inside one step and call the logger afterwards, so the
# first observation after the update shows the online parameters that were
# used ("after"); MR.Q copies first and trains afterwards ("before": the
# online parameters at the observation preceding the change); TD7's
# fixed_embedding_target receives the *previous* fixed_embedding ("before").

HARD, SOFT = "hard", "soft"

SPECS = {
    "nature_dqn": {"pairs": [("q_target", "q", HARD, "after")], "units": "steps", "cadence": "free"},
    "ddqn": {"pairs": [("q_target", "q", HARD, "after")], "units": "steps", "cadence": "free"},
    "per": {"pairs": [("q_target", "q", HARD, "after")], "units": "steps", "cadence": "free"},
    "ddpg": {"pairs": [("policy_target", "policy", SOFT, "after"), ("q_target", "q", SOFT, "after")],
             "units": "steps", "cadence": "slots", "block_key": "q loss"},
    "td3": {"pairs": [("policy_target", "policy", SOFT, "after"), ("q_target", "q", SOFT, "after")],
            "units": "steps", "cadence": "slots", "block_key": "q loss"},
    "td3_lap": {"pairs": [("policy_target", "policy", SOFT, "after"), ("q_target", "q", SOFT, "after")],
                "units": "steps", "cadence": "slots", "block_key": "q loss"},
    "sac": {"pairs": [("q_target", "q", SOFT, "after")], "units": "steps", "cadence": "free"},
    "td7": {"pairs": [("policy_target", "policy", HARD, "after"), ("q_target", "q", HARD, "after"),
                      ("fixed_embedding_target", "fixed_embedding", HARD, "before"),
                      ("fixed_embedding", "embedding", HARD, "after")],
            "units": "epochs", "cadence": "free", "block_key": "embedding loss", "sync": True},
    "mrq": {"pairs": [("policy_with_encoder_target", "policy_with_encoder", HARD, "before"),
                      ("q_target", "q", HARD, "before")],
            "units": "steps", "cadence": "free"},
}


def _describe(o):
    return f"{o['kind']}:{o['key']}@t={o['t']}"


class PairView:
    """Lazy per-transition facts for one (target, online) pair."""

    def __init__(self, obs, target, online, rule, moment, tau):
        self.obs, self.target, self.online = obs, target, online
        self.rule, self.moment, self.tau = rule, moment, tau
        self._changed = {}
        self._ok = {}

    def known(self, i):
        return (i >= 1 and self.target in self.obs[i]["snap"] and self.target in self.obs[i - 1]["snap"]
                and self.online in self.obs[i]["snap"] and self.online in self.obs[i - 1]["snap"])

    def changed(self, i):
        if i not in self._changed:
            self._changed[i] = not same_bytes(self.obs[i - 1]["snap"][self.target], self.obs[i]["snap"][self.target])
        return self._changed[i]

    def rule_ok(self, i):
        if i not in self._ok:
            new = self.obs[i]["snap"][self.target]
            old = self.obs[i - 1]["snap"][self.target]
            on = self.obs[i if self.moment == "after" else i - 1]["snap"][self.online]
            if self.rule == HARD:
                self._ok[i] = same_bytes(new, on)
            else:
                self._ok[i] = not tree_polyak(new, on, old, self.tau)
        return self._ok[i]

    def explain(self, i):
        new = self.obs[i]["snap"][self.target]
        old = self.obs[i - 1]["snap"][self.target]
        on_a = self.obs[i]["snap"][self.online]
        on_b = self.obs[i - 1]["snap"][self.online]
        bits = [f"between {_describe(self.obs[i - 1])} and {_describe(self.obs[i])}",
                f"changed leaves {diff_paths(old, new)[:2]}"]
        if self.rule == HARD:
            bits.append(f"equals online(after)={same_bytes(new, on_a)} online(before)={same_bytes(new, on_b)}")
        else:
            bits.append(f"tau={self.tau}: polyak vs online(after) bad={tree_polyak(new, on_a, old, self.tau)[:2]}; "
                        f"with swapped weights ok={not tree_polyak(new, on_a, old, 1.0 - self.tau)}; "
                        f"equals online={same_bytes(new, on_a)}")
        return "; ".join(bits)


def assign_units(obs, spec):
    units = []
    if spec["units"] == "steps":
        return [o["owner"] for o in obs]
    cnt = 0
    for o in obs:
        if o["kind"] == "stat" and o["key"] == spec["block_key"]:
            cnt += 1
        units.append(cnt)
    return units


def analyse_timeline(algo, cfg, rec, out, priors=None):
    """Apply the C06 history oracle to a recorded timeline.  Returns
    (n_updates_observed, labels)."""
    spec = SPECS[algo]
    obs = rec.obs
    check(len(obs) >= 2, f"{algo}.harness.no_observations", "")
    # modules that the routine creates internally are unknown until the logger
    # is shown them; until then they hold their documented initial value
    for name, arrs in (priors or {}).items():
        for o in obs:
            if name in o["snap"]:
                break
            o["snap"][name] = arrs
    units = assign_units(obs, spec)
    k = int(cfg["target_delay"]) if algo != "ddpg" else 1
    ls = int(cfg["learning_starts"])
    tau = float(cfg.get("tau", 1.0))
    labels = []
    n_updates = 0
    residues_all = {}
    for target, online, rule, moment in spec["pairs"]:
        pv = PairView(obs, target, online, rule, moment, tau)
        idx = [i for i in range(1, len(obs)) if pv.known(i)]
        if cfg.get("supply_only") and target not in obs[0]["snap"]:
            # the argument left at None: the routine creates this target itself and the recorder sees it only
            # once the logger is shown it, i.e. from the middle of a step on.  A timeline that starts there
            # cannot tell a no-op sync from a missed one (false alarm witness
            # replays/regress/C06_hist_mrq_falsealarm_unsupplied_target_first_seen_mid_step.json): only the
            # supplied target is analysed; storage and the final state of both are still checked
            labels.append(f"not-supplied:{target}")
            continue
        if not idx:
            labels.append(f"unobserved:{target}")
            continue
        base = f"{algo}.{target}"
        # (a) every change is the rule
        changes = [i for i in idx if pv.changed(i)]
        for i in changes:
            check(pv.rule_ok(i), f"{base}.change_not_rule", lambda i=i: pv.explain(i))
        # the update never writes into the online network ("without changing
        # the online network"): an online net that becomes byte-equal to the
        # unchanged target was overwritten by it (copy in the wrong direction)
        for i in idx:
            on_new, on_old = obs[i]["snap"][online], obs[i - 1]["snap"][online]
            tg_old = obs[i - 1]["snap"][target]
            if not pv.changed(i) and same_bytes(on_new, tg_old) and not same_bytes(on_old, tg_old):
                check(False, f"{base}.online_overwritten_by_target",
                      f"between {_describe(obs[i - 1])} and {_describe(obs[i])}: {online} became byte-equal to the "
                      f"unchanged {target}")
        # (d) nothing before learning starts
        for i in changes:
            check(obs[i]["owner"] >= ls, f"{base}.cadence.change_before_learning_starts",
                  lambda i=i: f"learning_starts={ls} batch_size={cfg['batch_size']}: {pv.explain(i)}")
        # (e) nothing between the hand-over to the routine and its first environment step
        for i in changes:
            check(obs[i - 1]["kind"] != "init", f"{base}.cadence.change_at_call_start",
                  lambda i=i: f"global_step={obs[i]['t']} learning_starts={ls} delay={k}: the supplied {target} "
                              f"changed before the first environment step of the call: {pv.explain(i)}")
        n_updates = max(n_updates, len(changes))
        if spec["cadence"] == "slots":
            gs_seen = {}
            for i in idx:
                o = obs[i]
                slot = (o["kind"] == "stat" and o["key"] == spec["block_key"] and o["t"] >= ls and o["t"] % k == 0)
                if slot:
                    gs_seen[o["t"]] = gs_seen.get(o["t"], 0) + 1
                    check(pv.rule_ok(i), f"{base}.cadence.missed_update",
                          lambda i=i: f"delay={k} learning_starts={ls}: documented update point shows no rule "
                                      f"application: {pv.explain(i)}")
                else:
                    check(not pv.changed(i), f"{base}.cadence.change_off_schedule",
                          lambda i=i: f"delay={k} learning_starts={ls}: {pv.explain(i)}")
            if gs_seen:
                labels.append("slots>=2" if sum(gs_seen.values()) >= 2 else "slots<2")
            continue
        # phase-free cadence
        by_unit = {}
        for i in idx:
            by_unit.setdefault(units[i], []).append(i)
        change_units = sorted({units[i] for i in changes})
        for u in change_units:
            n = sum(1 for i in by_unit[u] if pv.changed(i))
            check(n == 1, f"{base}.cadence.multiple_updates_in_unit",
                  lambda u=u, n=n: f"{n} changes in {spec['units'][:-1]} {u} (delay={k})")
        residues = sorted({u % k for u in change_units})
        check(len(residues) <= 1, f"{base}.cadence.off_period",
              lambda: f"delay={k}: target changed in {spec['units']} {change_units[:12]} (not one residue class)")
        # first unit in which the online network was trained
        on_changed_units = sorted({units[i] for i in idx if not same_bytes(
            obs[i - 1]["snap"][online], obs[i]["snap"][online])})
        if spec["units"] == "epochs":
            learn_units = [u for u in sorted(by_unit) if u >= 1]
        else:
            first = min(on_changed_units) if on_changed_units else None
            learn_units = [u for u in sorted(by_unit) if first is not None and u >= first]
        cands = []
        for p in (residues if residues else range(k)):
            if all(any(pv.rule_ok(i) for i in by_unit[u]) for u in learn_units if u % k == p):
                cands.append(p)
        if residues:
            check(bool(cands), f"{base}.cadence.missed_update",
                  lambda: f"delay={k}: changes in {spec['units']} {change_units[:12]} but no rule application in "
                          f"{[u for u in learn_units if u % k == residues[0] and not any(pv.rule_ok(i) for i in by_unit[u])][:6]}")
        elif len(learn_units) >= k:
            check(bool(cands), f"{base}.cadence.no_update_within_k",
                  lambda: f"delay={k}: {len(learn_units)} learning {spec['units']} without any target update")
        residues_all[target] = residues
        labels.append("updates>=2" if len(change_units) >= 2 else f"updates={len(change_units)}")
    if spec.get("sync"):
        rs = sorted({r for v in residues_all.values() for r in v})
        check(len(rs) <= 1, f"{algo}.cadence.targets_out_of_sync",
              lambda: f"target_delay={k}: residues per target {residues_all}")
    return n_updates, labels


def check_storage(algo, out, tag):
    from vlib.instruments import shares_storage

    for name, pair in out["pairs_final"].items():
        if pair is None:
            continue
        tgt, onl = pair
        check(not shares_storage(tgt, onl), f"{algo}.{name}.shares_storage",
              f"{tag}: returned {name} shares nnx.Variable objects with its source network")
    # the caller's online networks must not be aliased by any returned target
    for gname, given in out.get("given_online", {}).items():
        for name, pair in out["pairs_final"].items():
            if pair is None:
                continue
            check(not shares_storage(pair[0], given), f"{algo}.{name}.shares_storage",
                  f"{tag}: returned {name} shares nnx.Variable objects with the online network {gname}")


def check_twin(algo, out_a, out_b):
    """'target = None' run (b) against the 'target supplied' twin (a)."""
    from vlib.instruments import state_arrays

    for name in out_a["final_watch"]:
        a = state_arrays(out_a["final_watch"][name])
        b = state_arrays(out_b["final_watch"][name])
        check(same_bytes(a, b), f"{algo}.{name}.none_twin_differs",
              lambda: f"target=None run returned a {name} that differs from the target-supplied twin in "
                      f"{diff_paths(a, b)[:3]}")


def td7_priors(out):
    ini = out["initial"]
    return {"fixed_embedding": ini["embedding"], "fixed_embedding_target": ini["embedding"],
            "fixed_embedding_checkpoint": ini["embedding"], "actor_checkpoint": ini["policy"]}


def check_td7_checkpoints(cfg, rec):
    """Checkpoint copies only when a *_checkpoint epoch is recorded, and then
    equal to their source (actor / fixed embedding) of that moment."""
    obs = rec.obs
    src = {"actor_checkpoint": "policy", "fixed_embedding_checkpoint": "fixed_embedding"}
    n_ck = 0
    for name, s in src.items():
        for i in range(1, len(obs)):
            if name not in obs[i]["snap"] or name not in obs[i - 1]["snap"]:
                continue
            o = obs[i]
            at_epoch = o["kind"] == "epoch" and o["key"] in src
            changed = not same_bytes(obs[i - 1]["snap"][name], o["snap"][name])
            if at_epoch and o["key"] == name:
                n_ck += 1
                check(cfg["use_checkpoints"], "td7.checkpoint.recorded_without_use_checkpoints", _describe(o))
                check(same_bytes(o["snap"][name], o["snap"][s]), f"td7.{name}.not_copy_of_source",
                      lambda: f"at {_describe(o)}: {name} differs from {s} in "
                              f"{diff_paths(o['snap'][name], o['snap'][s])[:3]}")
            elif not at_epoch:
                check(not changed, f"td7.{name}.change_without_checkpoint_epoch",
                      lambda: f"between {_describe(obs[i - 1])} and {_describe(o)}"
                              + (" (returned module differs from last recorded checkpoint)" if o["kind"] == "final" else ""))
    return n_ck


# -- generators

def _script(draw, min_first=1):
    n = draw(st.integers(2, 6))
    eps = []
    for j in range(n):
        length = draw(st.sampled_from([1, 1, 2, 3, 4, 5, 7, 9, 12]))
        if j == 0:
            length = max(length, min_first)
        eps.append([length, draw(st.sampled_from(["term", "trunc"]))])
    return eps


TAUS = [0.005, 0.3, 0.5, 0.3, 0.005, 1.0, 0.9, 0.0]


def history_cases(algo):
    @st.composite
    def cases(draw):
        quick = gen.tier() == "quick"
        # batch size 1 is rejected loudly by the continuous-control losses (shape assertions; C03 allows
        # that), so it is in the domain of the DQN family only
        sizes = [1, 2, 3, 5, 8] if algo in ("nature_dqn", "ddqn", "per") else [2, 3, 5, 8]
        bs = draw(st.sampled_from([2, 5] if quick else sizes))
        k = draw(st.integers(1, 7))
        if algo == "mrq":
            # batch size and target_delay are static shapes of the encoder update: one compilation each
            k = draw(st.sampled_from([1, 2, 3, 5] if quick else [1, 2, 3, 4, 5, 7]))
            if quick:
                bs = 2
        ls = draw(st.one_of(st.integers(0, 12), st.integers(0, 30)))
        g = draw(st.sampled_from([0, 0, 0, 3, 10]))
        cfg = {"algo": algo, "batch_size": bs, "target_delay": k, "learning_starts": ls, "global_step": g,
               "seed": draw(st.integers(0, 1000)), "env_seed": draw(st.integers(0, 1000)),
               "net_seed": draw(st.integers(0, 1000)), "lr": 1e-2, "buffer_size": draw(st.sampled_from([200, 200, 16])),
               "twin": draw(st.booleans())}
        min_first = 1
        start = max(ls, g)
        if algo in ("nature_dqn", "ddqn", "per"):
            cfg["update_frequency"] = draw(st.integers(1, 4))
            start = max(g, bs + 1, ls)  # the routines train when step >= learning_starts and step > batch_size
        if algo in ("ddpg", "td3", "td3_lap", "sac"):
            cfg["tau"] = draw(st.sampled_from(TAUS))
        if algo in ("ddpg", "td3", "td3_lap"):
            cfg["gradient_steps"] = draw(st.sampled_from([1, 1, 2]))
        if algo in ("sac", "td7"):
            cfg["policy_delay"] = draw(st.integers(1, 3))
        if algo == "td7":
            cfg["use_checkpoints"] = draw(st.booleans())
            cfg["steps_before_checkpointing"] = draw(st.sampled_from([750_000, 10, 25]))
            cfg["max_episodes_when_checkpointing"] = draw(st.integers(1, 3))
        if algo == "mrq":
            cfg["learning_starts"] = ls = max(ls, 4)
            start = max(ls, g)
            min_first = 4
        n_upd = draw(st.integers(2, 4))
        extra = draw(st.integers(0, 6))
        budget = (start - g) + k * n_upd + extra + 1
        if algo == "td7" and cfg["use_checkpoints"]:
            budget += 12  # training is deferred to episode ends
        cfg["total_timesteps"] = g + max(1, min(100, budget))
        cfg["script"] = _script(draw, min_first)
        # supplied targets that differ from the online networks (as after earlier training)
        cfg["target_offset"] = draw(st.sampled_from([False, False, False, True, True]))
        if cfg["target_offset"]:
            cfg["twin"] = False  # the twin is defined for targets that start as clones only
        if algo in ("ddpg", "td3", "td3_lap", "td7", "mrq"):
            # the two optional target arguments are independent: only one of them supplied
            cfg["supply_only"] = draw(st.sampled_from([None, "first", None, "second", None]))
            if cfg["supply_only"]:
                cfg["twin"] = False
        if algo == "mrq":
            # two calls: the continuation starts exactly on a target-period boundary
            # ((global_step - learning_starts) % target_delay == 0) with everything the first call returned
            m = draw(st.sampled_from([0, 1, 1, 1, 2]))
            if m and m < n_upd:
                first_boundary = ls + k * ((max(g, ls) - ls) // k + 1)  # first one behind the start of training
                cfg["split"] = first_boundary + k * (m - 1)  # at least one update point left for the second call
        return cfg
    return cases


def simplify_history(case):
    c = dict(case)
    if c.get("split"):
        c0 = dict(c)
        del c0["split"]
        yield c0
        n0 = c["total_timesteps"]
        for m in (c["split"] + (n0 - c["split"]) // 2, n0 - 1):
            if c["split"] < m < n0:
                yield dict(c, total_timesteps=m)
        if len(c["script"]) > 1:
            yield dict(c, script=c["script"][:-1])
        return  # other candidates would move the boundary: they apply to the single-call form
    if c.get("twin"):
        yield dict(c, twin=False)
    if c.get("supply_only"):
        yield dict(c, supply_only=None)
    if c.get("target_offset"):
        yield dict(c, target_offset=False)
    if c.get("global_step", 0) > 0 and c["total_timesteps"] - c["global_step"] >= 1:
        yield dict(c, global_step=0, total_timesteps=c["total_timesteps"] - c["global_step"])
    g = c.get("global_step", 0)
    n = c["total_timesteps"] - g
    for m in (n // 2, n - 5, n - 1):
        if 1 <= m < n:
            yield dict(c, total_timesteps=g + m)
    if c.get("gradient_steps", 1) > 1:
        yield dict(c, gradient_steps=1)
    if c["learning_starts"] > 0:
        yield dict(c, learning_starts=max(4 if c["algo"] == "mrq" else 0, c["learning_starts"] // 2))
    if c["target_delay"] > 1:
        yield dict(c, target_delay=c["target_delay"] - 1)
    if len(c["script"]) > 1:
        yield dict(c, script=c["script"][:-1])
    if c.get("use_checkpoints"):
        yield dict(c, use_checkpoints=False)
    if c["buffer_size"] != 200:
        yield dict(c, buffer_size=200)


def make_run_history(algo):
    def run(case):
        from vlib.routines_c06 import run_history

        cfg = case
        rec, out = run_history(algo, cfg, supply_targets=True, observe=True)
        priors = td7_priors(out) if algo == "td7" else None
        n_updates, labels = analyse_timeline(algo, cfg, rec, out, priors)
        if algo == "td7":
            n_ck = check_td7_checkpoints(cfg, rec)
            labels.append("checkpoints" if cfg["use_checkpoints"] else "no-checkpoints")
            if cfg["use_checkpoints"]:
                labels.append("ckpt-copies>=1" if n_ck else "ckpt-copies=0")
        check_storage(algo, out, "target supplied")
        # supplied targets are updated in place: the caller's objects follow
        for name, m in out["supplied"].items():
            if m is not None and name in out["final_watch"]:
                from vlib.instruments import state_arrays
                check(same_bytes(state_arrays(m), state_arrays(out["final_watch"][name])),
                      f"{algo}.{name}.supplied_target_not_returned",
                      "returned target differs from the supplied target object")
        if cfg.get("twin") and not cfg.get("target_offset"):
            _, out_b = run_history(algo, cfg, supply_targets=False, observe=False)
            check_storage(algo, out_b, "target=None")
            check_twin(algo, out, out_b)
            labels.append("twin")
        labels.append("delay=%s" % ("1" if cfg["target_delay"] == 1 else "2+"))
        if "tau" in cfg:
            labels.append("tau=%s" % ("0" if cfg["tau"] == 0 else "1" if cfg["tau"] == 1 else "mid"))
        if cfg.get("gradient_steps", 1) > 1:
            labels.append("grad_steps=2")
        if cfg.get("global_step", 0) > 0:
            labels.append("continued")
        labels.append("targets=offset" if cfg.get("target_offset") else "targets=clones")
        if cfg.get("supply_only"):
            labels.append("one-target-supplied")
        if cfg.get("split"):
            labels.append("continued-on-period-boundary")
        if algo in ("nature_dqn", "ddqn", "per"):
            labels.append("ls>bs" if cfg["learning_starts"] > cfg["batch_size"] + 1 else "ls<=bs")
        nt = n_updates >= 2
        fp = {k: v for k, v in cfg.items() if k != "twin"}
        return Outcome(labels=sorted(set(labels)), nontrivial=nt, fp=fp)
    return run



# -- TD7 _train_step driven directly with generated epoch numbers

@st.composite
def td7_step_cases(draw):
    quick = gen.tier() == "quick"
    k = draw(st.integers(1, 5))
    n = draw(st.integers(3, 7))
    epochs = []
    for _ in range(n):
        if draw(st.booleans()):
            epochs.append(k * draw(st.integers(1, 6)))
        else:
            epochs.append(draw(st.integers(1, 40)))
    return {"target_delay": k, "policy_delay": draw(st.integers(1, 3)), "epochs": epochs,
            "batch_size": draw(st.sampled_from([2, 5] if quick else [1, 2, 3, 5, 8])),
            "net_seed": draw(st.integers(0, 1000)), "seed": draw(st.integers(0, 1000)),
            "buf_seed": draw(gen.seeds()), "n_buf": draw(st.integers(5, 12)),
            "distinct_start": draw(st.booleans()), "fill_seed": draw(gen.seeds()), "lr": 1e-2}


def run_td7_step(case):
    import jax
    from flax import nnx

    from rl_blox.algorithm.td3 import make_sample_target_actions
    from rl_blox.algorithm.td7 import ValueClippingState, _train_step
    from rl_blox.blox.embedding.sale import DeterministicSALEPolicy
    from rl_blox.blox.replay_buffer import LAP
    from vlib.instruments import shares_storage, state_arrays
    from vlib.routines_c06 import GAMMA, OBS_DIM, _env, td7_states

    cfg = {"script": [[3, "term"]], "env_seed": 0, "seed": case["seed"], "net_seed": case["net_seed"],
           "lr": case["lr"]}
    env = _env(cfg, None, discrete=False)
    s = td7_states(cfg, env)
    actor_target = nnx.clone(s.actor)
    critic_target = nnx.clone(s.critic)
    fe = nnx.clone(s.embedding)
    fet = nnx.clone(s.embedding)
    if case["distinct_start"]:
        # as after some training: every copy holds different values
        fill_module(fe, case["fill_seed"], 0.5)
        fill_module(fet, case["fill_seed"] + 1, 0.5)
        fill_module(actor_target, case["fill_seed"] + 2, 0.5)
        fill_module(critic_target, case["fill_seed"] + 3, 0.5)
        # non-parameter variables (action scale / bias) keep their real values
        nnx.update(actor_target, nnx.state(s.actor, nnx.Not(nnx.Param)))
    policy = DeterministicSALEPolicy(fe, s.actor)
    policy_target = DeterministicSALEPolicy(fet, actor_target)
    sample_target_actions = make_sample_target_actions(env.action_space, 0.2, 0.5)
    rb = LAP(64)
    n = case["n_buf"]
    ob = gen.rng_array(case["buf_seed"], (n + 1, OBS_DIM), 1.0)
    ac = np.clip(gen.rng_array(case["buf_seed"] + 1, (n, 1), 0.7), -1, 1)
    rw = gen.rng_array(case["buf_seed"] + 2, (n,), 1.0)
    for j in range(n):
        rb.add_sample(observation=ob[j], action=ac[j], reward=float(rw[j]), next_observation=ob[j + 1],
                      termination=bool(j % 4 == 3))
    vcs = ValueClippingState()
    rng = np.random.default_rng(case["seed"])
    mods = {"embedding": s.embedding, "policy": s.actor, "q": s.critic, "policy_target": actor_target,
            "q_target": critic_target, "fixed_embedding": fe, "fixed_embedding_target": fet}
    rules = [("policy_target", "policy", "after"), ("q_target", "q", "after"),
             ("fixed_embedding_target", "fixed_embedding", "before"), ("fixed_embedding", "embedding", "after")]
    k = case["target_delay"]
    n_upd = 0
    for j, epoch in enumerate(case["epochs"]):
        before = {n_: state_arrays(m) for n_, m in mods.items()}
        key = jax.random.key(case["seed"] * 131 + j)
        metrics, shown = _train_step(
            sample_target_actions, s.embedding, s.embedding_optimizer, s.critic, critic_target,
            s.critic_optimizer, policy, policy_target, s.actor_optimizer, vcs, rb, epoch, key, rng, GAMMA,
            case["batch_size"], case["policy_delay"], k, 0.4, 1.0)
        after = {n_: state_arrays(m) for n_, m in mods.items()}
        upd = epoch % k == 0
        n_upd += upd
        check(not same_bytes(before["embedding"], after["embedding"]) and not same_bytes(before["q"], after["q"]),
              "td7_step.harness.online_not_trained", f"epoch {epoch}")
        for tgt, src, moment in rules:
            if upd:
                ref = (after if moment == "after" else before)[src]
                check(same_bytes(after[tgt], ref), f"td7_step.{tgt}.not_copy_at_update_epoch",
                      lambda: f"epoch={epoch} target_delay={k}: {tgt} differs from {src}({moment}) in "
                              f"{diff_paths(after[tgt], ref)[:3]}; equals {src}(after)={same_bytes(after[tgt], after[src])} "
                              f"{src}(before)={same_bytes(after[tgt], before[src])} embedding(after)="
                              f"{same_bytes(after[tgt], after['embedding']) if 'embedding' in tgt else None}")
                check(tgt in shown and shown[tgt] is mods[tgt], f"td7_step.{tgt}.not_reported_in_epochs",
                      f"epoch={epoch}: keys {sorted(shown)}")
            else:
                check(same_bytes(after[tgt], before[tgt]), f"td7_step.{tgt}.changed_off_epoch",
                      lambda: f"epoch={epoch} target_delay={k}: {tgt} changed in {diff_paths(after[tgt], before[tgt])[:3]}")
                check(tgt not in shown, f"td7_step.{tgt}.reported_without_update", f"epoch={epoch}: keys {sorted(shown)}")
        for tgt, src, _ in rules:
            check(not shares_storage(mods[tgt], mods[src]), f"td7_step.{tgt}.shares_storage", f"epoch={epoch}")
    labels = ["updates>=2" if n_upd >= 2 else f"updates={n_upd}",
              "distinct-start" if case["distinct_start"] else "cloned-start",
              "delay=1" if k == 1 else "delay=2+"]
    if 0 < n_upd < len(case["epochs"]):
        labels.append("mixed-epochs")
    return Outcome(labels=labels, nontrivial=n_upd >= 2)


def simplify_td7_step(case):
    if len(case["epochs"]) > 1:
        for j in range(len(case["epochs"])):
            yield dict(case, epochs=case["epochs"][:j] + case["epochs"][j + 1:])
    if case["distinct_start"]:
        yield dict(case, distinct_start=False)


HISTORY_BUDGET = {  # algo: (quick, thorough, cost)
    "nature_dqn": (12, 120, 3.0), "ddqn": (12, 120, 3.0), "per": (12, 120, 3.0),
    "ddpg": (6, 60, 8.0), "td3": (6, 60, 8.0), "td3_lap": (6, 60, 8.0), "sac": (6, 60, 8.0),
    "td7": (6, 60, 14.0), "mrq": (5, 50, 20.0),
}

SUBCHECKS = [
    SubCheck("fn_update", fn_cases, run_fn, quick=240, thorough=4000, shards=3, cost=0.2,
             rule=">= 2 observable updates (online != target, tau != 0) with an online change between them"),
]
SUBCHECKS.append(SubCheck(
    "td7_train_step", td7_step_cases, run_td7_step, quick=10, thorough=120, shards=1, shards_thorough=8,
    shrink=False, suppress_too_slow=True, simplify=simplify_td7_step, cost=10.0,
    rule=">= 2 calls with epoch % target_delay == 0 (every call trains the online networks)"))
for _algo, (_q, _t, _c) in HISTORY_BUDGET.items():
    SUBCHECKS.append(SubCheck(
        "hist_" + _algo, history_cases(_algo), make_run_history(_algo), quick=_q, thorough=_t, shards=1,
        shards_thorough=8, shrink=False, suppress_too_slow=True, simplify=simplify_history, cost=_c,
        rule=">= 2 observed target updates (with an online update between them)"))
