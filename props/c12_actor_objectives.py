"""C12 Actor objectives have the documented value and gradient.

Every objective is evaluated through the real rl_blox function (and, where one
exists, the real update wrapper) and compared with

* a float64 value reference built from closed-form head formulas applied to
  the float32 network outputs, and
* a gradient reference obtained from an independently written objective:
  per-sample Jacobians of *our* log-density / value formulas (jax.jacrev)
  contracted in float64 with the documented per-sample coefficients, or
  jax.grad of our own objective for the pathwise (DPG / SAC) losses;
* for ``update_ppo`` with several epochs: explicit epochs on ``ppo_loss`` with
  the rollout-time log-probabilities, advantages and returns held fixed (the
  clipped surrogate is defined w.r.t. the policy that collected the rollout);
* for the SAC temperature: the sign of the loss gradient and of 1-3 consecutive
  ``EntropyControl.update`` steps at log(alpha) anywhere in -25..8.

See DESIGN.md §5 C12.
"""
import numpy as np
from hypothesis import strategies as st

from vlib import gen
from vlib import policy_nets as pn
from vlib.core import Outcome, SubCheck, check, close, report

PROPERTY = "C12"
RULE = (
    "Cases are drawn by Hypothesis: shape signatures from small pools (quick: 6 per head type with batch 1,2,3,5,8, "
    "obs/action dims 1-3, 2/3/5 discrete actions, hidden [], [4], [5,3]; thorough: 24 with batch up to 16), "
    "network parameters from seeds (scaled x0.1/1/3), "
    "weights / advantages / returns explicitly (both signs, magnitudes 1e-3..1e3, zeros). "
    "pg: non-trivial = effective weights of both signs and reference gradient norm > 0. "
    "ppo: non-trivial = batch >= 2, both advantage signs, reference gradient norm > 0 and, in mixed mode, samples "
    "clipped on both sides or at least one sample clipped on its favoured side next to one that still contributes "
    "(the dedicated unchanged-parameters / all-clipped modes count with both advantage signs); about a fifth of "
    "the ppo cases records actions of extreme log-probability (label x=...): a softmax output bias lowered by "
    "105-250 with drawn rows recording that action (log-probability < -100, other rows ordinary), a Gaussian "
    "action component 15-20 std from the mean in drawn rows, or (unchanged-parameters mode only) a narrow "
    "Gaussian head, std e^-6..e^-7, with 24 / 32 action dimensions (joint log-density > +90). "
    "ppo_update: update_ppo on environment-major rollouts (6 signatures quick / 15 thorough: 1-4 environments x "
    "2-12 steps, all three stochastic heads, critics (N,) and (N,1), drawn termination flags, rewards x0.3..10) "
    "with epochs 1, 2, 3 and plain SGD optimizers whose actor learning rate is drawn (0.1-4) or scaled so that "
    "the first epoch changes the largest log-probability by about 0.4 / 0.8 / 1.5; non-trivial = epochs >= 2, "
    "the actor moves and at least one sample is clipped on the side its advantage favours at the start of an "
    "epoch >= 2 of the reference (ratios within the float32 error of a clip boundary: case excluded). "
    "dpg / sac_actor: non-trivial = batch >= 2 and gradient norm > 0. sac_alpha: log(alpha) for the gradient "
    "clause and for the start of 1-3 consecutive EntropyControl updates (learning rates 3e-4..3) is drawn by "
    "regime from -25..8 (0, [-2,2], (2,8], [-25,-20), [-20,-2), special values); target entropy = default or "
    "placed 0.01..10 above / below the sampled estimate; non-trivial = entropy estimate separated from the "
    "target by more than the float32 margin. Distinct = distinct canonical case."
)
ASSUMPTIONS = [
    "float32 arithmetic (library regime); value references in float64 from the float32 forward passes, "
    "gradient references from independently written jax objectives (per-sample Jacobians contracted in float64)",
    "network parameters scaled by at most x3 and actions within ~3 std of the mean, so that log-densities stay "
    "below ~1e2 in magnitude and probability ratios are placed at least 5% away from the clip boundaries "
    "(ppo, extreme class: log-probabilities -100..-300 and +90..+200; at unchanged parameters the reference "
    "ratio is exactly 1 and the allowance for the library's ratio is 16 float32 eps of the log-probability)",
    "coefficients 0.5 (value term) and 0.01 (entropy bonus) of ppo_loss are taken from the anchored mechanism; "
    "the docstring does not state them",
    "batch size 1: the same per-sample value or a loud rejection are both accepted",
    "ppo_update: the reference performs `epochs` explicit gradient steps on the library's own ppo_loss (checked "
    "by the ppo sub-check) with the library's compute_gae per environment (checked by C07), old "
    "log-probabilities / advantages / returns of the rollout-time networks held fixed; parameters must agree "
    "within 2e-4 of the largest total step + 4 ulp + 3x the measured effect of a 1e-6 relative perturbation of "
    "the starting parameters (cases where that effect exceeds 2% of the step are excluded as ill-conditioned)",
    "sac_alpha: the direction of a temperature step is read from log(alpha) (the optimised parameter; alpha is "
    "checked to be its float32 exponential); a strict move is demanded only where Adam's step, about "
    "lr*|g|/(|g|+1e-8), is at least 40 float32 spacings of log(alpha) - below that only 'not the wrong way'. "
    "A start away from log(alpha)=0 is produced by assigning the log_alpha parameter of a freshly constructed "
    "EntropyControl (fresh optimizer state)",
]

_QUICK = lambda: gen.tier() == "quick"  # noqa: E731


def _jnp():
    import jax.numpy as jnp

    return jnp


_CLS = {}


def _classes():
    """Test-side helper modules (defined lazily: flax import only in workers)."""
    if _CLS:
        return _CLS
    from flax import nnx

    class SharedTrunkValue(nnx.Module):
        """State-value function that shares its trunk with the policy network
        (the policy's own nnx.Module object): v(o) = head(trunk(o))."""

        def __init__(self, trunk, n_trunk_out, seed):
            self.trunk = trunk
            self.head = nnx.Linear(n_trunk_out, 1, rngs=nnx.Rngs(int(seed)))

        def __call__(self, x):
            y = self.trunk(x)
            if isinstance(y, tuple):
                y = y[0]
            return self.head(y)

    class FlatCritic(nnx.Module):
        """Critic with output shape (N,) instead of (N, 1)."""

        def __init__(self, net):
            self.net = net

        def __call__(self, x):
            return self.net(x)[..., 0]

    _CLS.update(SharedTrunkValue=SharedTrunkValue, FlatCritic=FlatCritic)
    return _CLS


# ------------------------------------------------------------------ generators

@st.composite
def _signed_values(draw, n, mag=1e3):
    """n floats: magnitudes from tiny to mag (occasional zeros) and an explicit
    sign pattern; mixed patterns contain both signs by construction (n >= 2)."""
    mags = draw(st.lists(st.one_of(gen.f32(1e-3, mag), gen.f32(0.1, 3.0), st.sampled_from([1.0, mag]),
                                   st.sampled_from([1.0, 0.0])), min_size=n, max_size=n))
    pattern = draw(st.sampled_from(["mixed"] * 8 + ["pos", "neg"]))
    if pattern != "mixed":
        signs = [1 if pattern == "pos" else 0] * n
    else:
        signs = draw(st.lists(st.integers(0, 1), min_size=n, max_size=n))
        if n >= 2:
            i = draw(st.integers(0, n - 1))
            j = draw(st.integers(0, n - 2))
            j = j if j < i else j + 1
            signs[i], signs[j] = 1, 0
            mags[i] = mags[i] or 1.0
            mags[j] = mags[j] or 1.0
    return [float(m if sg else -m) for m, sg in zip(mags, signs)]


# Shape signatures (n, obs_dim, action dim / number of actions, hidden).  Eager JAX compiles every
# primitive once per shape and process (several seconds for a new signature, ~0.2 s for a repeated one),
# so shapes come from pools (DESIGN §3 "shape pools"): 6 signatures in the quick tier, 24 in the thorough
# tier (the extra ones drawn once, reproducibly, from batch 1-16, obs dim 1-6, action dim 1-5 / 2-7
# actions, hidden [], [4], [5,3], [7]).
SIGS_DISCRETE = [(3, 2, 3, []), (5, 3, 5, [4]), (2, 3, 2, [4]), (8, 3, 3, [5, 3]), (2, 1, 3, [4]), (1, 3, 3, [4])]
SIGS_CONT = [(3, 2, 2, []), (5, 3, 3, [4]), (2, 3, 1, [4]), (8, 3, 1, [5, 3]), (2, 1, 2, [4]), (1, 3, 2, [4])]


def _wide_sigs(base, lo_act, hi_act, seed):
    r = np.random.RandomState(seed)
    hid = [[], [4], [5, 3], [7]]
    out = list(base)
    while len(out) < 24:
        sig = (int(r.randint(1, 17)), int(r.randint(1, 7)), int(r.randint(lo_act, hi_act + 1)), hid[r.randint(0, 4)])
        if sig not in out:
            out.append(sig)
    return out


SIGS_DISCRETE_WIDE = _wide_sigs(SIGS_DISCRETE, 2, 7, 1201)
SIGS_CONT_WIDE = _wide_sigs(SIGS_CONT, 1, 5, 1202)


@st.composite
def _base(draw, heads):
    head = draw(st.sampled_from(heads))
    if _QUICK():
        sigs = SIGS_DISCRETE if head == "softmax" else SIGS_CONT
    else:
        sigs = SIGS_DISCRETE_WIDE if head == "softmax" else SIGS_CONT_WIDE
    n, obs_dim, act_dim, hidden = draw(st.sampled_from(sigs))
    case = {
        "head": head, "n": n, "obs_dim": obs_dim, "act_dim": act_dim, "hidden": list(hidden),
        "shared": draw(st.booleans()),
        "box": draw(st.sampled_from(["unit", "asym", "wide", "tiny"])),
        "net_seed": draw(gen.seeds()), "data_seed": draw(gen.seeds()),
        "pscale": draw(st.sampled_from([1.0, 1.0, 0.1, 3.0])),
        "obs_scale": draw(st.sampled_from([1.0, 3.0])),
    }
    if head != "softmax" and case["pscale"] == 3.0:
        # x3 parameters on x3 observations drive log-variances to +-20: the float32 log-density is then
        # dominated by rounding (cases would only be labelled ill-conditioned)
        case["obs_scale"] = 1.0
    return case


def _policy(case):
    return pn.make_policy(case["head"], case["obs_dim"], case["act_dim"], case["hidden"], case["net_seed"],
                          case["pscale"], case["shared"], case["box"])


def _obs(case, offset=0):
    return gen.rng_array(case["data_seed"] + offset, (case["n"], case["obs_dim"]), case["obs_scale"])


def _actions(case, policy, info, obs, z_edit=None):
    """Discrete: uniform indices; Gaussian heads: mean + std * z, |z| <~ 3 (``z_edit``: optional function
    applied to the standardised residuals z before the actions are formed)."""
    jnp = _jnp()
    r = np.random.default_rng(case["data_seed"] + 17)
    if case["head"] == "softmax":
        return jnp.asarray(r.integers(0, case["act_dim"], size=(case["n"],)), dtype=jnp.int32)
    y, lv = policy.net(jnp.asarray(obs))
    std = pn.gaussian_std_ref(np.asarray(lv))
    mean = pn.tanh_mean_ref(np.asarray(y), info["scale"], info["bias"]) if case["head"] == "tanh_gaussian" \
        else np.asarray(y, dtype=np.float64)
    z = np.clip(r.standard_normal(mean.shape), -3.0, 3.0)
    if z_edit is not None:
        z = z_edit(z)
    return jnp.asarray((mean + std * z).astype(np.float32))


def _value_fn(kind, case, policy, seed):
    """kind: separate -> MLP (N,1); shared -> trunk shared with the policy."""
    if kind == "separate":
        return pn.make_mlp(case["obs_dim"], 1, case.get("v_hidden", [4]), seed, pscale=case.get("v_scale", 1.0))
    n_out = case["act_dim"]
    return _classes()["SharedTrunkValue"](policy.net, n_out, seed)


KAPPA_MAX = 1e4  # beyond this the float32 log-density itself is meaningless (see logp_conditioning)


def _grad_check(key, g_state, gref, gross, detail="", kappa=0.0, extra=None):
    g = pn.flat_params(g_state)
    ok, msg = pn.compare_grads(g, gref, gross, kappa=kappa, extra=extra)
    check(ok, key, lambda: f"{detail} {msg}")
    return g


def _within(a, ref, scale, extra=0.0):
    """|a-ref| <= 1e-5*scale + 2e-4*|ref| + extra (DESIGN §3 tolerance policy plus an
    explicit float32 conditioning allowance)."""
    a, ref = float(a), float(ref)
    return bool(np.isfinite(a)) and abs(a - ref) <= 1e-5 * scale + 2e-4 * abs(ref) + extra


def _logp_jacobian(case, policy, info, obs, actions):
    jnp = _jnp()
    o = jnp.asarray(obs)
    return pn.per_sample_jacobian(
        policy, lambda pol: pn.jax_logp(case["head"], pol.net(o), actions, info), case["n"])


# --------------------------------------------------- policy-gradient pseudo loss

@st.composite
def pg_cases(draw):
    case = draw(_base(["softmax", "gaussian", "tanh_gaussian"]))
    n = case["n"]
    routine = draw(st.sampled_from(["a2c", "reinforce", "reinforce", "actor_critic"]))
    case["routine"] = routine
    case["w"] = draw(_signed_values(n))  # weights / advantages / returns / rewards
    if routine == "reinforce":
        case["baseline"] = draw(st.sampled_from(["none", "separate", "shared"]))
    if routine == "actor_critic":
        case["baseline"] = draw(st.sampled_from(["separate", "shared"]))
        case["gamma"] = draw(gen.gammas())
    if routine in ("reinforce", "actor_critic"):
        # per-step discount gamma^t (0 silences every step but the first: kept, but rare)
        gd = st.one_of(st.sampled_from([1.0, 0.99, 0.9, 0.5]), gen.gammas())
        case["gd_gamma"] = draw(st.one_of(st.none(), gd)) if routine == "reinforce" else draw(gd)
        case["v_scale"] = draw(st.sampled_from([1.0, 30.0]))
        case["v_seed"] = draw(gen.seeds())
        # True: returns / rewards are built so that the *effective* weights (after the baseline / the
        # bootstrap) carry the drawn values and signs; False: the drawn values are the raw returns / rewards
        case["w_effective"] = draw(st.sampled_from([True, True, True, True, False]))
    # the weights / discounts are array-likes: jax arrays or (as a caller that assembles Monte-Carlo returns with
    # numpy holds them) numpy arrays; the routine is evaluated once or twice on the same arguments (several
    # gradient steps on one batch): every evaluation is checked, the caller's arrays must stay as they were
    case["arrays"] = draw(st.sampled_from(["numpy", "jax", "numpy", "jax"]))
    case["calls"] = draw(st.sampled_from([2, 1, 2]))
    return case


def run_pg(case):
    jnp = _jnp()
    from rl_blox.algorithm.a2c import a2c_policy_gradient
    from rl_blox.algorithm.actor_critic import actor_critic_policy_gradient
    from rl_blox.algorithm.reinforce import reinforce_gradient
    from rl_blox.blox.losses import stochastic_policy_gradient_pseudo_loss

    n, routine = case["n"], case["routine"]
    policy, info = _policy(case)
    obs = jnp.asarray(_obs(case))
    actions = _actions(case, policy, info, obs)
    use_np = case.get("arrays", "jax") == "numpy"
    calls = int(case.get("calls", 1))
    held = []  # (name, the caller's numpy array, its bytes before the calls)

    def arr(name, x):
        """The array-like handed to the routine."""
        if x is None:
            return None
        if not use_np:
            return jnp.asarray(x)
        a = np.array(x, copy=True)
        held.append((name, a, a.tobytes()))
        return a

    def evaluate(fn):
        """fn() once or twice on the same arguments; the results of all evaluations must agree bit for bit
        (pure function of its arguments), the last one goes to the oracle."""
        outs = [fn() for _ in range(calls)]
        for name, a, b in held:
            check(a.tobytes() == b, f"{sub}.arguments_modified",
                  lambda name=name, a=a, b=b: f"the caller's numpy array '{name}' was changed by the call: "
                                              f"{np.frombuffer(b, dtype=a.dtype).tolist()} -> {a.tolist()}")
        if calls > 1:
            l0, l1 = (np.asarray(o[0]) for o in outs[:2])
            check(l0.tobytes() == l1.tobytes(), f"{sub}.second_evaluation_differs",
                  lambda: f"same arguments, unchanged policy: loss {float(l0)} then {float(l1)}")
        return outs[-1]

    w_in = np.asarray(case["w"], dtype=np.float32)
    w32 = np.asarray(case["w"], dtype=np.float32).astype(np.float64)
    labels = [routine, case["head"], f"n={n}", "arrays=" + case.get("arrays", "jax"), f"calls={calls}"]
    sub = f"pg.{routine}"

    def vflat(vf, o):
        return np.asarray(vf(o), dtype=np.float64).reshape(-1)

    try:
        if routine == "a2c":
            direct = stochastic_policy_gradient_pseudo_loss(obs, actions, jnp.asarray(w_in), policy)
            w_arg = arr("advantages", w_in)
            loss, grad = evaluate(lambda: a2c_policy_gradient(policy, obs, actions, w_arg))
            check(close(float(direct), float(loss), rel=1e-6, abs_=1e-30), "pg.a2c.value_is_pseudo_loss",
                  lambda: f"{float(direct)} vs {float(loss)}")
            w_ref = w32
            w_err = np.zeros(n)
        elif routine == "reinforce":
            vf = None if case["baseline"] == "none" else _value_fn(case["baseline"], case, policy, case["v_seed"])
            gd = None if case["gd_gamma"] is None else np.float32(case["gd_gamma"]) ** np.arange(n, dtype=np.float32)
            if vf is not None and case["w_effective"]:
                w32 = (w32 + vflat(vf, obs)).astype(np.float32).astype(np.float64)
                w_in = w32.astype(np.float32)
            w_arg, gd_arg = arr("returns", w_in), arr("gamma_discount", gd)
            loss, grad = evaluate(lambda: reinforce_gradient(policy, vf, obs, actions, w_arg, gd_arg))
            w_ref = w32 - (vflat(vf, obs) if vf is not None else 0.0)
            # the routine forms returns - baseline (and the product with the discount) in float32
            w_err = 2e-7 * (np.abs(w32) + (np.abs(vflat(vf, obs)) if vf is not None else 0.0))
            if gd is not None:
                w_ref = w_ref * gd.astype(np.float64)
                w_err = w_err * gd.astype(np.float64)
            labels.append("baseline=" + case["baseline"])
        else:
            vf = _value_fn(case["baseline"], case, policy, case["v_seed"])
            next_obs = jnp.asarray(_obs(case, offset=5))
            gd = np.float32(case["gd_gamma"]) ** np.arange(n, dtype=np.float32)
            gamma = float(np.float32(case["gamma"]))
            if case["w_effective"]:
                w32 = (w32 - gamma * vflat(vf, next_obs) + vflat(vf, obs)).astype(np.float32).astype(np.float64)
                w_in = w32.astype(np.float32)
            w_arg, gd_arg = arr("rewards", w_in), arr("gamma_discount", gd)
            loss, grad = evaluate(lambda: actor_critic_policy_gradient(policy, vf, obs, actions, next_obs, w_arg,
                                                                       gd_arg, gamma))
            w_ref = gd.astype(np.float64) * (w32 + gamma * vflat(vf, next_obs) - vflat(vf, obs))
            w_err = 2e-7 * gd.astype(np.float64) * (
                np.abs(w32) + 2.0 * gamma * np.abs(vflat(vf, next_obs)) + np.abs(vflat(vf, obs)))
            labels.append("baseline=" + case["baseline"])
    except Exception as e:  # noqa: BLE001
        if n == 1:
            return Outcome(labels=labels + ["batch1-rejected:" + type(e).__name__], nontrivial=False)
        raise

    logp = pn.ref_logp64(case["head"], policy, info, obs, actions)
    err, kappa = pn.logp_conditioning(case["head"], policy, info, obs, actions)
    if kappa > KAPPA_MAX:
        return Outcome(labels=labels + ["ill-conditioned"], nontrivial=False)
    terms = w_ref * logp
    ref = -terms.mean()
    check(np.shape(loss) == (), sub + ".value.shape", f"{np.shape(loss)}")
    check(_within(loss, ref, max(1e-3, np.abs(terms).max()), (np.abs(w_ref) * err + w_err * np.abs(logp)).mean()),
          sub + ".value",
          lambda: f"loss={float(loss)} ref={ref} w={w_ref.tolist()} logp={logp.tolist()}")
    # gradient: weights are constants -> -(1/N) sum_i w_i d logp_i / d theta
    jac = _logp_jacobian(case, policy, info, obs, actions)
    gref, gross = pn.contract(jac, -w_ref / n)
    _, w_extra = pn.contract(jac, w_err / n)
    _grad_check(sub + ".grad.weights_constant", grad, gref, gross, f"w={w_ref.tolist()}", kappa, w_extra)
    both = bool(np.any(w_ref > 0) and np.any(w_ref < 0))
    gn = pn.grad_norm(gref)
    labels += ["both-signs" if both else "one-sign", "grad>0" if gn > 0 else "grad=0"]
    return Outcome(labels=labels, nontrivial=both and gn > 0)


# ------------------------------------------------------------------------- PPO

@st.composite
def _ppo_batch(draw, n, mode=None):
    """Advantages, returns, mode and the region of every sample's probability ratio, for batch size n."""
    out = {}
    out["adv"] = draw(st.one_of(_signed_values(n, 1e3), _signed_values(n, 3.0)))
    out["ret_mode"] = draw(st.sampled_from(["near", "far"]))
    out["ret"] = draw(_signed_values(n, 1e3 if out["ret_mode"] == "far" else 2.0))
    if mode is None:
        mode = draw(st.sampled_from(["mixed", "mixed", "mixed", "all_clipped", "unchanged"]))
    out["mode"] = mode
    # region of the probability ratio, position inside it (u), and distance class from the clip boundary:
    # ratios are placed from 0.3 % beyond / inside a boundary (between 1 +- clip and exp(+-clip)) to far away
    region = st.tuples(st.sampled_from(["above", "below", "in", "above", "below", "same"]),
                       st.floats(0.0, 1.0, allow_nan=False),
                       st.sampled_from([0.003, 0.02, 0.2, 1.0, -1.0]))
    regions = [list(r) for r in draw(st.lists(region, min_size=n, max_size=n))]
    if n >= 2 and mode == "mixed":
        # by construction: one sample clipped on its favoured side, and (n >= 3) the other clip side
        # present too, on a sample of the opposite advantage sign; the remaining regions are free
        pos = [i for i, a in enumerate(out["adv"]) if a > 0.0]
        neg = [i for i, a in enumerate(out["adv"]) if a < 0.0]
        first = draw(st.sampled_from(["pos", "neg"]))
        if first == "neg":
            pos, neg = neg, pos
        hi, lo = ("above", "below") if first == "pos" else ("below", "above")
        if pos:
            regions[pos[draw(st.integers(0, len(pos) - 1))]][0] = hi
        if neg and (n >= 3 or not pos):
            regions[neg[draw(st.integers(0, len(neg) - 1))]][0] = draw(st.sampled_from([lo, lo, hi]))
    out["regions"] = regions
    return out


# Recorded actions of extreme log-probability (class "x", about a fifth of the ppo cases).  A probability ratio is
# a difference of log-probabilities; each of them may lie far outside the range in which float32 exp() is finite
# and non-zero (-103 .. +88.7) while the documented objective stays perfectly ordinary:
#   softmax_low : one output bias of the softmax net is lowered by 105..250 (optionally the others are spread in
#                 between); drawn rows record that action (log-probability < -100), the other rows an ordinary one;
#   gauss_far   : ordinary Gaussian head, in drawn rows one action component lies 15..20 std from the mean
#                 (log-density < -100);
#   gauss_high  : narrow Gaussian head with 24 / 32 action dimensions (std about e^-6 .. e^-7, means of order 1):
#                 joint log-density of every recorded action > +90 (unchanged-parameters mode only: the float32
#                 conditioning allowance of a 24-dimensional narrow density leaves no room for placing ratios
#                 next to a clip boundary).
# The network shapes of the first two come from the ordinary pools (no further compilations); gauss_high has its
# own small pool.
SIGS_NARROW = [(3, 2, 24, [4]), (2, 3, 32, [])]
SIGS_NARROW_WIDE = SIGS_NARROW + [(5, 3, 24, [5, 3]), (8, 2, 40, [4]), (2, 4, 28, [7])]
_X_KINDS = ["softmax_low", "gauss_high", "gauss_far", "softmax_low", "gauss_high"]


@st.composite
def ppo_cases(draw):
    case = draw(_base(["softmax", "softmax", "gaussian", "tanh_gaussian"]))
    case["critic_shape"] = draw(st.sampled_from(["N1", "N1", "N"]))
    case["critic_hidden"] = [4] if _QUICK() else draw(st.sampled_from([[4], []]))
    case["critic_seed"] = draw(gen.seeds())
    case["clip"] = draw(st.one_of(st.sampled_from([0.2, 0.2, 0.1, 0.5, 0.01]), gen.f32(0.01, 0.5)))
    case["k_scale"] = draw(st.sampled_from([2.5, 0.125, 1e3]))
    if draw(st.sampled_from(["none"] * 7 + ["x"] * 2)) == "none":
        case.update(draw(_ppo_batch(case["n"])))
        return case
    kind = draw(st.sampled_from(_X_KINDS))
    x = {"kind": kind}
    quick = _QUICK()
    if kind == "softmax_low":
        head = "softmax"
        sigs = [sg for sg in (SIGS_DISCRETE if quick else SIGS_DISCRETE_WIDE) if sg[0] >= 2]
        x["gap"] = draw(st.sampled_from([120.0, 105.0, 160.0, 250.0]))
        x["low"] = draw(st.integers(0, 6))  # index of the lowered action, modulo the number of actions
        x["spread"] = draw(st.booleans())
    elif kind == "gauss_far":
        head = case["head"] if case["head"] != "softmax" else draw(st.sampled_from(["gaussian", "tanh_gaussian"]))
        sigs = [sg for sg in (SIGS_CONT if quick else SIGS_CONT_WIDE) if sg[0] >= 2]
        x["zfar"] = draw(st.sampled_from([15.0, -15.0, 17.0, -20.0]))
        x["dim"] = draw(st.integers(0, 4))  # modulo the action dimension
    else:
        head = draw(st.sampled_from(["gaussian", "tanh_gaussian", "gaussian"]))
        sigs = SIGS_NARROW if quick else SIGS_NARROW_WIDE
        x["lv_bias"] = draw(st.sampled_from([-13.0, -12.0, -14.0]))
        x["mean_scale"] = draw(st.sampled_from([1.0, 0.3]))
        case.update(pscale=1.0, obs_scale=1.0, box="unit")
    n, obs_dim, act_dim, hidden = draw(st.sampled_from(sigs))
    case.update(head=head, n=n, obs_dim=obs_dim, act_dim=act_dim, hidden=list(hidden))
    if head != "softmax" and case["pscale"] == 3.0:
        case["obs_scale"] = 1.0  # as in _base
    # rows that record the extreme action (softmax_low / gauss_far; every row of gauss_high is extreme)
    rows = draw(st.lists(st.booleans(), min_size=n, max_size=n))
    rows[draw(st.integers(0, n - 1))] = True
    x["rows"] = rows
    mode = "unchanged" if kind == "gauss_high" else draw(
        st.sampled_from(["unchanged", "unchanged", "mixed", "all_clipped"]))
    case.update(draw(_ppo_batch(n, mode)))
    for r in case["regions"]:
        # logits / residuals of size 1e2: the float32 allowance on the ratio (see run_ppo) is about 0.5-1 %; ratios
        # 0.3 % from a clip boundary would only be excluded as side-ambiguous
        if r[2] == 0.003:
            r[2] = 0.05
    case["x"] = x
    return case


def _ratio_targets(case, adv):
    """(kind, target ratio) per sample; kind in same | in | above | below.
    above: (1+c)(1+d), below: (1-c)/(1+d); in: just inside the upper / lower boundary,
    (1+c)/(1+d) or (1-c)(1+d), or (distance class -1) anywhere within 1 +- 0.8c."""
    c = float(np.float32(case["clip"]))
    out = []
    for i, (kind, u, dist) in enumerate(case["regions"]):
        if case["mode"] == "unchanged":
            kind = "same"
        elif case["mode"] == "all_clipped":
            kind = "above" if adv[i] >= 0 else "below"
        d = abs(dist) * (1.0 + u)
        if kind == "same":
            rho = 1.0
        elif kind == "in":
            if dist < 0:
                rho = 1.0 + (2.0 * u - 1.0) * 0.8 * c
            else:
                hi_side = (i + int(u * 1e6)) % 2 == 0
                rho = (1.0 + c) / (1.0 + d) if hi_side else (1.0 - c) * (1.0 + d)
                if not (1.0 - c) < rho < (1.0 + c):  # large d with a small clip range
                    rho = 1.0
        elif kind == "above":
            rho = (1.0 + c) * (1.0 + d)
        else:
            rho = (1.0 - c) / (1.0 + d)
        out.append((kind, rho))
    return out


def _x_rows(case):
    """Row flags of the extreme class for the current batch size (a minimised case may have fewer rows)."""
    rows = [bool(r) for r in case["x"]["rows"][:case["n"]]]
    rows += [False] * (case["n"] - len(rows))
    if not any(rows):
        rows[0] = True
    return rows


def _x_set_params(case, policy):
    """Extreme class: place the output parameters of the policy network (see ppo_cases)."""
    jnp = _jnp()
    x, d = case["x"], case["act_dim"]
    if x["kind"] == "softmax_low":
        low = int(x["low"]) % d
        layer = policy.net.output_layer
        b = np.asarray(layer.bias.value, dtype=np.float32).copy()
        if x.get("spread") and d > 2:
            # the other actions in between: -gap * (0, 1/(d-1), ..., (d-2)/(d-1)) in rotated order
            steps = np.float32(x["gap"]) * np.arange(d - 1, dtype=np.float32) / np.float32(d - 1)
            others = [(low + 1 + j) % d for j in range(d - 1)]
            b[others] -= steps
        b[low] -= np.float32(x["gap"])
        layer.bias.value = jnp.asarray(b)
    elif x["kind"] == "gauss_high":
        net = policy.net
        lvb = (np.float32(x["lv_bias"]) + 0.5 * np.cos(np.arange(d))).astype(np.float32)
        ms, ls = np.float32(x["mean_scale"]), np.float32(0.25)
        if net.shared_head:
            layer = net.output_layers[0]
            k = np.asarray(layer.kernel.value, dtype=np.float32).copy()
            k[:, :d] *= ms
            k[:, d:] *= ls
            b = np.asarray(layer.bias.value, dtype=np.float32).copy()
            b[d:] = lvb
            layer.kernel.value, layer.bias.value = jnp.asarray(k), jnp.asarray(b)
        else:
            lm, ll = net.output_layers
            lm.kernel.value = lm.kernel.value * ms
            ll.kernel.value = ll.kernel.value * ls
            ll.bias.value = jnp.asarray(lvb)


def _x_actions(case, policy, info, obs):
    """Extreme class: the recorded actions."""
    jnp = _jnp()
    x, d = case["x"], case["act_dim"]
    rows = _x_rows(case)
    if x["kind"] == "softmax_low":
        low = int(x["low"]) % d
        a = np.asarray(_actions(case, policy, info, obs)).copy()
        for i, flag in enumerate(rows):
            if flag:
                a[i] = low
            elif a[i] == low:
                a[i] = (low + 1) % d  # the most likely of the other actions
        return jnp.asarray(a, dtype=jnp.int32)
    if x["kind"] == "gauss_far":
        j = int(x["dim"]) % d

        def far(z):
            z = z.copy()
            z[np.asarray(rows), j] = float(x["zfar"])
            return z

        return _actions(case, policy, info, obs, z_edit=far)
    return _actions(case, policy, info, obs)


def run_ppo(case):
    jnp = _jnp()
    from flax import nnx
    from rl_blox.algorithm.ppo import ppo_loss

    n = case["n"]
    c = float(np.float32(case["clip"]))
    x = case.get("x")
    policy, info = _policy(case)
    if x:
        _x_set_params(case, policy)
    critic = pn.make_mlp(case["obs_dim"], 1, case["critic_hidden"], case["critic_seed"])
    if case["critic_shape"] == "N":
        critic = _classes()["FlatCritic"](critic)
    obs = jnp.asarray(_obs(case))
    actions = _x_actions(case, policy, info, obs) if x else _actions(case, policy, info, obs)
    adv32 = np.asarray(case["adv"], dtype=np.float32)
    adv = adv32.astype(np.float64)
    v32 = np.asarray(critic(obs))
    assert v32.shape == ((n, 1) if case["critic_shape"] == "N1" else (n,)), v32.shape
    v = v32.astype(np.float64).reshape(-1)
    ret32 = (np.asarray(case["ret"], dtype=np.float32) + (v32.reshape(-1) if case["ret_mode"] == "near" else 0.0)
             ).astype(np.float32)
    ret = ret32.astype(np.float64)
    # old log-probabilities place the ratio of each sample in a chosen region
    logp32 = np.asarray(policy.log_probability(obs, actions), dtype=np.float32)
    targets = _ratio_targets(case, adv)
    old32 = np.array([lp if kind == "same" else np.float32(lp - np.float32(np.log(rho)))
                      for lp, (kind, rho) in zip(logp32, targets)], dtype=np.float32)
    labels = [case["head"], case["mode"], "critic=" + case["critic_shape"], f"n={n}",
              "x=" + (x["kind"] if x else "none")]
    # float32 exp() of a log-probability beyond these is 0 / subnormal (flushed) or inf; the ratio
    # exp(logp - old_logp) of the documented objective is not affected
    labels += [lab for lab, hit in (("logp<-88", bool(np.any(logp32 < -88.0))),
                                    ("logp>+88", bool(np.any(logp32 > 88.73))),
                                    ("logp<-104", bool(np.any(logp32 < -104.0)))) if hit]
    if not np.all(np.isfinite(logp32)):  # nothing to place a ratio against (the log-density itself: C13)
        return Outcome(labels=labels + ["excluded-logp-nonfinite"], nontrivial=False)

    def call(adv_arr, argnums=(0, 1)):
        return nnx.value_and_grad(ppo_loss, argnums=argnums)(
            policy, critic, jnp.asarray(old32), obs, actions, jnp.asarray(adv_arr), jnp.asarray(ret32), c)

    try:
        loss, (g_actor, g_critic) = call(adv32)
    except Exception as e:  # noqa: BLE001
        if n == 1:
            return Outcome(labels=labels + ["batch1-rejected:" + type(e).__name__], nontrivial=False)
        raise

    # ---- float64 value reference
    logp = pn.ref_logp64(case["head"], policy, info, obs, actions)
    err, kappa = pn.logp_conditioning(case["head"], policy, info, obs, actions)
    if kappa > KAPPA_MAX:
        return Outcome(labels=labels + ["ill-conditioned"], nontrivial=False)
    ratio = np.exp(logp - old32.astype(np.float64))
    if x and case["mode"] == "unchanged":
        # Extreme class at unchanged parameters: the rollout-time log-probabilities ARE the current ones, every
        # ratio of the documented objective is exp(0) = 1 exactly, whatever the size of the log-probability.  The
        # library sees two float32 evaluations of the same function on the same input (they may differ by a few
        # spacings of logp between an eager and a differentiated forward pass): err = 16 eps * (1 + |logp|),
        # instead of the conditioning bound that applies to a float32-vs-float64 comparison of the log-density.
        ratio = np.ones(n)
        err = 2e-6 * (1.0 + np.abs(logp))
    # the ratios sit where the generator put them, on a known side of both clip boundaries: the float32
    # log-density of the library and the float64 reference may differ by err (conditioning)
    for r, e, (kind, rho) in zip(ratio, err, targets):
        near = min(abs(r / (1.0 + c) - 1.0), abs(r / (1.0 - c) - 1.0))
        if abs(r / rho - 1.0) > 20.0 * e + 2e-4 or (kind != "same" and near < 20.0 * e + 5e-4):
            return Outcome(labels=labels + ["excluded-ratio-side-ambiguous"], nontrivial=False)
    s1 = ratio * adv
    s2 = np.clip(ratio, 1.0 - c, 1.0 + c) * adv
    P = -np.minimum(s1, s2).mean()
    V = ((ret - v) ** 2).mean()
    H = pn.ref_entropy_mean64(case["head"], policy, obs)
    ref_total = P + 0.5 * V - 0.01 * H
    scale = max(1e-3, np.abs(s1).max(), np.abs(s2).max(), ((ret - v) ** 2).max(), abs(H))
    check(np.shape(loss) == (), "ppo.value.shape", f"{np.shape(loss)}")
    extra = (np.abs(s1) * err).mean()
    total_ok = _within(loss, ref_total, scale, extra)
    # finite log-probabilities (of any size), advantages and returns: the documented objective is finite
    check(bool(np.isfinite(float(loss))) or not np.isfinite(ref_total), "ppo.value.finite_objective_evaluated_non_finite",
          lambda: f"loss={float(loss)} ref(P+0.5V-0.01H)={ref_total} P={P} clip={c} adv={adv.tolist()} "
                  f"log-probabilities={logp32.tolist()} old={old32.tolist()}")
    # ---- critic gradient: 0.5 * mean (ret - v)^2 -> (1/N) (v_i - ret_i) dv_i
    jv = pn.per_sample_jacobian(critic, lambda cr: cr(obs).reshape(-1), n)
    gc_ref, gc_gross = pn.contract(jv, (v - ret) / n)
    gc = pn.flat_params(g_critic)
    critic_ok, critic_msg = pn.compare_grads(gc, gc_ref, gc_gross)
    if not (total_ok and critic_ok):
        if case["critic_shape"] == "N1":
            # Is the observation exactly what an (N,)-(N,1) -> (N,N) broadcast produces?  The key
            # distinguishes this recorded root cause from any other mismatch.
            Vb = ((ret[None, :] - v[:, None]) ** 2).mean()
            gb_ref, gb_gross = pn.contract(jv, (v - ret.mean()) / n)
            is_b = _within(loss, P + 0.5 * Vb - 0.01 * H, max(scale, ((ret[None, :] - v[:, None]) ** 2).max()), extra) \
                and pn.compare_grads(gc, gb_ref, {k: np.maximum(gb_gross[k], gc_gross[k]) for k in gb_gross})[0]
            key = "ppo_loss.value_term.critic_N1." + ("NxN_broadcast" if is_b else "other")
        else:
            key = "ppo_loss.value_term.critic_N." + ("loss_value" if not total_ok else "critic_grad")
        report(key, f"n={n} loss={float(loss)} ref(P+0.5V-0.01H)={ref_total} P={P} V_per_sample={V} H={H} "
                    f"returns={ret.tolist()} values={v.tolist()} critic_grad: {critic_msg}")
    # ---- actor gradient: samples clipped on the side their advantage favours get zero weight
    mask = np.array([0.0 if ((kind == "above" and a > 0) or (kind == "below" and a < 0)) else 1.0
                     for (kind, _), a in zip(targets, adv)])
    jac = _logp_jacobian(case, policy, info, obs, actions)
    gp_ref, gp_gross = pn.contract(jac, -(mask * ratio * adv) / n)
    o = obs
    gh = pn.grad_of(policy, lambda pol: pn.jax_entropy_mean(case["head"], pol.net(o)))
    ga_ref = {k: gp_ref[k] - 0.01 * gh[k] for k in gp_ref}
    ga_gross = {k: gp_gross[k] + 0.01 * np.abs(gh[k]) for k in gp_ref}
    clause = {"unchanged": "ppo.actor_grad.unchanged_params_is_unclipped_surrogate",
              "all_clipped": "ppo.actor_grad.all_clipped_is_entropy_bonus_only",
              "mixed": "ppo.actor_grad.mixed_clipped_samples_masked"}[case["mode"]]
    ga = _grad_check(clause, g_actor, ga_ref, ga_gross,
                     f"clip={c} adv={adv.tolist()} ratio={ratio.tolist()} mask={mask.tolist()}", kappa)
    # ---- exactness: the gradient does not depend on the advantage magnitude of favoured-clipped samples
    n_masked = int((mask == 0).sum())
    if n_masked:
        adv2 = np.where(mask == 0, adv32 * np.float32(case["k_scale"]), adv32).astype(np.float32)
        _, g2 = call(adv2, argnums=0)
        g2 = pn.flat_params(g2)
        same = all(np.array_equal(ga[k], g2[k]) for k in ga)
        check(same, "ppo.actor_grad.favoured_clipped_sample_has_exactly_zero_weight",
              lambda: f"clip={c} adv={adv.tolist()} scaled={adv2.tolist()} ratio={ratio.tolist()} "
                      f"maxdiff={max(float(np.max(np.abs(ga[k] - g2[k]))) for k in ga)}")
    kinds = {k for (k, _), a in zip(targets, adv) if a != 0}
    both_signs = bool(np.any(adv > 0) and np.any(adv < 0))
    gn = pn.grad_norm(ga_ref)
    labels += ["both-adv-signs" if both_signs else "one-adv-sign",
               "clip-both-sides" if {"above", "below"} <= kinds else "clip-one-side-or-none",
               f"masked={min(n_masked, 3)}", "grad>0" if gn > 0 else "grad=0", "ret=" + case["ret_mode"]]
    n_live = int(((mask == 1) & (adv != 0)).sum())
    nt = n >= 2 and both_signs and gn > 0 and (
        case["mode"] != "mixed" or {"above", "below"} <= kinds or (n_masked >= 1 and n_live >= 1))
    return Outcome(labels=labels, nontrivial=nt)


# ------------------------------------------------- PPO update over several epochs

# (head, n_envs, steps per env, obs dim, action dim / number of actions, hidden, shared head, critic output).
# update_ppo is compiled once per signature and (epochs, n_envs); the learning rates live in the optimizer
# state (optax.inject_hyperparams), so they do not add compilations.
SIGS_UPD = [
    ("softmax", 1, 6, 3, 3, [4], False, "N1"), ("softmax", 2, 4, 2, 3, [4], False, "N"),
    ("gaussian", 2, 3, 3, 1, [4], True, "N1"), ("gaussian", 1, 5, 2, 2, [4], False, "N"),
    ("tanh_gaussian", 2, 4, 3, 2, [4], True, "N1"), ("tanh_gaussian", 3, 2, 3, 1, [], False, "N"),
]
SIGS_UPD_WIDE = SIGS_UPD + [
    ("softmax", 3, 2, 3, 2, [], False, "N1"),
    ("softmax", 4, 3, 4, 5, [5, 3], False, "N1"), ("softmax", 1, 12, 2, 2, [4], False, "N1"),
    ("softmax", 2, 8, 3, 4, [7], False, "N"), ("gaussian", 3, 4, 4, 2, [5, 3], False, "N1"),
    ("gaussian", 1, 2, 1, 1, [], True, "N"), ("tanh_gaussian", 1, 7, 2, 1, [4], False, "N"),
    ("tanh_gaussian", 3, 3, 3, 3, [7], True, "N1"), ("gaussian", 2, 6, 3, 3, [4], True, "N1"),
]


@st.composite
def ppo_update_cases(draw):
    head, n_envs, T, obs_dim, act_dim, hidden, shared, cshape = draw(
        st.sampled_from(SIGS_UPD if _QUICK() else SIGS_UPD_WIDE))
    n = n_envs * T
    # NB: Hypothesis over-represents the first element of sampled_from / first branch of one_of (its "simplest"
    # choice): the choices that make a case non-trivial come first
    lrs = st.one_of(st.sampled_from([1.0, 3.0, 0.3]), st.sampled_from([3.0, 1.0]), gen.f32(0.1, 4.0))
    case = {
        "head": head, "n_envs": n_envs, "T": T, "n": n, "obs_dim": obs_dim, "act_dim": act_dim,
        "hidden": list(hidden), "shared": shared, "critic_shape": cshape, "critic_hidden": [4],
        "box": draw(st.sampled_from(["unit", "asym", "wide", "tiny"])),
        "net_seed": draw(gen.seeds()), "data_seed": draw(gen.seeds()), "critic_seed": draw(gen.seeds()),
        "pscale": draw(st.sampled_from([1.0, 1.0, 0.1, 3.0])) if head == "softmax" else draw(
            st.sampled_from([1.0, 1.0, 0.1])),
        "obs_scale": draw(st.sampled_from([1.0, 3.0])),
        "epochs": draw(st.sampled_from([2, 3, 2, 3, 2, 1])),
        # plain SGD; the actor's rate is large enough that one epoch moves probability ratios out of the
        # clip range (what several epochs on one rollout are about)
        "lr_actor": draw(lrs),
        # fixed: lr_actor as drawn; auto: lr_actor is scaled in run() so that the first epoch changes the largest
        # log-probability by about `lr_delta` (first-order estimate from a trial step of 1e-3)
        "lr_mode": draw(st.sampled_from(["auto", "fixed", "auto"])),
        "lr_delta": draw(st.sampled_from([0.8, 0.4, 1.5])),
        "lr_critic": draw(st.one_of(st.sampled_from([0.01, 0.1, 0.5]), gen.f32(0.001, 0.5))),
        "rew_scale": draw(st.sampled_from([1.0, 3.0, 0.3, 1.0, 10.0])),
        "term": draw(gen.flags(n)),
        # successor values: the critic on successor observations, or free numbers
        "nv_mode": draw(st.sampled_from(["critic", "critic", "free"])),
    }
    return case


_UPD = {}


def _sgd_optimizer(module, lr):
    """nnx.Optimizer with plain SGD whose learning rate is an entry of the optimizer state: one optax
    transformation object for all cases (nnx.Optimizer keeps it as static graph data; a new object per
    case would re-trace update_ppo every time)."""
    import optax
    from flax import nnx

    if "tx" not in _UPD:
        _UPD["tx"] = optax.inject_hyperparams(optax.sgd)(learning_rate=1.0)
    opt = nnx.Optimizer(module, _UPD["tx"], wrt=nnx.Param)
    opt.opt_state.hyperparams["learning_rate"].value = _jnp().asarray(np.float32(lr))
    return opt


def _ref_epoch():
    """One explicit epoch: a gradient step of both optimizers on ppo_loss with *given* rollout-time
    log-probabilities, advantages and returns (jitted once per signature)."""
    if "ref_epoch" not in _UPD:
        from flax import nnx
        from rl_blox.algorithm.ppo import ppo_loss

        @nnx.jit
        def ref_epoch(actor, critic, opt_actor, opt_critic, old_logp, obs, act, advs, rets):
            loss, (ga, gc) = nnx.value_and_grad(ppo_loss, argnums=(0, 1))(
                actor, critic, old_logp, obs, act, advs, rets)
            opt_actor.update(actor, ga)
            opt_critic.update(critic, gc)
            return loss

        _UPD["ref_epoch"] = ref_epoch
    return _UPD["ref_epoch"]


def _upd_nets(case, perturb=0.0):
    import jax
    from flax import nnx

    policy, info = _policy(case)
    critic = pn.make_mlp(case["obs_dim"], 1, case["critic_hidden"], case["critic_seed"])
    if perturb:
        for i, m in enumerate((policy, critic)):
            stt = nnx.state(m, nnx.Param)
            leaves, treedef = jax.tree_util.tree_flatten(stt)
            r = np.random.default_rng(case["net_seed"] + 991 + i)
            leaves = [x * (1.0 + np.float32(perturb) * r.choice(np.float32([-1.0, 1.0]), size=x.shape))
                      for x in leaves]
            nnx.update(m, jax.tree_util.tree_unflatten(treedef, leaves))
    if case["critic_shape"] == "N":
        critic = _classes()["FlatCritic"](critic)
    return policy, info, critic


def _reference_epochs(case, data, lr_actor, perturb=0.0, epochs=None):
    """`epochs` explicit gradient steps on ppo_loss; old log-probabilities, advantages and returns are those
    of the rollout-time networks (GAE per environment of the environment-major rollout, as update_ppo
    documents) and stay fixed.  Also returns, for the start of every epoch, the float64 probability ratios."""
    jnp = _jnp()
    from rl_blox.blox.gae import compute_gae

    obs, actions, reward, term, next_value = data
    ne, T = case["n_envs"], case["T"]
    policy, info, critic = _upd_nets(case, perturb)
    oa, oc = _sgd_optimizer(policy, lr_actor), _sgd_optimizer(critic, case["lr_critic"])
    start = (pn.flat_params(policy), pn.flat_params(critic))
    values = critic(obs).reshape(-1)
    advs, rets = [], []
    for e in range(ne):
        sl = slice(e * T, (e + 1) * T)
        a, r = compute_gae(reward[sl], values[sl], next_value[sl], term[sl])
        advs.append(a)
        rets.append(r)
    advs, rets = jnp.concatenate(advs), jnp.concatenate(rets)
    old = policy.log_probability(obs, actions)
    old64 = pn.ref_logp64(case["head"], policy, info, obs, actions)
    err0, kappa = pn.logp_conditioning(case["head"], policy, info, obs, actions)
    trace, losses = [], []
    for e in range(epochs or case["epochs"]):
        if e == 0:
            ratio, err = np.ones(case["n"]), np.zeros(case["n"])
        else:
            ratio = np.exp(pn.ref_logp64(case["head"], policy, info, obs, actions) - old64)
            err_e, k = pn.logp_conditioning(case["head"], policy, info, obs, actions)
            err, kappa = err0 + err_e, max(kappa, k)
        trace.append((ratio, err))
        losses.append(float(_ref_epoch()(policy, critic, oa, oc, old, obs, actions, advs, rets)))
    return {"actor": pn.flat_params(policy), "critic": pn.flat_params(critic), "start": start,
            "adv": np.asarray(advs, dtype=np.float64), "ret": np.asarray(rets, dtype=np.float64),
            "trace": trace, "losses": losses, "kappa": kappa}


def run_ppo_update(case):
    jnp = _jnp()
    import inspect

    from rl_blox.algorithm.ppo import ppo_loss, update_ppo

    n, ne, epochs = case["n"], case["n_envs"], case["epochs"]
    clip = float(inspect.signature(ppo_loss).parameters["clip"].default)
    labels = [case["head"], f"epochs={epochs}", f"n_envs={ne}", f"T={case['T']}", "critic=" + case["critic_shape"]]
    policy, info, critic = _upd_nets(case)
    obs = jnp.asarray(_obs(case))
    actions = _actions(case, policy, info, obs)
    reward = jnp.asarray(gen.rng_array(case["data_seed"] + 3, (n,), case["rew_scale"]))
    term = jnp.asarray(np.asarray(case["term"], dtype=bool))
    if case["nv_mode"] == "critic":
        next_value = critic(jnp.asarray(_obs(case, offset=5))).reshape(-1)
    else:
        next_value = jnp.asarray(gen.rng_array(case["data_seed"] + 4, (n,), case["rew_scale"]))
    data = (obs, actions, reward, term, next_value)

    lr_actor = float(np.float32(case["lr_actor"]))
    if case.get("lr_mode", "fixed") == "auto":
        trial = _reference_epochs(case, data, 1e-3, epochs=2)
        slope = np.abs(np.log(trial["trace"][1][0])) / 1e-3
        slope = float(np.max(np.where(trial["adv"] != 0.0, slope, 0.0)))
        if np.isfinite(slope) and slope > 0.0:
            lr_actor = float(np.float32(min(max(case["lr_delta"] / slope, 1e-2), 30.0)))
    labels.append("lr=" + case.get("lr_mode", "fixed"))
    ref = _reference_epochs(case, data, lr_actor)
    finite = all(bool(np.all(np.isfinite(v))) for who in ("actor", "critic") for v in ref[who].values()) \
        and bool(np.all(np.isfinite(ref["losses"])))
    if not finite:
        return Outcome(labels=labels + ["reference-diverged"], nontrivial=False)
    # (no cut-off on the conditioning number kappa of the log-density here: library and reference evaluate the
    # same float32 expressions; kappa enters through err below, the update's own conditioning through the probe)
    # which samples are clipped on the side their advantage favours at the start of each epoch; a ratio that
    # sits on a clip boundary within the float32 error of the log-density could fall on either side
    adv = ref["adv"]
    fav = []
    for ratio, err in ref["trace"]:
        near = np.minimum(np.abs(ratio / (1.0 + clip) - 1.0), np.abs(ratio / (1.0 - clip) - 1.0))
        if np.any((near < 20.0 * err + 5e-4) & (adv != 0.0)):
            return Outcome(labels=labels + ["excluded-ratio-side-ambiguous"], nontrivial=False)
        fav.append(((adv > 0) & (ratio > 1.0 + clip)) | ((adv < 0) & (ratio < 1.0 - clip)))
    n_fav_late = int(sum(int(f.sum()) for f in fav[1:]))
    n_out_late = int(sum(int(((r > 1.0 + clip) | (r < 1.0 - clip)).sum()) for r, _ in ref["trace"][1:]))
    # float32 conditioning of the whole update: the same reference from parameters perturbed by 1e-6 (relative)
    probe = _reference_epochs(case, data, lr_actor, perturb=1e-6)

    oa, oc = _sgd_optimizer(policy, lr_actor), _sgd_optimizer(critic, case["lr_critic"])
    loss = update_ppo(policy, critic, oa, oc, obs, actions, reward, term, next_value, epochs=epochs, n_envs=ne)
    after = {"actor": pn.flat_params(policy), "critic": pn.flat_params(critic)}

    def dev(a, b):
        return max(float(np.max(np.abs(a[k] - b[k]))) if a[k].size else 0.0 for k in a)

    steps = {}
    for i, who in enumerate(("actor", "critic")):
        steps[who] = big = dev(ref[who], ref["start"][i])
        cond = dev(probe[who], ref[who])
        if not np.isfinite(cond) or cond > 0.02 * big + 1e-5:
            return Outcome(labels=labels + ["ill-conditioned-update"], nontrivial=False)
        pmax = max(float(np.max(np.abs(v))) for v in ref[who].values())
        # 2e-4 of the largest total step (fused vs. stepwise float32 evaluation of the same gradients; observed
        # on the unchanged tree: <= 2e-6), a few ulp of the largest parameter, and the measured sensitivity to
        # 1e-6 relative perturbations of the starting parameters
        tol = 2e-4 * big + 4.0 * float(np.spacing(np.float32(max(pmax, 1e-3)))) + 3.0 * cond
        worst = dev(after[who], ref[who])
        check(np.isfinite(worst) and worst <= tol,
              f"ppo_update.{who}_params_follow_epochs_on_rollout_time_surrogate",
              lambda: f"epochs={epochs} n_envs={ne} head={case['head']} lr_actor={lr_actor} "
                      f"lr_critic={case['lr_critic']}: max |param - reference| = {worst:.4g} (largest reference "
                      f"step {big:.4g}, tolerance {tol:.4g}); favoured-clipped samples per epoch "
                      f"{[int(f.sum()) for f in fav]}, ratios at the last epoch {ref['trace'][-1][0].tolist()}, "
                      f"advantages {adv.tolist()}")
    lref, lprobe = ref["losses"][-1], probe["losses"][-1]
    lscale = max(1.0, abs(lref), float(np.max(np.abs(adv))) * (1.0 + clip), float(np.max(ref["ret"] ** 2)))
    check(np.shape(loss) == () and abs(float(loss) - lref) <= 1e-4 * lscale + 3.0 * abs(lprobe - lref),
          "ppo_update.returns_loss_of_last_epoch",
          lambda: f"epochs={epochs}: returned {float(loss)}, reference loss of epoch {epochs}: {lref} "
                  f"(per epoch {ref['losses']})")
    labels += [f"fav-clipped@e>=2={min(n_fav_late, 3)}", "ratios-left-clip-range" if n_out_late else "ratios-inside",
               "actor-moves" if steps["actor"] > 0 else "actor-still",
               "terminations" if any(case["term"]) else "no-termination"]
    return Outcome(labels=labels, nontrivial=epochs >= 2 and n_fav_late >= 1 and steps["actor"] > 0)


def _simplify_upd(case):
    if case["epochs"] > 1:
        yield dict(case, epochs=case["epochs"] - 1)
    if any(case["term"]):
        yield dict(case, term=[0] * case["n"])
    for k, v in (("pscale", 1.0), ("obs_scale", 1.0), ("box", "unit"), ("rew_scale", 1.0), ("nv_mode", "free"),
                 ("lr_mode", "fixed"), ("lr_actor", 1.0), ("lr_critic", 0.1), ("net_seed", 0), ("data_seed", 0), ("critic_seed", 0)):
        if case[k] != v:
            yield dict(case, **{k: v})
    for sig in SIGS_UPD[:2]:
        head, n_envs, T, obs_dim, act_dim, hidden, shared, cshape = sig
        if (case["head"], case["n_envs"], case["T"]) != (head, n_envs, T):
            yield dict(case, head=head, n_envs=n_envs, T=T, n=n_envs * T, obs_dim=obs_dim, act_dim=act_dim,
                       hidden=list(hidden), shared=shared, critic_shape=cshape, term=[0] * (n_envs * T))


# -------------------------------------------------- deterministic policy gradient

@st.composite
def dpg_cases(draw):
    variant = draw(st.sampled_from(["ddpg", "ddpg", "sale", "mrq"]))
    case = draw(_base(["det"]))
    case["variant"] = variant
    case["q_kind"] = draw(st.sampled_from(["N1", "N1", "N", "double"]))
    case["q_hidden"] = [4] if _QUICK() else draw(st.sampled_from([[4], [5, 3]]))
    case["q_seed"] = draw(gen.seeds())
    case["z_dim"] = 3 if _QUICK() else draw(st.sampled_from([2, 3]))
    case["enc_nodes"] = 4 if _QUICK() else draw(st.sampled_from([2, 4]))
    case["act_weight"] = draw(st.sampled_from([0.0, 1e-5, 1.0, 10.0]))
    case["enc_last_act"] = draw(st.booleans())
    case["wrapper"] = draw(st.sampled_from([False, False, True]))
    case["lr"] = draw(st.sampled_from([1.0, 0.5]))
    if not case["hidden"]:
        case["hidden"] = [4]
    return case


def _tanh_scale_jax(y, space):
    jnp = _jnp()
    lo = np.asarray(space.low, dtype=np.float64)
    hi = np.asarray(space.high, dtype=np.float64)
    return jnp.tanh(y) * jnp.asarray((hi - lo) / 2.0, dtype=jnp.float32) + jnp.asarray((hi + lo) / 2.0,
                                                                                     dtype=jnp.float32)


def _avg_l1(x):
    jnp = _jnp()
    return x / jnp.maximum(jnp.mean(jnp.abs(x), axis=-1, keepdims=True), 1e-8)


def _unchanged(before, module, key, what):
    from vlib.instruments import diff_states, state_bytes

    d = diff_states(before, state_bytes(module))
    check(not d, key, lambda: f"{what} changed: {d[:4]}")


def _sgd_step_check(key, old, new, g, lr, kappa=0.0, extra=None):
    """new == old - lr * g up to float32 rounding of the subtraction and of the
    (jitted) gradient computed inside the wrapper.  ``extra``: measured per-leaf float32 conditioning of the
    gradient (pn.grad_sensitivity), e.g. a saturated tanh whose derivative 1 - tanh^2 cancels: the jitted and the
    eager gradient then differ by more than 1e-3 of a gradient that is itself tiny (witness
    replays/regress/C12_dpg_falsealarm_saturated_tanh_sgd_step.json)."""
    G = max(float(np.max(np.abs(v))) for v in g.values())
    for k in old:
        # 2e-7: float32 noise floor of a gradient whose intermediate values are O(1), whatever its own size
        tol = 4e-7 * np.abs(old[k]) + lr * (1e-3 * np.abs(g[k]) + (2e-5 + 4e-7 * kappa) * G + 2e-7)
        if extra is not None:
            tol = tol + lr * np.asarray(extra[k])
        check(bool(np.all(np.abs(new[k] - (old[k] - lr * g[k])) <= tol)), key,
              lambda: f"{k}: max dev {np.max(np.abs(new[k] - (old[k] - lr * g[k])))}")


def run_dpg(case):
    jnp = _jnp()
    import optax
    from flax import nnx
    from rl_blox.blox.double_qnet import ContinuousClippedDoubleQNet
    from rl_blox.blox.function_approximator.policy_head import DeterministicTanhPolicy
    from vlib.instruments import state_bytes

    n, od, ad = case["n"], case["obs_dim"], case["act_dim"]
    variant = case["variant"]
    space = pn.box_for(case["box"], ad)
    obs = jnp.asarray(_obs(case))
    labels = [variant, f"n={n}", "box=" + case["box"]]
    lr = case["lr"]
    try:
        if variant == "ddpg":
            from rl_blox.algorithm.ddpg import ddpg_update_actor
            from rl_blox.blox.losses import deterministic_policy_gradient_loss

            policy = DeterministicTanhPolicy(
                pn.make_mlp(od, ad, case["hidden"], case["net_seed"], "relu", case["pscale"]), space)
            q1 = pn.make_mlp(od + ad, 1, case["q_hidden"], case["q_seed"], "tanh")
            if case["q_kind"] == "double":
                q = ContinuousClippedDoubleQNet(q1, pn.make_mlp(od + ad, 1, case["q_hidden"], case["q_seed"] + 1, "tanh"))
            elif case["q_kind"] == "N":
                q = _classes()["FlatCritic"](q1)
            else:
                q = q1
            labels.append("q=" + case["q_kind"])
            loss, grad = nnx.value_and_grad(deterministic_policy_gradient_loss, argnums=2)(q, obs, policy)
            a32 = np.asarray(policy(obs))
            qv = np.asarray(q(jnp.concatenate((obs, jnp.asarray(a32)), axis=-1)), dtype=np.float64).reshape(-1)
            ref = -qv.mean()
            vscale = max(1e-3, np.abs(qv).max())

            def objective(pol, q):
                a = _tanh_scale_jax(pol.policy_net(obs), space)
                return -jnp.mean(q(jnp.concatenate((obs, a), axis=-1)))

            consts = (q,)

            a_ref = np.tanh(np.asarray(policy.policy_net(obs), dtype=np.float64)) * (
                space.high.astype(np.float64) - space.low) / 2.0 + (space.high.astype(np.float64) + space.low) / 2.0
            target, others = policy, {"q": q}

            def wrapper(opt):
                return ddpg_update_actor(policy, opt, q, obs)

        elif variant == "sale":
            from rl_blox.algorithm.td7 import deterministic_policy_gradient_loss_sale, td7_update_actor
            from rl_blox.blox.embedding.sale import ActorSALE, CriticSALE, DeterministicSALEPolicy, SALE

            zd, en = case["z_dim"], case["enc_nodes"]
            emb = SALE(pn.make_mlp(od, zd, [4], case["net_seed"] + 1, "elu"),
                       pn.make_mlp(zd + ad, zd, [4], case["net_seed"] + 2, "elu"))
            inner = DeterministicTanhPolicy(
                pn.make_mlp(en + zd, ad, case["hidden"], case["net_seed"], "relu", case["pscale"]), space)
            actor = ActorSALE(inner, od, en, nnx.Rngs(case["net_seed"] + 3))
            crit = [CriticSALE(pn.make_mlp(en + 2 * zd, 1, case["q_hidden"], case["q_seed"] + i, "elu"),
                               od, ad, en, nnx.Rngs(case["q_seed"] + 10 + i)) for i in range(2)]
            critic = ContinuousClippedDoubleQNet(*crit)
            loss, grad = nnx.value_and_grad(deterministic_policy_gradient_loss_sale, argnums=3)(
                emb, critic, obs, actor)
            sale_policy = DeterministicSALEPolicy(emb, actor)

            def forward(act_mod, emb, *crit):
                zs = _avg_l1(emb._state_embedding(obs))
                h = _avg_l1(act_mod.l0(obs))
                a = _tanh_scale_jax(act_mod.policy_net.policy_net(jnp.concatenate((h, zs), axis=-1)), space)
                zsa = emb.state_action_embedding(jnp.concatenate((zs, a), axis=-1))
                qs = []
                for cr in crit:
                    hq = _avg_l1(cr.q0(jnp.concatenate((obs, a), axis=-1)))
                    qs.append(cr.q_net(jnp.concatenate((hq, zsa, zs), axis=-1)))
                return a, qs

            def objective(act_mod, emb, *crit):
                _, qs = forward(act_mod, emb, *crit)
                return -jnp.mean(0.5 * (qs[0] + qs[1]))

            consts = (emb, *crit)
            a_j, qs = forward(actor, emb, *crit)
            a32 = np.asarray(sale_policy(obs))
            a_ref = np.asarray(a_j, dtype=np.float64)
            qv = 0.5 * (np.asarray(qs[0], dtype=np.float64) + np.asarray(qs[1], dtype=np.float64)).reshape(-1)
            ref = -qv.mean()
            vscale = max(1e-3, np.abs(qv).max())
            target, others = actor, {"embedding": emb, "critic": critic}

            def wrapper(opt):
                return td7_update_actor(sale_policy, opt, critic, obs)

        else:  # mrq
            from rl_blox.algorithm.mrq import mrq_policy_loss
            from rl_blox.blox.embedding.model_based_encoder import DeterministicPolicyWithEncoder, ModelBasedEncoder
            from rl_blox.blox.function_approximator.layer_norm_mlp import LayerNormMLP

            zd = case["z_dim"]
            enc = ModelBasedEncoder(n_state_features=od, n_action_features=ad, n_bins=5, zs_dim=zd, za_dim=2,
                                    zsa_dim=zd + 1, hidden_nodes=[4], activation="elu",
                                    encoder_activation_in_last_layer=case["enc_last_act"],
                                    rngs=nnx.Rngs(case["net_seed"] + 1))
            policy = DeterministicTanhPolicy(
                pn.make_mlp(zd, ad, case["hidden"], case["net_seed"], "relu", case["pscale"]), space)
            q = ContinuousClippedDoubleQNet(
                LayerNormMLP(zd + 1, 1, case["q_hidden"], "elu", rngs=nnx.Rngs(case["q_seed"])),
                LayerNormMLP(zd + 1, 1, case["q_hidden"], "elu", rngs=nnx.Rngs(case["q_seed"] + 1)))
            zs = enc.encode_zs(obs)
            w = float(np.float32(case["act_weight"]))
            (loss, (dpg_c, reg_c)), grad = nnx.value_and_grad(mrq_policy_loss, argnums=0, has_aux=True)(
                policy, q, enc, zs, w)
            pwe = DeterministicPolicyWithEncoder(enc, policy)
            a32 = np.asarray(pwe(obs))

            def parts(pol, q, enc):
                act = pol.policy_net(zs)
                a = _tanh_scale_jax(act, space)
                zsa = enc.encode_zsa(zs, a)
                return act, a, jnp.minimum(q.q1(zsa), q.q2(zsa))

            def objective(pol, q, enc):
                act, _, qmin = parts(pol, q, enc)
                return -jnp.mean(qmin) + w * jnp.mean(act * act)

            consts = (q, enc)
            act_j, a_j, qmin = parts(policy, q, enc)
            a_ref = np.asarray(a_j, dtype=np.float64)
            qv = np.asarray(qmin, dtype=np.float64).reshape(-1)
            act64 = np.asarray(act_j, dtype=np.float64)
            ref_dpg, ref_reg = -qv.mean(), (act64 ** 2).mean()
            ref = ref_dpg + w * ref_reg
            vscale = max(1e-3, np.abs(qv).max(), w * (act64 ** 2).max())
            check(close(float(dpg_c), ref_dpg, scale=max(1e-3, np.abs(qv).max())), "dpg.mrq.component.dpg",
                  lambda: f"{float(dpg_c)} vs {ref_dpg}")
            check(close(float(reg_c), ref_reg, scale=max(1e-3, (act64 ** 2).max())), "dpg.mrq.component.regularization",
                  lambda: f"{float(reg_c)} vs {ref_reg}")
            labels.append(f"w={w:g}")
            target, others = policy, {"q": q, "encoder": enc}
            wrapper = None
    except Exception as e:  # noqa: BLE001
        if n == 1:
            return Outcome(labels=labels + ["batch1-rejected:" + type(e).__name__], nontrivial=False)
        raise

    sub = "dpg." + variant
    amax = float(np.max(np.abs([space.low, space.high])))
    check(close(a32, a_ref, scale=amax, rel=1e-5, abs_=4e-6), sub + ".action_is_tanh_scaled_to_box",
          lambda: f"policy={a32.tolist()} ref={np.asarray(a_ref).tolist()}")
    check(np.shape(loss) == (), sub + ".value.shape", f"{np.shape(loss)}")
    check(close(float(loss), ref, scale=vscale), sub + ".value", lambda: f"loss={float(loss)} ref={ref} q={qv.tolist()}")
    gref = pn.grad_of(target, objective, consts)
    # SALE / MR.Q critics and encoders normalise (LayerNorm, avg-L1): allow the measured float32 conditioning
    sens = pn.grad_sensitivity(target, objective, consts, gref)
    g = _grad_check(sub + ".grad", grad, gref, None, f"loss={float(loss)}", extra=sens)
    gn = pn.grad_norm(gref)
    if case["wrapper"] and wrapper is not None:
        before = {k: state_bytes(m) for k, m in others.items()}
        old = pn.flat_params(target)
        opt = nnx.Optimizer(target, optax.sgd(lr), wrt=nnx.Param)
        wl = wrapper(opt)
        check(close(float(wl), ref, scale=vscale), sub + ".update.returns_loss", lambda: f"{float(wl)} vs {ref}")
        for k, m in others.items():
            _unchanged(before[k], m, sub + ".update.gradient_reaches_only_actor", k)
        _sgd_step_check(sub + ".update.actor_moves_by_minus_lr_grad", old, pn.flat_params(target), g, lr, extra=sens)
        labels.append("wrapper")
    labels.append("grad>0" if gn > 0 else "grad=0")
    return Outcome(labels=labels, nontrivial=n >= 2 and gn > 0)


# ------------------------------------------------------------------ SAC actor

@st.composite
def sac_cases(draw):
    case = draw(_base(["tanh_gaussian", "tanh_gaussian", "gaussian"]))
    case["q_hidden"] = [4] if _QUICK() else draw(st.sampled_from([[4], [5, 3]]))
    case["q_seed"] = draw(gen.seeds())
    case["q_kind"] = draw(st.sampled_from(["N1", "N", "N1"]))
    case["alpha"] = draw(st.one_of(st.sampled_from([0.0, 0.2, 1.0]), gen.f32(0.0, 5.0)))
    case["alpha_array"] = draw(st.booleans())
    case["key_seed"] = draw(gen.seeds())
    case["wrapper"] = draw(st.sampled_from([False, False, True]))
    case["lr"] = draw(st.sampled_from([1.0, 0.5]))
    return case


def _sac_parts(case):
    from rl_blox.blox.double_qnet import ContinuousClippedDoubleQNet

    od, ad = case["obs_dim"], case["act_dim"]
    policy, info = _policy(case)
    qs = [pn.make_mlp(od + ad, 1, case["q_hidden"], case["q_seed"] + i, "tanh") for i in range(2)]
    if case.get("q_kind", "N1") == "N":  # critics with output shape (N,)
        qs = [_classes()["FlatCritic"](m) for m in qs]
    return policy, info, ContinuousClippedDoubleQNet(*qs)


def _noise(case, policy, info, obs, actions):
    """Standardised noise (a - mean) / std of the actions actually sampled."""
    y, lv = policy.net(obs)
    std = pn.gaussian_std_ref(np.asarray(lv))
    mean = pn.tanh_mean_ref(np.asarray(y), info["scale"], info["bias"]) if case["head"] == "tanh_gaussian" \
        else np.asarray(y, dtype=np.float64)
    return (np.asarray(actions, dtype=np.float64) - mean) / std


def run_sac(case):
    jnp = _jnp()
    import jax
    import optax
    from flax import nnx
    from rl_blox.algorithm.sac import sac_actor_loss, sac_update_actor
    from vlib.instruments import state_bytes

    n = case["n"]
    policy, info, q = _sac_parts(case)
    obs = jnp.asarray(_obs(case))
    key = jax.random.key(case["key_seed"])
    a32 = np.float32(case["alpha"])
    alpha = jnp.asarray([a32]) if case["alpha_array"] else float(a32)
    labels = [case["head"], f"n={n}", "alpha=0" if a32 == 0 else "alpha>0", "q=" + case.get("q_kind", "N1")]
    try:
        loss, grad = nnx.value_and_grad(sac_actor_loss, argnums=0)(policy, q, alpha, key, obs)
    except Exception as e:  # noqa: BLE001
        if n == 1:
            return Outcome(labels=labels + ["batch1-rejected:" + type(e).__name__], nontrivial=False)
        raise
    actions = policy.sample(obs, key)
    check(np.shape(actions) == (n, case["act_dim"]), "sac_actor.harness.sample_shape", f"{np.shape(actions)}")
    logp = pn.ref_logp64(case["head"], policy, info, obs, actions)
    err, kappa = pn.logp_conditioning(case["head"], policy, info, obs, actions)
    if kappa > KAPPA_MAX:
        return Outcome(labels=labels + ["ill-conditioned"], nontrivial=False)
    qv = np.asarray(q(jnp.concatenate((obs, actions), axis=-1)), dtype=np.float64).reshape(-1)
    terms = float(a32) * logp - qv
    ref = terms.mean()
    scale = max(1e-3, np.abs(float(a32) * logp).max(), np.abs(qv).max())
    extra = float(a32) * err.mean()
    check(np.shape(loss) == (), "sac_actor.value.shape", f"{np.shape(loss)}")
    check(_within(loss, ref, scale, extra), "sac_actor.value",
          lambda: f"loss={float(loss)} ref={ref} alpha={float(a32)} logp={logp.tolist()} q={qv.tolist()}")
    eps = jnp.asarray(_noise(case, policy, info, obs, actions).astype(np.float32))

    def objective(pol, q):
        out = pol.net(obs)
        mean, std = pn.jax_mean_std(case["head"], out, info)
        a = mean + std * eps
        lp = pn.jax_logp(case["head"], out, a, info)
        oa = jnp.concatenate((obs, a), axis=-1)
        qq = jnp.minimum(q.q1(oa), q.q2(oa)).reshape(-1)
        return jnp.mean(a32 * lp - qq)

    gref = pn.grad_of(policy, objective, (q,))
    g = _grad_check("sac_actor.grad.pathwise", grad, gref, None, f"alpha={float(a32)}", kappa)
    gn = pn.grad_norm(gref)
    if case["wrapper"]:
        before = state_bytes(q)
        old = pn.flat_params(policy)
        opt = nnx.Optimizer(policy, optax.sgd(case["lr"]), wrt=nnx.Param)
        wl = sac_update_actor(policy, opt, q, key, obs, jnp.asarray([a32]) if case["alpha_array"] else jnp.asarray(a32))
        check(_within(wl, ref, scale, extra), "sac_actor.update.returns_loss", lambda: f"{float(wl)} vs {ref}")
        _unchanged(before, q, "sac_actor.update.gradient_reaches_only_actor", "q")
        _sgd_step_check("sac_actor.update.actor_moves_by_minus_lr_grad", old, pn.flat_params(policy), g, case["lr"],
                        kappa)
        labels.append("wrapper")
    labels.append("grad>0" if gn > 0 else "grad=0")
    return Outcome(labels=labels, nontrivial=n >= 2 and gn > 0)


# ----------------------------------------------------------- SAC temperature

_LA_RANGES = {"inner": (-2.0, 2.0), "above2": (2.0, 8.0), "below-20": (-25.0, -20.0), "negative": (-20.0, -2.0)}


@st.composite
def _log_alphas(draw):
    """Temperature parameter log(alpha) over its whole useful float32 range, not only around the initial
    value 0: alpha from ~1e-11 to ~3e3 (a run that stays below / above its entropy target for long drives
    log(alpha) far from 0; nothing in the documentation bounds it).  Regime first, then a position strictly
    inside it (Hypothesis' float strategies favour the end points, which all belong to the inner regime)."""
    regime = draw(st.sampled_from(["above2", "below-20", "inner", "above2", "below-20", "zero", "negative",
                                   "special"]))
    if regime == "zero":
        return 0.0
    if regime == "special":
        return draw(st.sampled_from([2.5, 3.0, 5.0, 8.0, -12.0, -20.5, -22.0, -25.0, 2.0, -20.0]))
    lo, hi = _LA_RANGES[regime]
    pos = (draw(st.sampled_from(list(range(40)))) + draw(st.sampled_from([0.25, 0.5, 0.75]))) / 40.0
    return float(np.float32(lo + (hi - lo) * pos))


@st.composite
def alpha_cases(draw):
    case = draw(_base(["tanh_gaussian", "tanh_gaussian", "gaussian"]))
    case["key_seed"] = draw(gen.seeds())
    # learning rates >= 1 walk log(alpha) out of [-2, 2] within the 1-3 updates of a case
    case["lr"] = draw(st.sampled_from([0.1, 1e-3, 3e-4, 0.1, 1.0, 3.0]))
    # target entropy: the documented default (-action dim) or placed at a chosen offset from the
    # sampled entropy estimate (both sides, from far to close)
    # (sign and size are separate draws; offsets > 0 put the estimate below the target: alpha has to rise)
    if draw(st.sampled_from(["placed", "default", "placed", "placed", "placed"])) == "default":
        case["target"] = None
    else:
        case["target"] = draw(st.sampled_from([1, 1, 1, -1, -1])) * draw(st.sampled_from([1.0, 0.1, 1e-2, 10.0]))
    case["log_alpha"] = draw(_log_alphas())
    # log(alpha) at which EntropyControl starts: None = as constructed (0), else placed
    case["init_log_alpha"] = draw(_log_alphas()) if draw(st.sampled_from([1, 1, 1, 0])) else None
    case["n_updates"] = draw(st.sampled_from([2, 1, 3, 1]))
    case["autotune"] = draw(st.sampled_from([True, True, True, True, True, False]))
    return case


def _la_class(la):
    return "la>2" if la > 2.0 else ("la<-20" if la < -20.0 else ("la=0" if la == 0.0 else "la-in[-20,2]"))


def run_alpha(case):
    jnp = _jnp()
    import jax
    from flax import nnx
    from rl_blox.algorithm.sac import EntropyCoefficient, EntropyControl, sac_exploration_loss

    n, ad = case["n"], case["act_dim"]
    policy, info = _policy(case)
    obs = jnp.asarray(_obs(case))
    key = jax.random.key(case["key_seed"])
    actions = policy.sample(obs, key)
    logp = pn.ref_logp64(case["head"], policy, info, obs, actions)
    err, kappa = pn.logp_conditioning(case["head"], policy, info, obs, actions)
    h_est = -logp.mean()  # sampled estimate of the policy's entropy
    labels = [case["head"], f"n={n}"]
    if kappa > KAPPA_MAX:
        return Outcome(labels=labels + ["ill-conditioned"], nontrivial=False)

    class _Env:
        action_space = pn.box_for(case["box"], ad)

    if not case["autotune"]:
        ec = EntropyControl(_Env(), 0.2, False, case["lr"])
        out = ec.update(policy, obs, key)
        check(float(out) == 0.0 and float(ec.alpha_) == 0.2, "sac_alpha.fixed_alpha_unchanged",
              f"update returned {out}, alpha_={ec.alpha_}")
        return Outcome(labels=labels + ["autotune-off"], nontrivial=False)

    lr = float(case["lr"])
    ec = EntropyControl(_Env(), 0.2, True, lr)
    check(float(ec.target_entropy) == -float(ad), "sac_alpha.default_target_is_minus_action_dim",
          f"{ec.target_entropy} for action dim {ad}")
    if case["target"] is not None:
        ec.target_entropy = float(np.float32(h_est + case["target"]))
    target = float(ec.target_entropy)
    margin = 2e-5 * (1.0 + np.abs(logp).max() + abs(target)) + err.mean()
    sc = max(1e-3, np.abs(logp).max() + abs(target))
    side = "below" if h_est < target - margin else ("above" if h_est > target + margin else "tie")
    check(float(np.asarray(ec.alpha_).reshape(-1)[0]) == 1.0, "sac_alpha.initial_alpha_is_one", f"{ec.alpha_}")
    if case.get("init_log_alpha") is not None:
        # the coefficient module of an EntropyControl somewhere in a long run (its optimizer is still fresh)
        ec._alpha.log_alpha.value = jnp.asarray([np.float32(case["init_log_alpha"])])
        ec.alpha_ = ec._alpha()

    def read():
        la = np.asarray(ec._alpha.log_alpha.value, dtype=np.float32).reshape(-1)[0]
        return la, float(np.asarray(ec.alpha_).reshape(-1)[0])

    # ---- 1-3 consecutive EntropyControl.update steps on the same batch / key: the entropy estimate stays on
    # the same side of the target, so every step has to move the temperature the same way
    min_rel = 1.0  # smallest |g| / (|g| + 1e-8) so far: Adam's step is about lr times this
    la_path = []
    for j in range(case.get("n_updates", 1)):
        la0, alpha0 = read()
        a_ref = float(np.exp(np.float64(la0)))
        check(close(alpha0, a_ref, rel=1e-5, abs_=1e-37), "sac_alpha.alpha_is_exp_of_log_alpha",
              lambda: f"alpha_={alpha0} but exp(log_alpha={float(la0)})={a_ref} (before update {j + 1})")
        try:
            loss = ec.update(policy, obs, key)
        except Exception as e:  # noqa: BLE001
            if n == 1:
                return Outcome(labels=labels + ["batch1-rejected:" + type(e).__name__], nontrivial=False)
            raise
        la1, alpha1 = read()
        la_path.append([float(la0), float(la1)])
        ref_loss = (-a_ref * (logp + target)).mean()
        check(_within(loss, ref_loss, a_ref * sc, a_ref * err.mean()), "sac_alpha.update.loss_value",
              lambda: f"{float(loss)} vs {ref_loss} (log_alpha {float(la0)}, target {target}, entropy estimate {h_est})")
        check(close(alpha1, float(np.exp(np.float64(la1))), rel=1e-5, abs_=1e-37),
              "sac_alpha.alpha_is_exp_of_log_alpha",
              lambda: f"alpha_={alpha1} but exp(log_alpha={float(la1)}) after update {j + 1}")
        if side == "tie":
            break
        # Compared on log(alpha) (what the optimizer moves; alpha = exp of it is monotone).  Strict movement
        # is demanded only where the step is resolvable in float32: Adam moves log(alpha) by about
        # lr * |g| / (|g| + 1e-8); for alpha ~ 1e-9 and below |g| drops under Adam's epsilon and the step can
        # vanish next to |log(alpha)| ~ 20.
        g_abs = a_ref * abs(h_est - target)
        min_rel = min(min_rel, g_abs / (g_abs + 1e-8))
        resolvable = 0.1 * lr * min_rel > 4.0 * float(np.spacing(np.float32(max(abs(float(la0)), 1.0))))
        up = side == "below"
        moved_right = (la1 > la0) if up else (la1 < la0)
        not_wrong = (la1 >= la0 and alpha1 >= alpha0) if up else (la1 <= la0 and alpha1 <= alpha0)
        detail = (f"update {j + 1}: entropy estimate {h_est} {'<' if up else '>'} target {target}, lr {lr}, "
                  f"log_alpha {float(la0)} -> {float(la1)}, alpha {alpha0} -> {alpha1}")
        check(not_wrong, "sac_alpha.update.alpha_rises_iff_entropy_below_target", detail)
        if resolvable:
            check(moved_right, "sac_alpha.update.alpha_rises_iff_entropy_below_target", detail)
        labels.append("step-resolvable" if resolvable else "step-below-f32-resolution")
        labels.append("update-at:" + _la_class(float(la0)))
    # ---- temperature loss and its gradient at a generated log-alpha
    la = np.float32(case["log_alpha"])
    coef = EntropyCoefficient(jnp.asarray([la]))
    lv, g = nnx.value_and_grad(sac_exploration_loss, argnums=4)(policy, target, key, obs, coef)
    a = float(np.exp(np.float64(la)))
    check(_within(lv, (-a * (logp + target)).mean(), a * sc, a * err.mean()), "sac_alpha.loss.value",
          lambda: f"{float(lv)} vs {(-a * (logp + target)).mean()} (log_alpha {float(la)})")
    gl = float(np.asarray(nnx.state(g)["log_alpha"].value).reshape(-1)[0])
    gl_ref = -a * (logp.mean() + target)
    check(_within(gl, gl_ref, a * sc, a * err.mean()), "sac_alpha.loss.grad_log_alpha",
          lambda: f"{gl} vs {gl_ref} (log_alpha {float(la)})")
    if side != "tie":
        # descent on this loss raises alpha exactly when the entropy estimate is below the target
        check((gl < 0) == (side == "below") and gl != 0, "sac_alpha.loss.descent_direction",
              f"grad {gl} at log_alpha {float(la)}, entropy estimate {h_est}, target {target}")
    labels += ["entropy-" + side, "target=default" if case["target"] is None else "target=placed",
               "init=" + ("default" if case.get("init_log_alpha") is None else "placed"),
               "grad-at:" + _la_class(float(la)), f"updates={len(la_path)}"]
    return Outcome(labels=labels, nontrivial=side != "tie" and n >= 1)


def _simplify(case):
    """Greedy minimiser candidates (cases cost ~0.5 s, so Hypothesis' shrink phase is off):
    smaller batch, plain network / data settings, no update wrapper."""
    n = case["n"]
    for m in (2, 1, 3):
        if m < n:
            c = dict(case, n=m)
            for k in ("w", "adv", "ret", "regions"):
                if k in c:
                    c[k] = c[k][:m]
            yield c
    for k, v in (("pscale", 1.0), ("obs_scale", 1.0), ("box", "unit"), ("shared", False), ("hidden", [4]),
                 ("wrapper", False), ("ret_mode", "near"), ("v_scale", 1.0), ("net_seed", 0), ("data_seed", 0),
                 ("q_seed", 0), ("critic_seed", 0), ("v_seed", 0), ("key_seed", 0), ("obs_dim", 3)):
        if k in case and case[k] != v:
            yield dict(case, **{k: v})
    for k in ("w", "adv", "ret"):
        if k in case:
            simple = [float(np.sign(x)) if x else 0.0 for x in case[k]]
            if simple != case[k]:
                yield dict(case, **{k: simple})


_SLOW = dict(shrink=False, suppress_too_slow=True, simplify=_simplify)

SUBCHECKS = [
    SubCheck("pg", pg_cases, run_pg, quick=110, thorough=5000, cost=3.0, shards=3,
             rule="effective weights of both signs, gradient norm > 0", **_SLOW),
    SubCheck("ppo", ppo_cases, run_ppo, quick=100, thorough=4000, cost=4.0, shards=3,
             rule="batch >= 2, both advantage signs, gradient norm > 0; mixed mode: both clip sides or a "
                  "favoured-clipped sample next to a contributing one", **_SLOW),
    SubCheck("ppo_update", ppo_update_cases, run_ppo_update, quick=72, thorough=3000, cost=5.0, shards=3,
             rule="epochs >= 2, the actor moves, and at least one sample is clipped on its favoured side at the "
                  "start of an epoch >= 2 of the reference", shrink=False, suppress_too_slow=True,
             simplify=_simplify_upd),
    SubCheck("dpg", dpg_cases, run_dpg, quick=72, thorough=3000, cost=4.0, shards=3,
             rule="batch >= 2 and gradient norm > 0", **_SLOW),
    SubCheck("sac_actor", sac_cases, run_sac, quick=48, thorough=2000, cost=4.0, shards=2,
             rule="batch >= 2 and gradient norm > 0", **_SLOW),
    SubCheck("sac_alpha", alpha_cases, run_alpha, quick=48, thorough=2000, cost=2.0, shards=2,
             rule="entropy estimate separated from the target (either side)", **_SLOW),
]
