"""C04 Sampled subtrajectories are contiguous single-episode runs.

A *case* is a buffer configuration (uniform / prioritized variant, storage horizon H,
capacity H+1..H+10) plus a JSON list of operations

    ["run", k, end]                   k normal steps, then one step ending the episode with
                                      end in {"none", "term", "trunc", "both"} ("none": no end step)
    ["check", h, inter]               enumerate EVERY admissible start with one sample_batch call
                                      through a StubGenerator (uniform: integers -> arange;
                                      prioritized: uniforms at the midpoints of all positive
                                      cumulative priority intervals) and validate every window;
                                      inter = 0 additionally validates the reduced view
    ["sample", h, inter, b, seed, u]  the same with np.random.default_rng(seed) and batch size b
                                      (prioritized, u = 1: followed by update_priority)
    ["prio", seed]                    prioritized only: sweep, then update_priority with generated
                                      positive values (one per admissible start)
    ["reset_max"]                     prioritized only: reset_max_priority()

interpreted against the real buffer and a list-based reference (the list of all steps ever
added).  Observations are tagged [episode, t, global step index, salt] (salt = hash of the case); action, reward and
next_observation carry the same tags, so every sampled row is decodable.  With "dense": 1 the
interpreter also performs check(h = H, inter = 1) after every single addition, i.e. in every
reachable buffer state.  The same interpreter (`run`) serves Hypothesis, `--replay` and the
optional coverage-guided tier (vlib/fuzz_ops.py).

Interpretation (DESIGN.md §5 C04, deliberate): the clauses are applied to the prefix of each
window up to and including its first terminated row; rows after it must only be written slots.
"""
import numpy as np
from hypothesis import strategies as st

from vlib import gen
from vlib.core import Outcome, SubCheck, check, fingerprint
from vlib.instruments import StubGenerator

PROPERTY = "C04"
RULE = (
    "Cases are histories of normal / terminating / truncating steps (runs of 0-8 normal steps followed "
    "by an optional episode end, incl. one-step and back-to-back one-step episodes) interleaved with "
    "exhaustive window checks, seeded-generator samples and (prioritized variant) priority updates, over "
    "storage horizons 1-5, capacities horizon+1..horizon+10, sampling horizons <= storage horizon, drawn "
    "by Hypothesis. Non-trivial: some check returned at least one window at a moment when more steps had "
    "been added than the capacity (wrap-around) and the last `capacity` steps contained a terminated "
    "episode shorter than the storage horizon or a truncated episode. Distinct = distinct (variant, "
    "horizon, capacity, sequence of step kinds, sets of admissible starts seen by the explicit checks)."
)
ASSUMPTIONS = [
    "prefix interpretation: contiguity / same-episode / no-truncated-step / field-alignment clauses apply to the "
    "window prefix up to and including the first terminated row (the part downstream code uses); later rows "
    "are only required to be slots written during this case (they carry the case's salt)",
    "default keys and dtypes (the configuration used by MR.Q); capacity > storage horizon; sampling horizon <= storage horizon",
    "priorities passed to update_priority are positive (LAP priorities are >= min_priority > 0)",
    "sampling is only requested when at least one admissible start exists (mask_ is read for this precondition only; "
    "for the prioritized sweep priority*mask is read to place the uniforms)",
    "soundness of sampled windows is checked, not completeness of the admissible-start set (the statement does not demand it)",
]

END_KINDS = ("none", "term", "trunc", "both")


def _max_steps():
    return 60 if gen.tier() == "quick" else 400


class Interp:
    def __init__(self, case):
        from rl_blox.blox.replay_buffer import (
            SubtrajectoryReplayBuffer,
            SubtrajectoryReplayBufferPER,
        )

        self.case = case
        self.per = case["variant"] == "per"
        self.H = int(case["H"])
        self.N = int(case["capacity"])
        self.A = int(case["act_dim"])
        # Per-case salt derived from the case content: deterministic for a case, different for
        # different cases, so rows left in uninitialised memory by OTHER cases never look written.
        self.salt = float(1 + int(fingerprint(case), 16) % (2**20))
        cls = SubtrajectoryReplayBufferPER if self.per else SubtrajectoryReplayBuffer
        self.buf = cls(self.N, horizon=self.H)
        # reference: every step ever added, g -> (episode, t, terminated, truncated)
        self.steps = []
        self.episode = 0
        self.t = 0
        self.labels = set()
        self.nt = False
        self.start_sets = []
        self.n_windows = 0

    # ------------------------------------------------------------- tagging
    def _obs(self, e, t, g):
        return np.array([e, t, g, self.salt], dtype=float)

    def _action(self, g):
        return np.array([g + 0.25, self.salt][: self.A], dtype=float)

    # ----------------------------------------------------------------- ops
    def apply(self, op):
        name = op[0]
        if not self.per and name in ("prio", "reset_max"):
            name, op = "check", ["check", self.H, 1]
        if name in ("check", "sample", "prio") and not self.steps:
            name, op = "run", ["run", 1, "none"]  # nothing stored yet: remapped to an addition
        getattr(self, "op_" + name)(*op[1:])

    def _add(self, term, trunc):
        g = len(self.steps)
        e, t = self.episode, self.t
        self.buf.add_sample(
            observation=self._obs(e, t, g), action=self._action(g), reward=g + 0.5,
            next_observation=self._obs(e, t + 1, g), terminated=bool(term), truncated=bool(trunc),
        )
        self.steps.append((e, t, int(term), int(trunc)))
        if term or trunc:
            length = t + 1
            if length == 1:
                self.labels.add("one-step-episode")
                if g >= 1 and (self.steps[g - 1][2] or self.steps[g - 1][3]):
                    self.labels.add("back-to-back-one-step")
            if term and not trunc and length < self.H:
                self.labels.add("terminated-episode-shorter-than-horizon")
            if trunc:
                self.labels.add("truncated-episode")
            self.episode += 1
            self.t = 0
        else:
            self.t += 1
        check(len(self.buf) <= self.N, "windows.len", lambda: f"len {len(self.buf)} > capacity {self.N}")
        if self.case.get("dense", 1):
            self._check_windows(self.H, True, None, f"after step {g}", record=False)

    def op_run(self, k, end):
        for _ in range(int(k)):
            self._add(False, False)
        if end != "none":
            self._add(end in ("term", "both"), end in ("trunc", "both"))

    def _h(self, h):
        return 1 + (int(h) - 1) % self.H

    def op_check(self, h, inter):
        self._check_windows(self._h(h), bool(inter), None, "check", record=True)

    def op_sample(self, h, inter, b, seed, upd=0):
        if not self._has_starts():
            self.labels.add("sample-remapped-no-starts")
            return self.op_check(h, inter)
        n = self._check_windows(self._h(h), bool(inter), (int(b), int(seed)), "sample", record=False)
        self.labels.add("seeded-sample")
        if self.per and upd:
            self.buf.update_priority(self._prio_values(seed, n))

    def op_prio(self, seed):
        n = self._check_windows(self.H, True, None, "prio-sweep", record=False)
        if n:
            self.buf.update_priority(self._prio_values(seed, n))
            self.labels.add("priorities-updated")

    def op_reset_max(self):
        self.buf.reset_max_priority()

    @staticmethod
    def _prio_values(seed, n):
        r = np.random.default_rng(int(seed))
        return np.exp(r.uniform(np.log(0.05), np.log(50.0), size=n))

    # ------------------------------------------------------------ sampling
    def _has_starts(self):
        L = len(self.buf)
        if L == 0:
            return False
        m = np.asarray(self.buf.mask_)
        if self.per:
            return bool(np.sum(self.buf.priority.priority[:L] * m[:L]) > 0)
        return bool(np.count_nonzero(m) > 0)

    def _rng(self, real):
        """Fresh generator object for one sample_batch call (None: no admissible start)."""
        if real is not None:
            return np.random.default_rng(real[1])
        if not self.per:
            return StubGenerator(integers=[lambda lo, hi, size: np.arange(lo, hi)])
        L = len(self.buf)
        w = self.buf.priority.priority[:L] * np.asarray(self.buf.mask_)[:L]
        c = np.cumsum(w)
        pos = w > 0
        if not pos.any():
            return None
        return StubGenerator(uniforms=[(c - 0.5 * w)[pos] / c[-1]])

    def _call(self, h, inter, real):
        rng = self._rng(real)
        if rng is None:
            return None
        b = real[0] if real is not None else self.N
        out = self.buf.sample_batch(b, h, inter, rng)
        if real is None:
            used = {c[0] for c in rng.calls}
            if ("uniform" if self.per else "integers") not in used or rng.q_int or rng.q_uni:
                self.labels.add("sweep-unsupported")  # sampler does not draw the way the stub expects
                return None
        return out

    def _check_windows(self, h, inter, real, where, record):
        """Validate every window of one sample_batch call; returns the number of windows."""
        full = self._call(h, True, real)
        if full is None:
            self.labels.add("no-starts")
            return 0
        F = {k: np.asarray(getattr(full, k)) for k in
             ("observation", "action", "reward", "next_observation", "terminated", "truncated")}
        B = F["observation"].shape[0]
        exp_shapes = {"observation": (B, h, 4), "action": (B, h, self.A), "reward": (B, h),
                      "next_observation": (B, h, 4), "terminated": (B, h), "truncated": (B, h)}
        for k, s in exp_shapes.items():
            check(F[k].shape == s, "windows.shape", lambda: f"{where}: {k} has shape {F[k].shape}, expected {s}")
        if real is not None:
            check(B == real[0], "windows.sample.batch_size", lambda: f"{where}: {B} windows for batch size {real[0]}")
        if B == 0:
            self.labels.add("no-starts")
        starts = []
        for w in range(B):
            starts.append(self._check_window({k: v[w] for k, v in F.items()}, h, where))
        self.n_windows += B
        if not inter:
            red = self._call(h, False, real)
            if red is not None:
                self._check_reduced(red, F, B, h, where)
                self.labels.add("reduced-view")
        if B:
            self._mark(starts)
            self.labels.add(f"h={'H' if h == self.H else '<H'}")
        if record:
            self.start_sets.append(sorted(starts))
        return B

    def _decode(self, row):
        return [float(x) for x in row]

    def _check_window(self, W, h, where):
        """Prefix rule: rows 0..k with k the first terminated row (or h-1)."""
        salt = self.salt
        nz = np.nonzero(W["terminated"])[0]
        k = int(nz[0]) if len(nz) else h - 1
        o0 = W["observation"][0]
        # unwritten slots may hold anything, NaN / inf included
        e, t, g = (int(x) if np.isfinite(x) and abs(x) < 2**31 else -1 for x in o0[:3])
        ok0 = bool(o0[3] == salt and o0[0] == e and o0[1] == t and o0[2] == g and 0 <= g < len(self.steps)
                   and self.steps[g][:2] == (e, t))
        check(ok0, "windows.start_not_a_stored_step",
              lambda: f"{where}: window starts at a row whose observation {self._decode(o0)} is no step of the "
                      f"history (successor row, unwritten or corrupted slot)")
        if not ok0:
            return -1
        for r in range(k + 1):
            gr = g + r
            desc = lambda: (f"{where}: window from step {g} (episode {e}, t={t}), h={h}, prefix length {k + 1}, row {r}: "
                            f"obs={self._decode(W['observation'][r])} action={self._decode(W['action'][r])} "
                            f"reward={float(W['reward'][r])} next={self._decode(W['next_observation'][r])} "
                            f"terminated={int(W['terminated'][r])} truncated={int(W['truncated'][r])}")
            exp_obs = np.array([e, t + r, gr, salt], dtype=np.float32)
            check(np.array_equal(W["observation"][r], exp_obs) and gr < len(self.steps)
                  and self.steps[gr][:2] == (e, t + r),
                  "windows.not_contiguous_same_episode", desc)
            if gr >= len(self.steps):
                return g
            exp_next = np.array([e, t + r + 1, gr, salt], dtype=np.float32)
            check(np.array_equal(W["next_observation"][r], exp_next), "windows.next_observation", desc)
            check(np.array_equal(W["action"][r], self._action(gr).astype(np.float32))
                  and float(W["reward"][r]) == gr + 0.5, "windows.field_alignment", desc)
            check(int(W["truncated"][r]) == 0, "windows.truncated_step", desc)
            check(int(W["truncated"][r]) == self.steps[gr][3] and int(W["terminated"][r]) == self.steps[gr][2],
                  "windows.flags", desc)
        n = len(self.steps)
        for r in range(k + 1, h):
            # "written slot": both observation tags carry this case's salt and the index of a
            # step that has ALREADY been added.  (Uninitialised memory can hold anything,
            # including rows left behind by an earlier execution of the same case in this
            # process; such rows sit in slots whose first write is still to come, so they
            # carry indices >= n.)
            o, nx = W["observation"][r], W["next_observation"][r]
            check(bool(o[3] == salt and nx[3] == salt and 0 <= o[2] < n and 0 <= nx[2] < n
                       and (self.A < 2 or W["action"][r][1] == salt)),
                  "windows.unwritten_row",
                  lambda: f"{where}: window from step {g}, row {r} (after the first terminated row) was never "
                          f"written: obs={self._decode(o)} next={self._decode(nx)} ({n} steps added so far)")
        if k < h - 1:
            self.labels.add("window-terminated-before-horizon")
        return g

    def _check_reduced(self, red, F, B, h, where):
        R = {k: np.asarray(getattr(red, k)) for k in F}

        def same(a, b):
            return a.shape == b.shape and a.dtype == b.dtype and a.tobytes() == b.tobytes()

        check(same(R["observation"], F["observation"][:, 0]), "windows.reduced.observation",
              lambda: f"{where} h={h}: reduced observation {R['observation'].tolist()} != first step's "
                      f"{F['observation'][:, 0].tolist()}")
        check(same(R["action"], F["action"][:, 0]), "windows.reduced.action",
              lambda: f"{where} h={h}: reduced action {R['action'].tolist()} != first step's {F['action'][:, 0].tolist()}")
        check(same(R["next_observation"], F["next_observation"][:, -1]), "windows.reduced.next_observation",
              lambda: f"{where} h={h}: reduced next_observation {R['next_observation'].tolist()} != last step's "
                      f"{F['next_observation'][:, -1].tolist()}")
        for k in ("reward", "terminated", "truncated"):
            check(same(R[k], F[k]), "windows.reduced.per_step",
                  lambda: f"{where} h={h}: reduced {k} {R[k].tolist()} != per-step {F[k].tolist()}")

    def _mark(self, starts):
        n = len(self.steps)
        if n > self.N:
            self.labels.add("checked-after-wrap")
            recent = self.steps[n - self.N:]
            # episode lengths of episodes that ended inside the last `capacity` steps
            special = False
            for (e, t, term, trunc) in recent:
                if trunc or (term and t + 1 < self.H):
                    special = True
            if special:
                self.nt = True


def run(case):
    it = Interp(case)
    for op in case["ops"]:
        it.apply(op)
    if not case.get("dense", 1) or not it.start_sets:
        it._check_windows(it.H, False, None, "final check", record=True)
    labels = sorted(it.labels) + [f"variant={case['variant']}", f"H={case['H']}",
                                  "dense" if case.get("dense", 1) else "sparse"]
    if len(it.steps) > it.N:
        labels.append("wrapped")
    kinds = "".join("nTtb"[2 * trunc + term] if (term or trunc) else "n" for (_, _, term, trunc) in it.steps)
    fp = [case["variant"], case["H"], case["capacity"], kinds, it.start_sets]
    return Outcome(labels=labels, nontrivial=it.nt and it.n_windows > 0, fp=fp)


# ------------------------------------------------------------------ generator

@st.composite
def cases(draw):
    variant = draw(st.sampled_from(["uniform", "per"]))
    H = draw(st.integers(1, 5))
    cap = H + draw(st.one_of(st.integers(1, 10), st.sampled_from([1, 2, 3])))
    run_k = st.one_of(st.integers(0, 3), st.integers(0, H + 3), st.sampled_from([0, 0, H - 1, H, H + 1]))
    end = st.sampled_from(["none", "term", "term", "term", "trunc", "trunc", "both"])
    run_op = st.tuples(st.just("run"), run_k, end)
    hs = st.integers(1, 5)
    chk = st.tuples(st.just("check"), hs, st.integers(0, 1))
    smp = st.tuples(st.just("sample"), hs, st.integers(0, 1), st.sampled_from([1, 2, 3, 5, 8]), gen.seeds(),
                    st.integers(0, 1))
    alts = [run_op] * 6 + [chk, chk, smp]
    if variant == "per":
        alts += [st.tuples(st.just("prio"), gen.seeds()), st.tuples(st.just("prio"), gen.seeds()),
                 st.just(("reset_max",))]
    raw = draw(st.lists(st.one_of(*alts).map(list), min_size=12, max_size=40 if gen.tier() == "quick" else 200))
    # step budget by construction: the list is cut where the budget would be exceeded
    ops, steps, budget = [], 0, _max_steps()
    for op in raw:
        if op[0] == "run":
            k = max(0, op[1])
            n = k + (op[2] != "none")
            if n == 0:
                op = ["run", 1, "none"]
                n = 1
            if steps + n > budget:
                break
            steps += n
        ops.append(op)
    return {"variant": variant, "H": H, "capacity": cap, "act_dim": draw(st.sampled_from([1, 2])),
            "dense": draw(st.sampled_from([1, 1, 1, 0])), "ops": ops}


def simplify(case):
    ops = case["ops"]
    for i in range(len(ops)):
        yield dict(case, ops=ops[:i] + ops[i + 1:])


SUBCHECKS = [
    SubCheck("windows", cases, run, quick=1200, thorough=20000, cost=2.0, shards=8, fuzz_runs=40000,
             rule="a check returned windows after wrap-around while the last `capacity` steps contained a terminated "
                  "episode shorter than the horizon or a truncated episode"),
]
