"""C15 Deferred training releases exactly the collected steps; checkpoints only improve.

``assess``   history-level model of ``assess_performance_and_checkpoint`` written
             from the property statement (conservation, release only at window
             end with all counters reset, checkpoint rule, cut-short rule,
             single window switch), driven by generated (episode length, return)
             sequences whose returns are placed around the running best.
``td7_run``  ``train_td7`` on a ScriptedEnv whose scripted rewards realise such a
             sequence; training iterations and checkpoint events are observed
             through a snapshot logger.
See DESIGN.md §5 C15.
"""
from __future__ import annotations

import numpy as np
from hypothesis import strategies as st

from vlib import gen
from vlib.core import HarnessError, Outcome, SubCheck, check

PROPERTY = "C15"
RULE = (
    "assess: sequences of up to 60 (quick) / 150 (thorough) episodes (length 1-30); each return is given "
    "relative to the best minimum return recorded so far at that moment (offsets -3..+3 incl. exactly 0, or "
    "absolute values), window sizes 1-6, reset weights in (0, 1.5], the threshold placed on / next to a "
    "release boundary, inside a window, never reached, or already passed at the start. Non-trivial = the "
    "history contains >= 1 window that was cut short, >= 1 checkpoint and the window switch. td7_run: "
    "train_td7 runs of <= 150 steps on a ScriptedEnv whose rewards realise such a sequence (tiny networks); "
    "non-trivial = >= 1 release of training steps, >= 1 checkpoint after training has changed the actor and "
    ">= 1 cut-short window or the switch. Distinct = distinct canonical case."
)
ASSUMPTIONS = [
    "returns lie within +-1e6 (the sentinels of CheckpointState are +-1e8)",
    "the training-iteration count handed to the assessment function is start + sum of released steps, as "
    "train_td7 maintains it",
    "a threshold that is already reached at the start is never 'crossed': no switch is demanded",
    "in train_td7 the steps of an assessment window are the full lengths of its episodes (an episode that "
    "began before learning_starts counts entirely, as its steps are collected in that episode)",
    "checkpoint contents are observed when the logger is shown the checkpoint modules; the live actor is the "
    "actor object handed to train_td7",
]

QUICK = gen.tier() == "quick"
# thorough tier: coverage-guided atheris campaign on the assessment function (tools/fuzz.py)
FUZZ_INSTRUMENT = ["rl_blox.blox.checkpointing"]


# ------------------------------------------------------------------- the model

class WindowModel:
    """History-level model of deferred training, written from the statement.

    A *window* is the run of episodes since the last release.  ``best`` is the
    best minimum return recorded so far (None: nothing recorded yet)."""

    def __init__(self, window_cfg, threshold, reset_weight, epoch0=0):
        self.window_cfg = window_cfg
        self.threshold = threshold
        self.reset_weight = reset_weight
        self.iterations = epoch0  # training-iteration count
        self.size = 1  # current window size
        self.best = None
        self.lengths = []
        self.returns = []
        self.switched = False
        self.collected = 0
        self.released = 0

    def base(self):
        return 0.0 if self.best is None else self.best

    def episode(self, length, ret):
        """Returns dict(release, checkpoint, cut, switch)."""
        self.lengths.append(length)
        self.returns.append(ret)
        self.collected += length
        cut = self.best is not None and ret < self.best  # an episode return falls below the best
        complete = len(self.returns) == self.size
        out = {"release": 0, "checkpoint": False, "cut": False, "switch": False,
               "window": list(self.returns), "best_at_start": self.best, "size": self.size}
        if cut:
            out["cut"] = True
            out["release"] = sum(self.lengths)
        elif complete:
            # every episode of the complete window was at least the best so far
            out["checkpoint"] = True
            out["release"] = sum(self.lengths)
            self.best = min(self.returns)
        if out["release"]:
            before = self.iterations
            after = before + out["release"]  # the released iterations are run now
            if before < self.threshold <= after:
                if self.switched:
                    raise HarnessError("model: threshold crossed twice")
                self.switched = True
                out["switch"] = True
                self.size = self.window_cfg
                self.best = self.best * self.reset_weight
            self.iterations = after
            self.released += out["release"]
            self.lengths, self.returns = [], []
        out["best"] = self.best
        out["pending"] = sum(self.lengths)
        out["pending_episodes"] = len(self.returns)
        out["size_after"] = self.size
        return out


def resolve_return(model, kind, delta):
    """Returns are drawn *around the running best*: 'rel' offsets from it."""
    if kind == "rel":
        return float(model.base() + delta)
    return float(delta)


def resolve_threshold(mode, lengths, epoch0):
    """Before the switch the window size is 1, so every episode end is a release
    boundary: boundary k lies at epoch0 + sum(lengths[:k+1])."""
    kind = mode[0]
    if kind == "never":
        return 10**9
    if kind == "past":  # already reached at the start
        return max(0, epoch0 - mode[1])
    if kind == "abs":
        return int(mode[1])
    k = min(mode[1], len(lengths) - 1)
    return max(epoch0 + 1, epoch0 + sum(lengths[:k + 1]) - mode[2])


# ------------------------------------------------------------------ generators

def deltas():
    return st.one_of(
        st.sampled_from([0.0, 1.0, 0.5, 2.0, 0.0, 3.0, -1.0, -0.5, 0.0, 1.0, -3.0]),
        st.integers(-6, 12).map(lambda k: k / 2.0),
    )


def return_codes():
    return st.one_of(
        st.tuples(st.just("rel"), deltas()),
        st.tuples(st.just("rel"), deltas()),
        st.tuples(st.just("rel"), deltas()),
        st.tuples(st.just("abs"), st.one_of(st.integers(-20, 20).map(float), gen.f32(-1e3, 1e3))),
    )


def threshold_modes(n_eps):
    return st.one_of(
        st.tuples(st.just("prefix"), st.integers(0, max(0, n_eps // 2)), st.sampled_from([0, 0, 1, -1, 2, 5])),
        st.tuples(st.just("prefix"), st.integers(0, max(0, n_eps // 2)), st.sampled_from([0, 0, 1, -1, 2, 5])),
        st.tuples(st.just("prefix"), st.integers(0, max(0, n_eps // 2)), st.sampled_from([0, 1, 3])),
        st.tuples(st.just("prefix"), st.integers(0, max(0, n_eps // 3)), st.sampled_from([0, 0, 1, -1])),
        st.tuples(st.just("prefix"), st.integers(0, max(0, n_eps - 1)), st.integers(0, 8)),
        st.tuples(st.just("prefix"), st.integers(0, max(0, n_eps - 1)), st.integers(0, 8)),
        st.tuples(st.just("never")),
        st.tuples(st.just("past"), st.integers(0, 3)),
    )


@st.composite
def assess_cases(draw):
    max_eps = 60 if QUICK else 150
    n = draw(st.one_of(st.integers(6, 30), st.integers(1, max_eps)))
    eps = draw(st.lists(
        st.tuples(st.one_of(st.integers(1, 4), st.integers(1, 30)), return_codes()),
        min_size=n, max_size=n))
    mode = draw(threshold_modes(n))
    return {
        "window": draw(st.sampled_from([2, 3, 1, 4, 2, 6, 5, 3])),
        "reset_weight": draw(st.one_of(st.sampled_from([0.9, 1.0, 0.5, 1.5, 0.9]), gen.f32(0.01, 1.5))),
        "epoch0": draw(st.sampled_from([0, 0, 0, 7])) if mode[0] != "past" else draw(st.integers(3, 40)),
        "threshold": list(mode),
        "episodes": [[l, c[0], c[1]] for l, c in eps],
    }


# -------------------------------------------------------------- assess oracle

def _eq(a, b):
    return a == b or abs(a - b) <= 1e-12 * max(abs(a), abs(b))


def check_step(sub, i, m, length, ret, impl, ctx):
    """One assessed episode: ``m`` is the model's verdict, ``impl`` a dict with the
    observed update_checkpoint / training_steps (None when not observable) and
    the observed CheckpointState fields after the call."""
    ckpt, steps = impl["checkpoint"], impl["training_steps"]
    where = (lambda: f"episode {i} (length {length}, return {ret}): window returns {m['window']} of size {m['size']}, "
                     f"best at window start {m['best_at_start']}, impl -> checkpoint={ckpt} training_steps={steps} "
                     f"state={impl['state']}; {ctx()}")
    state = impl["state"]
    # conservation: released + pending = collected, at every prefix
    check(impl["released_total"] + state["timesteps_since_upate"] == impl["collected_total"],
          f"{sub}.conservation", where)
    # release only at the end of a window (cut short or complete), and then everything collected in it
    if m["release"] == 0:
        check(steps == 0, f"{sub}.release_inside_window", where)
    else:
        if steps == 0:
            check(False, f"{sub}.no_release_at_window_end" + (".cut_short" if m["cut"] else ".complete"), where)
        check(steps == m["release"], f"{sub}.released_steps_differ_from_collected", where)
    # checkpoint rule
    if ckpt is not None:
        if ckpt and not m["checkpoint"]:
            why = "window_incomplete" if not m["cut"] and m["release"] == 0 else "return_below_best"
            check(False, f"{sub}.checkpoint_without_improvement.{why}", where)
        if m["checkpoint"] and not ckpt:
            check(False, f"{sub}.missing_checkpoint_after_complete_window", where)
    # cut short exactly when a return falls below the best (release before the window is complete)
    if steps and not m["release"] and m["best_at_start"] is not None and ret >= m["best_at_start"]:
        check(False, f"{sub}.cut_short_without_low_return", where)
    # counters after the call
    from rl_blox.blox.checkpointing import CheckpointState

    fresh = CheckpointState()
    if m["release"]:
        check(state["episodes_since_udpate"] == 0 and state["timesteps_since_upate"] == 0
              and state["min_return"] == fresh.min_return, f"{sub}.counters_not_reset_after_release", where)
    else:
        check(state["episodes_since_udpate"] == m["pending_episodes"]
              and state["timesteps_since_upate"] == m["pending"]
              and _eq(state["min_return"], min(m["window"])), f"{sub}.window_counters", where)
    # best minimum return recorded so far
    if m["best"] is not None:
        if not _eq(state["best_min_return"], m["best"]):
            if m["switch"] or ctx.switched_before:
                key = f"{sub}.best_min_return.around_switch"
            elif m["checkpoint"]:
                key = f"{sub}.best_min_return.not_window_minimum"
            else:
                key = f"{sub}.best_min_return.changed_without_checkpoint"
            check(False, key, where)
    # window size: switched exactly once, at the crossing release
    if state["max_episodes_before_update"] != m["size_after"]:
        if m["switch"]:
            key = f"{sub}.switch.missing_at_crossing"
        elif ctx.switched_before:
            key = f"{sub}.switch.window_size_after_switch"
        else:
            key = f"{sub}.switch.without_crossing"
        check(False, key, where)


class _Ctx:
    def __init__(self, text):
        self.text = text
        self.switched_before = False

    def __call__(self):
        return self.text


def run_assess(case):
    from rl_blox.blox.checkpointing import CheckpointState, assess_performance_and_checkpoint

    lengths = [e[0] for e in case["episodes"]]
    thr = resolve_threshold(case["threshold"], lengths, case["epoch0"])
    w, rw = case["window"], case["reset_weight"]
    model = WindowModel(w, thr, rw, case["epoch0"])
    state = CheckpointState()
    epoch = case["epoch0"]
    released_total = collected_total = 0
    ctx = _Ctx(f"window={w} threshold={thr} reset_weight={rw} start={case['epoch0']}")
    n_cut = n_ckpt = n_switch = 0
    labels = set()
    resolved = []
    for i, (length, kind, delta) in enumerate(case["episodes"]):
        ret = resolve_return(model, kind, delta)
        resolved.append(ret)
        res = assess_performance_and_checkpoint(state, length, ret, epoch, rw, w, thr)
        check(isinstance(res, tuple) and len(res) == 2, "assess.return_shape", f"{res!r}")
        ckpt, steps = bool(res[0]), int(res[1])
        m = model.episode(length, ret)
        collected_total += length
        released_total += steps
        epoch += steps  # as train_td7 does: one iteration per released step
        ctx.text = (f"window={w} threshold={thr} reset_weight={rw} start={case['epoch0']} "
                    f"returns so far={resolved[-8:]} lengths so far={lengths[max(0, i - 7):i + 1]}")
        check_step("assess", i, m, length, ret,
                   {"checkpoint": ckpt, "training_steps": steps, "state": dict(state.__dict__),
                    "released_total": released_total, "collected_total": collected_total}, ctx)
        if m["switch"]:
            ctx.switched_before = True
            n_switch += 1
            labels.add("switch-at-cut-release" if m["cut"] else "switch-at-checkpoint-release")
            if model.iterations == thr:
                labels.add("threshold-exactly-at-release-end")
        n_cut += m["cut"]
        n_ckpt += m["checkpoint"]
        if m["cut"]:
            labels.add("cut-in-window-of-size-%s" % ("1" if m["size"] == 1 else "2+"))
            if m["size"] > 1:
                labels.add("cut-at-last-episode" if len(m["window"]) == m["size"] else "cut-before-window-full")
        if m["checkpoint"] and m["size"] > 1:
            labels.add("checkpoint-in-long-window")
        if m["best_at_start"] is not None and ret == m["best_at_start"]:
            labels.add("return-equals-best")
    if model.lengths:
        labels.add("pending-at-end")
    labels.add("threshold:" + case["threshold"][0])
    labels.add("switch" if n_switch else "no-switch")
    nt = n_cut >= 1 and n_ckpt >= 1 and n_switch == 1
    return Outcome(labels=sorted(labels), nontrivial=bool(nt))


# ------------------------------------------------------------------ TD7 runs

@st.composite
def td7_cases(draw):
    n = draw(st.integers(4, 14))
    eps = draw(st.lists(
        st.tuples(st.one_of(st.sampled_from([1, 2, 3, 5]), st.integers(1, 14)),
                  st.sampled_from(["term", "trunc", "term"]), return_codes()),
        min_size=n, max_size=n))
    episodes = [[l, e, c[0], c[1]] for l, e, c in eps]
    # keep the run within 150 steps (cut the script, never filter)
    tot = 0
    kept = []
    for ep in episodes:
        if tot + ep[0] > 150:
            break
        kept.append(ep)
        tot += ep[0]
    episodes = kept or [[5, "term", "rel", 0.0]]
    tot = sum(e[0] for e in episodes)
    tail_cut = draw(st.integers(0, max(0, episodes[-1][0] - 1)))
    learning_starts = draw(st.one_of(st.sampled_from([0, 1, 3]), st.integers(0, max(0, tot // 3))))
    mode = draw(st.one_of(
        st.tuples(st.just("frac"), st.sampled_from([0.1, 0.25, 0.4, 0.5])),
        st.tuples(st.just("frac"), st.sampled_from([0.1, 0.25, 0.4, 0.5])),
        st.tuples(st.just("frac"), st.floats(0.02, 0.8)),
        st.tuples(st.just("never"))))
    return {
        "episodes": episodes, "total": max(1, tot - tail_cut), "learning_starts": learning_starts,
        "window": draw(st.sampled_from([2, 3, 2, 1, 4])),
        "reset_weight": draw(st.sampled_from([0.9, 1.0, 0.5, 1.2])),
        "threshold": list(mode),
        "policy_delay": draw(st.sampled_from([1, 2, 3])), "target_delay": draw(st.sampled_from([2, 5, 7, 1])),
        "batch_size": draw(st.sampled_from([2, 4])), "seed": draw(st.integers(0, 50)),
        "env_seed": draw(st.integers(0, 1000)),
    }


def simplify_td7(case):
    eps = case["episodes"]
    if len(eps) > 1:
        yield dict(case, episodes=eps[:-1], total=min(case["total"], sum(e[0] for e in eps[:-1])))
        for i in range(len(eps) - 1):
            rest = eps[:i] + eps[i + 1:]
            yield dict(case, episodes=rest, total=min(case["total"], sum(e[0] for e in rest)))
    for i, e in enumerate(eps):
        if e[0] > 1:
            new = eps[:i] + [[max(1, e[0] // 2)] + e[1:]] + eps[i + 1:]
            yield dict(case, episodes=new, total=min(case["total"], sum(x[0] for x in new)))
    if case["learning_starts"] > 0:
        yield dict(case, learning_starts=0)
    if case["policy_delay"] != 1:
        yield dict(case, policy_delay=1)


def _assessed_plan(case):
    """Resolve the scripted returns with the model.  Returns (returns per episode,
    threshold, per-episode model verdicts for the episodes that are assessed
    within the budget)."""
    eps = case["episodes"]
    ls, total = case["learning_starts"], case["total"]
    ends = np.cumsum([e[0] for e in eps])  # step count at which each episode ends
    assessed = [k for k in range(len(eps)) if ends[k] <= total and ends[k] - 1 >= ls]
    lens = [eps[k][0] for k in assessed]
    mode = case["threshold"]
    thr = 10**9 if mode[0] == "never" else max(1, int(round(mode[1] * max(1, sum(lens)))))
    model = WindowModel(case["window"], thr, case["reset_weight"], 0)
    returns, verdicts = [], {}
    for k, (length, end, kind, delta) in enumerate(eps):
        ret = resolve_return(model, kind, delta)
        returns.append(ret)
        if k in assessed:
            verdicts[k] = model.episode(length, ret)
    return returns, thr, verdicts, model, ends


def _make_env(case, returns):
    from vlib.envs import ScriptedEnv

    lengths = [e[0] for e in case["episodes"]]

    class ReturnScriptedEnv(ScriptedEnv):
        """Rewards realise the scripted episode returns exactly: the integer part
        on the first step, the rest on the last step (sums are exact)."""

        def make_reward(self, episode, t):
            k = episode % len(returns)
            r, n = returns[k], lengths[k]
            a = float(np.round(r))
            if n == 1:
                return r
            if t == 0:
                return a
            if t == n - 1:
                return r - a
            return 0.0

    return ReturnScriptedEnv([[e[0], e[1]] for e in case["episodes"]], seed=case["env_seed"], obs_dim=3)


def _make_logger(actor, watch):
    from vlib.instruments import make_snapshot_logger, state_bytes

    lg = make_snapshot_logger(snapshot=True, extra_modules={"actor_live": actor})

    def snap():
        kind, key = lg.calls[-1][0], lg.calls[-1][1]
        if key in watch:
            lg.snaps.append((len(lg.calls) - 1, {k: state_bytes(m) for k, m in lg.modules.items()}))

    lg._snap = snap
    return lg


def run_td7(case):
    from rl_blox.algorithm.td7 import create_td7_state, train_td7
    from vlib.instruments import state_bytes

    sub = "td7_run"
    returns, thr, verdicts, model, ends = _assessed_plan(case)
    env = _make_env(case, returns)
    s = create_td7_state(
        env, n_embedding_dimensions=4, state_embedding_hidden_nodes=[4], state_action_embedding_hidden_nodes=[4],
        policy_sa_encoding_nodes=4, policy_hidden_nodes=[4], q_sa_encoding_nodes=4, q_hidden_nodes=[4],
        policy_learning_rate=1e-2, seed=case["seed"])
    actor0 = state_bytes(s.actor)
    emb0 = state_bytes(s.embedding)
    lg = _make_logger(s.actor, {"return", "actor_checkpoint", "fixed_embedding_checkpoint"})
    res = train_td7(
        env, s.embedding, s.embedding_optimizer, s.actor, s.actor_optimizer, s.critic, s.critic_optimizer,
        seed=case["seed"], total_timesteps=case["total"], buffer_size=200, target_delay=case["target_delay"],
        policy_delay=case["policy_delay"], use_checkpoints=True,
        max_episodes_when_checkpointing=case["window"], steps_before_checkpointing=thr,
        reset_weight=case["reset_weight"], batch_size=case["batch_size"], learning_starts=case["learning_starts"],
        logger=lg, progress_bar=False)
    check(env.n_steps == case["total"] and not env.log.violations, f"{sub}.env_steps",
          f"{env.n_steps} steps for total_timesteps={case['total']}; {env.log.violations[:2]}")

    # ---- group the logger calls by episode end (the "return" record closes an episode)
    groups, cur = [], []
    for idx, c in enumerate(lg.calls):
        if c[0] in ("stat", "epoch"):
            cur.append((idx, c))
            if c[0] == "stat" and c[1] == "return":
                groups.append(cur)
                cur = []
    tail = cur
    n_finished = int(np.sum(ends <= case["total"]))
    check(len(groups) == n_finished, f"{sub}.episodes_logged", f"{len(groups)} return records, {n_finished} episodes finished")
    check(not any(c[1] in ("training steps", "embedding loss", "actor_checkpoint") for _, c in tail),
          f"{sub}.training_outside_episode_end", "training or checkpoint records after the last finished episode")
    snaps = dict(lg.snaps)
    live_before = actor0  # live actor at the previous episode end
    femb_known = False
    last_ckpt = None  # (actor bytes, embedding bytes) at the last checkpoint event
    iterations = released = collected = 0
    n_ckpt_trained = n_cut = n_switch = n_release = 0
    labels = set()
    ctx = _Ctx("")
    for k, grp in enumerate(groups):
        keys = [c[1] for _, c in grp]
        ret_logged = float(grp[-1][1][2])
        check(ret_logged == returns[k], f"{sub}.logged_return", f"episode {k}: logged {ret_logged!r}, scripted {returns[k]!r}")
        n_iter = keys.count("embedding loss")
        ts = [(float(c[2]), c[4]) for _, c in grp if c[1] == "training steps"]
        ck = [(i, c) for i, c in grp if c[0] == "epoch" and c[1] == "actor_checkpoint"]
        ck_e = [(i, c) for i, c in grp if c[0] == "epoch" and c[1] == "fixed_embedding_checkpoint"]
        st_fields = {c[1]: c[2] for _, c in grp if c[0] == "stat" and c[1] in
                     ("episodes_since_udpate", "timesteps_since_upate", "max_episodes_before_update", "min_return",
                      "best_min_return")}
        end_step = int(ends[k])
        if k not in verdicts:
            # finished before learning started: nothing is assessed, trained or checkpointed
            check(n_iter == 0 and not ts and not ck and not st_fields, f"{sub}.activity_before_learning_starts",
                  f"episode {k} ending at step {end_step} (learning_starts={case['learning_starts']}): {keys}")
            labels.add("episode-before-learning-starts")
            live_before = snaps[grp[-1][0]]["actor_live"]
            continue
        m = verdicts[k]
        length = case["episodes"][k][0]
        if end_step - length < case["learning_starts"]:
            labels.add("episode-straddles-learning-starts")
        check(len(ts) <= 1, f"{sub}.training_steps_logged_twice", f"episode {k}: {ts}")
        logged_steps = int(ts[0][0]) if ts else 0
        # iterations actually run = released steps = logged `training steps`
        check(n_iter == logged_steps, f"{sub}.iterations_differ_from_logged_training_steps",
              f"episode {k}: {n_iter} train iterations observed, `training steps` logged {logged_steps}")
        check(len(st_fields) == 5, f"{sub}.checkpoint_state_not_logged", f"episode {k}: {sorted(st_fields)}")
        state = {kk: (float(v) if "return" in kk else int(v)) for kk, v in st_fields.items()}
        collected += length
        released += n_iter
        iterations += n_iter
        ctx.text = (f"window={case['window']} threshold={thr} reset_weight={case['reset_weight']} "
                    f"learning_starts={case['learning_starts']} returns={returns[:k + 1]} "
                    f"lengths={[e[0] for e in case['episodes'][:k + 1]]}")
        check_step(sub, k, m, length, returns[k],
                   {"checkpoint": bool(ck), "training_steps": n_iter, "state": state,
                    "released_total": released, "collected_total": collected}, ctx)
        check(len(ck) == len(ck_e) and len(ck) <= 1, f"{sub}.checkpoint_records", f"episode {k}: {keys}")
        if ts:
            check(ts[0][1] == end_step, f"{sub}.training_steps_logged_at_wrong_step", f"episode {k}: {ts} vs {end_step}")
        if ck:
            check(ck[0][1][4] == end_step, f"{sub}.checkpoint_logged_at_wrong_step", f"episode {k}: {ck[0][1][4]} vs {end_step}")
            # the checkpoint is a copy of the policy as it was when the window ended (before the released training)
            snap_a = snaps[ck[0][0]]
            snap_e = snaps[ck_e[0][0]]
            check(snap_a["actor_checkpoint"] == live_before, f"{sub}.checkpoint_is_not_current_actor",
                  f"episode {k}: actor checkpoint differs from the live actor at the end of the assessment window")
            check(snap_a["actor_live"] == live_before, f"{sub}.live_actor_changed_by_checkpointing", f"episode {k}")
            exp_emb = snap_e["fixed_embedding"] if "fixed_embedding" in snap_e else emb0
            check(snap_e["fixed_embedding_checkpoint"] == exp_emb, f"{sub}.checkpoint_is_not_current_embedding",
                  f"episode {k}: embedding checkpoint differs from the fixed embedding in use")
            last_ckpt = (snap_a["actor_checkpoint"], snap_e["fixed_embedding_checkpoint"])
            if live_before != actor0:
                n_ckpt_trained += 1
        elif last_ckpt is not None:
            # no checkpoint event: the stored checkpoint is untouched
            end_snap = snaps[grp[-1][0]]
            check(end_snap["actor_checkpoint"] == last_ckpt[0]
                  and end_snap["fixed_embedding_checkpoint"] == last_ckpt[1], f"{sub}.checkpoint_replaced_without_event",
                  f"episode {k}")
        if m["switch"]:
            ctx.switched_before = True
            n_switch += 1
        n_cut += m["cut"]
        n_release += bool(m["release"])
        live_before = snaps[grp[-1][0]]["actor_live"]
        if "fixed_embedding" in snaps[grp[-1][0]]:
            femb_known = True
    # whole-run conservation: iterations = steps of the closed windows; the rest is still pending
    check(iterations + model.collected - model.released == collected and iterations == model.released,
          f"{sub}.run_conservation", f"{iterations} iterations, closed windows hold {model.released} steps, "
                                      f"collected {collected}")
    # returned actor / embedding = the last checkpoint (initial clones if there never was one)
    exp_actor, exp_emb = last_ckpt if last_ckpt is not None else (actor0, emb0)
    check(state_bytes(res.actor) == exp_actor, f"{sub}.returned_actor_is_not_last_checkpoint", "")
    check(state_bytes(res.fixed_embedding) == exp_emb, f"{sub}.returned_embedding_is_not_last_checkpoint", "")
    if last_ckpt is not None and state_bytes(s.actor) != exp_actor:
        labels.add("checkpoint-differs-from-final-live-actor")
    labels.add("checkpoints=%s" % ("0" if last_ckpt is None else "1+"))
    labels.add("checkpoint-after-training" if n_ckpt_trained else "no-checkpoint-after-training")
    labels.add("cut-short" if n_cut else "no-cut-short")
    labels.add("switch" if n_switch else "no-switch")
    labels.add("pending-at-end" if model.lengths else "no-pending-at-end")
    labels.add("fixed-embedding-observed" if femb_known else "fixed-embedding-not-observed")
    nt = n_release >= 1 and n_ckpt_trained >= 1 and (n_cut >= 1 or n_switch >= 1)
    return Outcome(labels=sorted(labels), nontrivial=bool(nt))


SUBCHECKS = [
    SubCheck("assess", assess_cases, run_assess, quick=2000, thorough=50000, shards=8, cost=1.0, fuzz_runs=40000, fuzz_shards=4,
             rule=">= 1 cut-short window, >= 1 checkpoint and the window switch in one history"),
    SubCheck("td7_run", td7_cases, run_td7, quick=6, thorough=60, shards=3, shards_thorough=12, cost=400.0,
             shrink=False, suppress_too_slow=True, simplify=simplify_td7, min_nontrivial_frac=0.3,
             rule=">= 1 release, >= 1 checkpoint of an actor that training has changed, and a cut-short "
                  "window or the switch"),
]
