"""C20 Loggers record faithfully and checkpoint exactly at interval crossings.

* ``logger_ops``       -- op sequences over MemoryLogger, StandardLogger and
                          (nested) LoggerList against a list model
* ``orbax_cadence``    -- OrbaxCheckpointer with ``save_model`` replaced by a
                          recorder in a test-side subclass: a checkpoint is
                          written iff floor(step/I) > floor(last/I)
* ``standard_cadence`` -- StandardLogger with its checkpointer replaced by a
                          recorder: a checkpoint on every I-th recorded epoch
* ``real_saves``       -- a bounded number of real Orbax saves: every listed
                          path exists, nothing else was written, and each path
                          restores to the bytes the module had when saved

See DESIGN.md §5 C20.
"""
import os

import numpy as np
from hypothesis import strategies as st

from vlib import gen
from vlib import persist as P
from vlib.core import Outcome, SubCheck, check
from vlib.instruments import diff_states, state_bytes

PROPERTY = "C20"
RULE = (
    "logger_ops: Hypothesis draws the logger (MemoryLogger, StandardLogger, LoggerList of 1-3 members, "
    "optionally nested) and 1-40 operations (start_new_episode, stop_episode(n), record_stat with explicit or "
    "implicit episode / step / time, record_epoch, define_experiment, get_stat); non-trivial = statistics "
    "recorded under at least two keys with both explicit and implicit locations, across at least one "
    "start and one stop. Cadence sub-checks: 1-3 keys with intervals 1-20 and a non-decreasing step sequence "
    "built from increments {0, 1, I-1, I, I+1, k*I, k*I+r}, given explicitly, implicitly (stop_episode) or "
    "mixed; non-trivial = some key sees a jump over >= 2 interval multiples and a repeated step (standard "
    "logger: >= 2 checkpoints for a key with interval >= 2 and records in between). real_saves: <= 4 real "
    "checkpoints per case; non-trivial = >= 2 checkpoints of a module that changed in between. Distinct = "
    "distinct canonical case."
)
ASSUMPTIONS = [
    "recorded values are Python ints / floats (get_stat returns np.asarray of the recorded list)",
    "wall-clock time is not part of the oracle: explicit t is compared exactly, implicit t only for being a "
    "finite float",
    "steps passed to the checkpointer are non-negative and non-decreasing; checkpoint frequencies are defined "
    "before the first record of a key (as every caller in the repository does)",
    "stop_episode of MemoryLogger / StandardLogger records 'episode_length' at the already advanced step "
    "counter (documented order: 'Increase step counter and records episode_length')",
    "verbose=0 everywhere; all files go to a fresh temporary directory per case",
]

# thorough tier: coverage-guided atheris campaigns (tools/fuzz.py) instrument these modules
FUZZ_INSTRUMENT = ["rl_blox.logging.logger", "rl_blox.logging.checkpointer"]

STAT_KEYS = ["return", "loss", "episode_length", "q", "a b/c"]
EPOCH_KEYS = ["q", "policy", "q_target", "value_function"]


# ------------------------------------------------------------------ models

class ListModel:
    """Reference for MemoryLogger / StandardLogger: plain lists."""

    def __init__(self):
        self.n_episodes = 0
        self.n_steps = 0
        self.stats = {}  # key -> list of (value, episode, step, t or None)
        self.epochs = {}  # key -> list of (episode, step, t or None)

    def start(self):
        self.n_episodes += 1

    def stop(self, n):
        self.n_steps += n
        self.stat("episode_length", n, None, None, None)

    def stat(self, key, value, episode, step, t):
        self.stats.setdefault(key, []).append((
            value,
            self.n_episodes if episode is None else episode,
            self.n_steps if step is None else step,
            t))

    def epoch(self, key, episode, step, t):
        self.epochs.setdefault(key, []).append((
            self.n_episodes if episode is None else episode,
            self.n_steps if step is None else step,
            t))


def make_call_recorder():
    from rl_blox.logging.logger import LoggerBase

    class CallRecorder(LoggerBase):
        """Test-side LoggerBase that stores every call it receives."""

        def __init__(self):
            self.calls = []
            self._n_episodes = 0

        @property
        def n_episodes(self):
            return self._n_episodes

        def start_new_episode(self):
            self._n_episodes += 1
            self.calls.append(("start",))

        def stop_episode(self, total_steps):
            self.calls.append(("stop", total_steps))

        def define_experiment(self, env_name=None, algorithm_name=None, hparams=None):
            self.calls.append(("define_experiment", env_name, algorithm_name, hparams))

        def record_stat(self, key, value, episode=None, step=None, t=None, verbose=None,
                        format_str="{0:.3f}"):
            self.calls.append(("stat", key, value, episode, step, t, verbose, format_str))

        def define_checkpoint_frequency(self, key, checkpoint_interval):
            self.calls.append(("define_checkpoint_frequency", key, checkpoint_interval))

        def record_epoch(self, key, value, episode=None, step=None, t=None):
            self.calls.append(("epoch", key, id(value), episode, step, t))

    return CallRecorder()


def _same_number(a, b):
    return type(a) is type(b) and (a == b)


def _check_against_model(tag, logger, model, standard):
    """get_stat under every x-key and the counters of one Memory/Standard logger."""
    check(logger.n_episodes == model.n_episodes, f"{tag}.n_episodes",
          f"{logger.n_episodes} != {model.n_episodes}")
    check(logger.n_steps == model.n_steps, f"{tag}.n_steps", f"{logger.n_steps} != {model.n_steps}")
    check(sorted(logger.stats) == sorted(model.stats), f"{tag}.stat_keys",
          f"{sorted(logger.stats)} != {sorted(model.stats)}")
    for key, recs in model.stats.items():
        for xi, x_key in enumerate(["episode", "step"]):
            x, y = logger.get_stat(key, x_key=x_key)
            want_x = [r[1 + xi] for r in recs]
            check(np.asarray(x).shape == (len(recs),) and [int(v) for v in x] == want_x,
                  f"{tag}.get_stat.{x_key}",
                  lambda: f"key {key!r}: x={np.asarray(x).tolist()} expected {want_x}")
            want_y = [r[0] for r in recs]
            check(np.asarray(y).shape == (len(recs),) and np.asarray(y).tolist() == np.asarray(want_y).tolist(),
                  f"{tag}.get_stat.values",
                  lambda: f"key {key!r}: y={np.asarray(y).tolist()} expected {want_y}")
        x, y = logger.get_stat(key, x_key="time")
        check(len(x) == len(recs), f"{tag}.get_stat.time", f"key {key!r}: {len(x)} != {len(recs)}")
        for got, r in zip(x, recs):
            if r[3] is not None:
                check(float(got) == float(r[3]), f"{tag}.get_stat.time",
                      f"key {key!r}: explicit t {r[3]} returned as {got}")
            else:
                check(bool(np.isfinite(got)), f"{tag}.get_stat.time", f"key {key!r}: implicit t {got}")
        x, y = logger.get_stat(key)  # default x-key is the episode
        check([int(v) for v in x] == [r[1] for r in recs], f"{tag}.get_stat.default_x_key",
              f"key {key!r}")
    if standard:
        check(sorted(logger.epoch) == sorted(model.epochs), f"{tag}.epoch_keys",
              f"{sorted(logger.epoch)} != {sorted(model.epochs)}")
        for key, recs in model.epochs.items():
            check(logger.epoch[key] == len(recs), f"{tag}.epoch_count",
                  f"key {key!r}: {logger.epoch[key]} != {len(recs)}")
            got = [(e, s) for e, s, _ in logger.epoch_loc[key]]
            check(got == [(e, s) for e, s, _ in recs], f"{tag}.epoch_loc",
                  lambda: f"key {key!r}: {got} expected {[(e, s) for e, s, _ in recs]}")
            for (_, _, tg), (_, _, tw) in zip(logger.epoch_loc[key], recs):
                if tw is not None:
                    check(float(tg) == float(tw), f"{tag}.epoch_loc.time", f"{tg} != {tw}")


# --------------------------------------------------------------- logger_ops

def _build_logger(tree, d, leaves):
    """tree: "memory" | "standard" | "recorder" | ["list", sub-trees...]."""
    from rl_blox.logging.logger import LoggerList, MemoryLogger, StandardLogger

    if tree == "memory":
        lg = MemoryLogger()
        leaves.append(("memory", lg))
    elif tree == "standard":
        lg = StandardLogger(checkpoint_dir=os.path.join(d, "standard%d" % len(leaves)), verbose=0)
        leaves.append(("standard", lg))
    elif tree == "recorder":
        lg = make_call_recorder()
        leaves.append(("recorder", lg))
    else:
        lg = LoggerList([_build_logger(t, d, leaves) for t in tree[1:]])
    return lg


@st.composite
def logger_cases(draw):
    leaf = st.sampled_from(["memory", "standard", "memory", "standard", "recorder"])
    kind = draw(st.sampled_from(["list", "memory", "standard", "list", "nested"]))
    if kind == "list":
        tree = ["list"] + draw(st.lists(leaf, min_size=1, max_size=3))
    elif kind == "nested":
        tree = ["list"] + draw(st.lists(leaf, min_size=0, max_size=2)) + [
            ["list"] + draw(st.lists(leaf, min_size=1, max_size=2))]
    else:
        tree = kind
    n = draw(st.integers(4, 40 if gen.tier() == "quick" else 200))
    value = st.one_of(st.integers(-1000, 1000), gen.f32(-1e3, 1e3), st.just(0.0))
    opt_int = st.one_of(st.none(), st.none(), st.integers(0, 10**6), st.integers(0, 5))
    opt_t = st.one_of(st.none(), st.none(), gen.f32(0.0, 1e4))
    key = st.integers(0, len(STAT_KEYS) - 1)
    op = st.one_of(
        st.just(["start"]),
        st.tuples(st.just("stop"), st.one_of(st.integers(0, 50), st.integers(0, 3))).map(list),
        st.tuples(st.just("stat"), key, value, opt_int, opt_int, opt_t).map(list),
        st.tuples(st.just("stat"), key, value, opt_int, opt_int, opt_t).map(list),
        st.tuples(st.just("stat"), key, value, st.none(), st.none(), st.none()).map(list),
        st.tuples(st.just("epoch"), st.integers(0, len(EPOCH_KEYS) - 1), opt_int, opt_int, opt_t).map(list),
        st.just(["define_experiment"]),
        st.just(["check"]),
    )
    ops = draw(st.lists(op, min_size=n, max_size=n))
    # by construction: the history crosses an episode start and stop and
    # records two keys, with explicit and implicit locations
    forced = [["start"], ["stop", draw(st.integers(1, 30))],
              ["stat", 0, draw(value), None, None, None],
              ["stat", 1, draw(value), draw(st.integers(0, 99)), draw(st.integers(0, 10**5)), draw(opt_t)]]
    for o in forced:
        ops.insert(draw(st.integers(0, len(ops))), o)
    return {"tree": tree, "ops": ops, "positional": draw(st.booleans())}


def run_logger_ops(case):
    model = ListModel()
    rec_calls = []  # what a CallRecorder member must have seen
    token = object()
    with P.fresh_dir() as d, P.quiet():
        leaves = []
        logger = _build_logger(case["tree"], d, leaves)
        is_list = isinstance(case["tree"], list)

        def verify():
            for i, (kind, lg) in enumerate(leaves):
                if kind == "recorder":
                    check(lg.calls == rec_calls, "logger_list.fanout.calls",
                          lambda: f"member {i} saw {len(lg.calls)} calls, expected {len(rec_calls)}; first "
                                  f"difference: {_first_diff(lg.calls, rec_calls)}")
                else:
                    tag = ("logger_list." if is_list else "") + kind
                    _check_against_model(tag, lg, model, kind == "standard")
            if is_list:
                check(logger.n_episodes == model.n_episodes, "logger_list.n_episodes",
                      f"{logger.n_episodes} != {model.n_episodes}")

        for op in case["ops"]:
            k = op[0]
            if k == "start":
                logger.start_new_episode()
                model.start()
                rec_calls.append(("start",))
            elif k == "stop":
                logger.stop_episode(op[1])
                model.stop(op[1])
                rec_calls.append(("stop", op[1]))
            elif k == "stat":
                key = STAT_KEYS[op[1]]
                if case["positional"]:
                    logger.record_stat(key, op[2], op[3], op[4], op[5])
                else:
                    logger.record_stat(key, op[2], episode=op[3], step=op[4], t=op[5])
                model.stat(key, op[2], op[3], op[4], op[5])
                rec_calls.append(("stat", key, op[2], op[3], op[4], op[5], None, "{0:.3f}"))
            elif k == "epoch":
                key = EPOCH_KEYS[op[1]]
                if case["positional"]:
                    logger.record_epoch(key, token, op[2], op[3], op[4])
                else:
                    logger.record_epoch(key, token, episode=op[2], step=op[3], t=op[4])
                model.epoch(key, op[2], op[3], op[4])
                rec_calls.append(("epoch", key, id(token), op[2], op[3], op[4]))
            elif k == "define_experiment":
                logger.define_experiment("Env-v0", "algo", {"lr": 1e-3})
                rec_calls.append(("define_experiment", "Env-v0", "algo", {"lr": 1e-3}))
            else:
                verify()
        verify()
    keys = {op[1] for op in case["ops"] if op[0] == "stat"}
    expl = any(op[0] == "stat" and (op[3] is not None or op[4] is not None) for op in case["ops"])
    impl = any(op[0] == "stat" and op[3] is None and op[4] is None for op in case["ops"])
    labels = ["tree:" + (case["tree"] if isinstance(case["tree"], str) else
                         ("nested" if any(isinstance(t, list) for t in case["tree"][1:]) else "list")),
              "members:%d" % len(leaves)]
    for kind in sorted({k for k, _ in leaves}):
        labels.append("member:" + kind)
    nt = len(keys) >= 2 and expl and impl
    return Outcome(labels=labels, nontrivial=nt)


def _first_diff(a, b):
    for i, (x, y) in enumerate(zip(a, b)):
        if x != y:
            return f"call {i}: got {x!r}, expected {y!r}"
    return f"length {len(a)} vs {len(b)}"


# ------------------------------------------------------------ cadence cases

def _step_script(draw, intervals, n, mode):
    """Non-decreasing step sequence as a list of ops
    ["epoch", key index, step or None] / ["stop", n] / ["start"] with the
    steps materialised in the case."""
    ops = []
    cur = 0  # largest step so far
    n_steps = 0  # the logger's own counter (advanced by stop ops)
    nk = len(intervals)
    for _ in range(n):
        ki = draw(st.integers(0, nk - 1))
        iv = intervals[ki]
        kind = draw(st.sampled_from(["repeat", "one", "below", "exact", "above", "multi", "multi_r", "small"]))
        k = draw(st.integers(2, 4))
        delta = {"repeat": 0, "one": 1, "below": max(0, iv - 1), "exact": iv, "above": iv + 1,
                 "multi": k * iv, "multi_r": k * iv + draw(st.integers(0, max(0, iv - 1))),
                 "small": draw(st.integers(0, max(1, iv // 2)))}[kind]
        cur += delta
        implicit = mode == "implicit" or (mode == "mixed" and draw(st.booleans()))
        if implicit:
            if cur > n_steps:
                ops.append(["stop", cur - n_steps])
                n_steps = cur
            if cur == n_steps:
                ops.append(["epoch", ki, None])
                continue
        ops.append(["epoch", ki, cur])
        if draw(st.integers(0, 5)) == 0:
            ops.append(["start"])
    return ops


@st.composite
def cadence_cases(draw):
    quick = gen.tier() == "quick"
    nk = draw(st.sampled_from([1, 2, 2, 3]))
    iv_pool = st.one_of(st.sampled_from([3, 1, 2, 5, 10, 20]), st.integers(1, 20))
    intervals = draw(st.lists(iv_pool, min_size=nk, max_size=nk))
    n = draw(st.integers(3, 30 if quick else 150))
    mode = draw(st.sampled_from(["explicit", "explicit", "mixed", "implicit"]))
    ops = _step_script(draw, intervals, n, mode)
    # by construction: a repeat and a jump over >= 2 multiples for key 0
    last = max([o[2] for o in ops if o[0] == "epoch" and o[2] is not None] + [0])
    total_stop = sum(o[1] for o in ops if o[0] == "stop")
    top = max(last, total_stop)
    jump = top + draw(st.integers(2, 4)) * intervals[0] + draw(st.integers(0, intervals[0] - 1))
    ops += [["epoch", 0, jump], ["epoch", 0, jump]]
    return {
        "intervals": intervals,
        "unscheduled_key": draw(st.booleans()),  # an extra key without a frequency
        "define_experiment": draw(st.booleans()),
        "in_list": draw(st.booleans()),
        "ops": ops,
    }


def _crossings(prev, step, interval):
    return step // interval - prev // interval


def run_orbax_cadence(case):
    from rl_blox.logging.checkpointer import OrbaxCheckpointer
    from rl_blox.logging.logger import LoggerList, MemoryLogger

    class RecordingCheckpointer(OrbaxCheckpointer):
        """save_model replaced by a recorder: nothing is written."""

        def __init__(self, *a, **kw):
            super().__init__(*a, **kw)
            self.saved = []

        def save_model(self, path, model):
            self.saved.append((path, model))

    intervals = case["intervals"]
    keys = ["key%d" % i for i in range(len(intervals))]
    labels = set()
    with P.fresh_dir() as d, P.quiet():
        ck = RecordingCheckpointer(checkpoint_dir=os.path.join(d, "ck"), verbose=0)
        logger = LoggerList([MemoryLogger(), ck]) if case["in_list"] else ck
        if case["define_experiment"]:
            logger.define_experiment("Env-v0", "algo", None)
        for k, iv in zip(keys, intervals):
            logger.define_checkpoint_frequency(k, iv)
        last = {k: 0 for k in keys}
        n_steps = 0
        expected = {k: [] for k in keys}  # tokens of the records that must have been saved
        jumps = {k: False for k in keys}
        repeats = {k: False for k in keys}
        seen = {k: False for k in keys}
        tokens = []
        for i, op in enumerate(case["ops"]):
            if op[0] == "stop":
                logger.stop_episode(op[1])
                n_steps += op[1]
                continue
            if op[0] == "start":
                logger.start_new_episode()
                continue
            k = keys[op[1]]
            step = n_steps if op[2] is None else op[2]
            token = ("model", i)
            tokens.append(token)
            n_before = len(ck.saved)
            listed_before = len(ck.checkpoint_path[k])
            if op[2] is None:
                logger.record_epoch(k, token)
            else:
                logger.record_epoch(k, token, step=step)
            if case["unscheduled_key"] and i % 3 == 0:
                logger.record_epoch("unscheduled", token, step=step)
            cross = _crossings(last[k], step, intervals[op[1]])
            written = len(ck.saved) - n_before
            where = f"key interval {intervals[op[1]]}: previous record at step {last[k]}, this record at step {step}"
            if cross >= 1:
                check(written >= 1, "orbax_cadence.missed_checkpoint",
                      f"{where}: {cross} multiple(s) passed but no checkpoint was written")
                check(written <= 1, "orbax_cadence.more_than_one_checkpoint", f"{where}: {written} written")
                expected[k].append(token)
            else:
                check(written == 0, "orbax_cadence.spurious_checkpoint",
                      f"{where}: no multiple passed but {written} checkpoint(s) written")
            check(len(ck.checkpoint_path[k]) - listed_before == written, "orbax_cadence.listed_paths",
                  f"{where}: {written} written, {len(ck.checkpoint_path[k]) - listed_before} listed")
            if written == 1:
                path, model = ck.saved[-1]
                check(model is token, "orbax_cadence.saved_other_model", f"{where}")
                check(ck.checkpoint_path[k][-1] == path, "orbax_cadence.listed_path_differs",
                      f"{ck.checkpoint_path[k][-1]} != {path}")
            if cross >= 2:
                jumps[k] = True
            if seen[k] and step == last[k]:
                repeats[k] = True
            seen[k] = True
            last[k] = step
        all_paths = [p for k in keys for p in ck.checkpoint_path[k]]
        check(len(set(all_paths)) == len(all_paths), "orbax_cadence.duplicate_paths", "")
        check("unscheduled" not in ck.checkpoint_path, "orbax_cadence.unscheduled_key_listed", "")
        check(len(ck.saved) == sum(len(v) for v in expected.values()), "orbax_cadence.total", "")
        n_starts = sum(1 for o in case["ops"] if o[0] == "start")
        check(ck.n_steps == n_steps, "orbax_cadence.n_steps", f"{ck.n_steps} != {n_steps}")
        check(ck.n_episodes == n_starts and logger.n_episodes == n_starts, "orbax_cadence.n_episodes",
              f"{ck.n_episodes} / {logger.n_episodes} != {n_starts}")
    nt = any(jumps[k] and repeats[k] for k in keys)
    if any(jumps.values()):
        labels.add("jump>=2-multiples")
    if any(repeats.values()):
        labels.add("repeat")
    labels.add("keys:%d" % len(keys))
    labels.add("implicit-steps" if any(o[0] == "epoch" and o[2] is None for o in case["ops"]) else "explicit-only")
    if any(iv == 1 for iv in intervals):
        labels.add("interval-1")
    return Outcome(labels=sorted(labels), nontrivial=nt)


@st.composite
def standard_cases(draw):
    quick = gen.tier() == "quick"
    nk = draw(st.sampled_from([1, 2, 2, 3]))
    intervals = draw(st.lists(st.one_of(st.sampled_from([3, 2, 1, 5, 10]), st.integers(1, 20)),
                              min_size=nk, max_size=nk))
    n = draw(st.integers(3, 40 if quick else 200))
    opt_int = st.one_of(st.none(), st.integers(0, 1000))
    ops = [list(o) for o in draw(st.lists(st.one_of(
        st.tuples(st.just("epoch"), st.integers(0, nk - 1), opt_int, opt_int),
        st.tuples(st.just("epoch"), st.integers(0, nk - 1), opt_int, opt_int),
        st.tuples(st.just("epoch"), st.integers(0, nk), opt_int, opt_int),  # index nk = key without frequency
        st.tuples(st.just("stop"), st.integers(0, 20)),
        st.just(("start",)),
    ), min_size=n, max_size=n))]
    # by construction: key 0 reaches its second checkpoint
    ops += [["epoch", 0, None, None]] * (2 * intervals[0])
    return {"intervals": intervals, "ops": ops, "in_list": draw(st.booleans())}


def run_standard_cadence(case):
    from flax import nnx

    from rl_blox.logging.logger import LoggerList, MemoryLogger, StandardLogger

    class Recorder:
        """Stands in for ocp.StandardCheckpointer: records instead of writing."""

        def __init__(self):
            self.saved = []
            self.pending = 0

        def save(self, path, state, *a, **kw):
            self.saved.append((str(path), state))
            self.pending += 1

        def wait_until_finished(self):
            self.pending = 0

    class RecordingStandardLogger(StandardLogger):
        def __init__(self, *a, **kw):
            super().__init__(*a, **kw)
            self.checkpointer = Recorder()  # set before any frequency is defined: no directory is made

    class Tag(nnx.Module):
        def __init__(self, k):
            self.v = nnx.Variable(np.asarray(k))

    intervals = case["intervals"]
    keys = ["key%d" % i for i in range(len(intervals))] + ["unscheduled"]
    with P.fresh_dir() as d, P.quiet():
        sl = RecordingStandardLogger(checkpoint_dir=os.path.join(d, "ck"), verbose=0)
        logger = LoggerList([sl, MemoryLogger()]) if case["in_list"] else sl
        rec = sl.checkpointer
        counts = {k: 0 for k in keys}
        defined = set()
        for k, iv in zip(keys, intervals):
            logger.define_checkpoint_frequency(k, iv)
            defined.add(k)
        n_ck = {k: 0 for k in keys}
        between = {k: False for k in keys}
        for i, op in enumerate(case["ops"]):
            if op[0] == "stop":
                logger.stop_episode(op[1])
                continue
            if op[0] == "start":
                logger.start_new_episode()
                continue
            k = keys[op[1]]
            module = Tag(i)
            n_before = len(rec.saved)
            listed_before = len(sl.checkpoint_path.get(k, []))
            logger.record_epoch(k, module, episode=op[2], step=op[3])
            counts[k] += 1
            written = len(rec.saved) - n_before
            due = k in defined and counts[k] % intervals[op[1]] == 0
            where = f"key {k} interval {intervals[op[1]] if op[1] < len(intervals) else None}: epoch {counts[k]}"
            if due:
                check(written >= 1, "standard_cadence.missed_checkpoint", where)
                check(written <= 1, "standard_cadence.more_than_one_checkpoint", f"{where}: {written}")
                n_ck[k] += 1
            else:
                check(written == 0, "standard_cadence.spurious_checkpoint", f"{where}: {written} written")
                if n_ck[k] >= 1:
                    between[k] = True
            check(len(sl.checkpoint_path.get(k, [])) - listed_before == written, "standard_cadence.listed_paths",
                  where)
            check(rec.pending == 0, "standard_cadence.save_not_awaited", where)
            if written == 1:
                path, state = rec.saved[-1]
                check(sl.checkpoint_path[k][-1] == path, "standard_cadence.listed_path_differs",
                      f"{sl.checkpoint_path[k][-1]} != {path}")
                leaves = [np.asarray(x) for x in _leaves(state)]
                check(len(leaves) == 1 and int(leaves[0]) == i, "standard_cadence.saved_other_model",
                      f"{where}: saved state {leaves}, expected tag {i}")
        all_paths = [p for k in sl.checkpoint_path for p in sl.checkpoint_path[k]]
        check(len(set(all_paths)) == len(all_paths), "standard_cadence.duplicate_paths", "")
        check(not os.path.exists(os.path.join(d, "ck")), "standard_cadence.recorder_wrote_files", "")
    nt = any(n_ck[k] >= 2 and between[k] and intervals[j] >= 2
             for j, k in enumerate(keys[:-1]))
    labels = ["keys:%d" % len(intervals)]
    if counts["unscheduled"]:
        labels.append("unscheduled-key-recorded")
    if any(iv == 1 for iv in intervals):
        labels.append("interval-1")
    return Outcome(labels=labels, nontrivial=nt)


def _leaves(tree):
    import jax

    return jax.tree_util.tree_leaves(tree)


# ---------------------------------------------------------------- real saves

@st.composite
def real_save_cases(draw):
    which = draw(st.sampled_from(["orbax", "standard"]))
    interval = draw(st.sampled_from([2, 1, 3, 5]))
    arch = draw(st.sampled_from(["det_tanh_policy", "mlp", "gaussian_mlp", "double_q"]))
    n = draw(st.integers(2, 7))
    if which == "orbax":
        deltas = draw(st.lists(st.sampled_from([0, 1, interval, interval + 1, 2 * interval, interval - 1]),
                               min_size=n, max_size=n))
        steps, cur = [], 0
        for dl in deltas:
            cur += dl
            steps.append(cur)
        steps += [cur + interval, cur + interval, cur + 3 * interval]
    else:
        steps = [None] * (n + 2 * interval)
    # bound the number of real checkpoints per case to 4
    out, prev, cnt, made = [], 0, 0, 0
    for s in steps:
        cnt += 1
        due = (s // interval > prev // interval) if which == "orbax" else (cnt % interval == 0)
        if due and made == 4:
            break
        made += 1 if due else 0
        out.append(s)
        if which == "orbax":
            prev = s
    return {
        "logger": which, "interval": interval, "steps": out,
        "spec": {"arch": arch, "obs": 3, "act": 2, "hidden": draw(st.sampled_from([[4], []])),
                 "activation": "relu", "flag": draw(st.booleans()), "n": 2, "task": 0},
        "seed": draw(gen.seeds()), "template_seed": draw(gen.seeds()), "state_seed": draw(gen.seeds()),
        "define_experiment": draw(st.booleans()), "in_list": draw(st.booleans()),
        "second_key": draw(st.booleans()),
    }


def run_real_saves(case):
    from rl_blox.logging.checkpointer import OrbaxCheckpointer
    from rl_blox.logging.logger import LoggerList, MemoryLogger, StandardLogger

    spec, interval, which = case["spec"], case["interval"], case["logger"]
    with P.fresh_dir() as d, P.quiet():
        ckdir = os.path.join(d, "ck")
        writer = (OrbaxCheckpointer(checkpoint_dir=ckdir, verbose=0) if which == "orbax"
                  else StandardLogger(checkpoint_dir=ckdir, verbose=0))
        logger = LoggerList([writer, MemoryLogger()]) if case["in_list"] else writer
        if case["define_experiment"]:
            logger.define_experiment("Env-v0", "algo", {})
        logger.define_checkpoint_frequency("net", interval)
        if case["second_key"]:
            logger.define_checkpoint_frequency("other", 1000)
        m = P.build_module(spec, case["seed"], 0)
        prev, cnt = 0, 0
        saved = []  # state bytes at each record that must have written a checkpoint
        for i, s in enumerate(case["steps"]):
            P.set_state(m, case["state_seed"] + i, 1.0, [])
            cnt += 1
            listed_before = len(writer.checkpoint_path["net"])
            if which == "orbax":
                logger.record_epoch("net", m, step=s)
                due = s // interval > prev // interval
                prev = s
            else:
                logger.record_epoch("net", m)
                due = cnt % interval == 0
            if case["second_key"]:
                logger.record_epoch("other", m, step=(s or 0) % 1000)
            grew = len(writer.checkpoint_path["net"]) - listed_before
            check(grew == (1 if due else 0), f"real_saves.{which}.cadence",
                  f"record {i} (step {s}, epoch {cnt}, interval {interval}): {grew} path(s) listed, "
                  f"checkpoint {'due' if due else 'not due'}")
            if due:
                saved.append(state_bytes(m))
        P.set_state(m, case["state_seed"] + 999, 1.0, [])
        paths = list(writer.checkpoint_path["net"])
        check(len(paths) == len(saved), f"real_saves.{which}.count", f"{len(paths)} != {len(saved)}")
        on_disk = sorted(os.path.join(ckdir, n) for n in os.listdir(ckdir)) if os.path.isdir(ckdir) else []
        listed = sorted(os.path.normpath(p) for p in paths)
        check(on_disk == listed, f"real_saves.{which}.directory_listing",
              lambda: f"on disk {[os.path.basename(p) for p in on_disk]}, listed "
                      f"{[os.path.basename(p) for p in listed]}")
        for i, (path, want) in enumerate(zip(paths, saved)):
            for how, restore in (("restore_checkpoint", P.restore_with_helper),
                                 ("orbax_restore", P.restore_with_orbax)):
                if how == "orbax_restore" and i % 2:
                    continue  # bounded I/O: alternate the second reader
                t = P.build_module(spec, case["template_seed"] + i, 1)
                try:
                    r = restore(path, t)
                except Exception as e:  # noqa: BLE001 - every listed path must be restorable
                    check(False, f"real_saves.{which}.{how}.fails", f"{type(e).__name__}: {str(e)[:300]}")
                    continue
                got = state_bytes(r)
                check(got == want, f"real_saves.{which}.{how}.bytes",
                      lambda: f"checkpoint {i} of {len(paths)}: differs from the state at save time in "
                              f"{diff_states(want, got)[:5]}")
    labels = ["logger:" + which, "checkpoints:%d" % len(saved), "arch:" + spec["arch"],
              "in-list" if case["in_list"] else "direct"]
    return Outcome(labels=labels, nontrivial=len(saved) >= 2)


def simplify_real(case):
    """Smaller candidates for the greedy minimiser (real I/O: no Hypothesis shrinking)."""
    for k, v in (("in_list", False), ("define_experiment", False), ("second_key", False)):
        if case[k] != v:
            yield dict(case, **{k: v})
    if len(case["steps"]) > 1:
        yield dict(case, steps=case["steps"][:-1])
        yield dict(case, steps=case["steps"][1:])
    if case["spec"]["arch"] != "mlp":
        yield dict(case, spec=dict(case["spec"], arch="mlp"))
    if case["spec"]["hidden"]:
        yield dict(case, spec=dict(case["spec"], hidden=[]))


SUBCHECKS = [
    SubCheck("logger_ops", logger_cases, run_logger_ops, quick=500, thorough=10000, fuzz_runs=40000,
             rule=">= 2 keys, explicit and implicit locations, across a start and a stop"),
    SubCheck("orbax_cadence", cadence_cases, run_orbax_cadence, quick=400, thorough=8000, fuzz_runs=40000,
             rule="some key sees a jump over >= 2 interval multiples and a repeated step"),
    SubCheck("standard_cadence", standard_cases, run_standard_cadence, quick=300, thorough=6000, fuzz_runs=40000,
             rule="a key with interval >= 2 reaches >= 2 checkpoints with records in between"),
    SubCheck("real_saves", real_save_cases, run_real_saves, quick=24, thorough=150, cost=60.0,
             suppress_too_slow=True, shrink=False, simplify=simplify_real,
             rule=">= 2 real checkpoints of a module that changed in between"),
]
