"""C05 Each update routine changes only the component it trains.

One sub-check per update routine (DESIGN.md §5 C05).  Every case builds fresh
tiny networks / optimizers / batches from the drawn seeds, takes a byte-level
snapshot (``vlib.instruments.state_bytes``) of every module and optimizer that
is passed to the routine or reachable from what is passed, and of every input
array, and then

1. evaluates loss and gradient of the routine's documented objective w.r.t.
   the component the docstring says is trained -- on the live objects, under
   ``nnx.jit`` like the routines themselves.  This is one of the property's
   "pure evaluations": nothing may differ afterwards (``loss_eval_changed``);
2. calls the routine exactly as the training loops call it;
3. demands: everything outside the documented-to-train set is byte-identical
   (parameters, optimizer moments and step counters, non-Param variables,
   input arrays, PRNG keys: ``untouched``); inside the trained modules only
   ``nnx.Param`` leaves may differ (``nonparam_changed``); and every parameter
   leaf whose separately computed gradient is large enough that the optimizer
   step is representable in float32 did change (``must_change``).

A history-level sub-check (``history``) complements this: the function-level
cases build their own, separate modules and therefore cannot see aliasing that
a training routine creates itself (targets, fixed encoders, checkpoints cloned
inside ``train_*``).  It runs short trainings on scripted environments, demands
that components returned / logged under different role names share no
``nnx.Variable``, and applies every update routine of the algorithm to the
returned state under the same isolation clause.

The objective used for the gradient is the public loss function named in the
routine's docstring; where the routine assembles its objective from several
documented pieces (TD7 critic target, REINFORCE / actor-critic weights, PPO
advantages) it is re-assembled here from the formula in the docstring.  The
MR.Q policy objective is written here from its formula (``_mrq_policy_objective``)
so that a gradient path blocked inside ``mrq_policy_loss`` is visible: with
activation_weight = 0 and a policy optimizer without weight decay the policy
must still change, and with plain SGD the parameter step of critic and policy
must equal -lr times the documented gradient (``sgd_step_differs``).

Multi-task networks (``MTMLPQNetwork``, ``ModelBasedMTEncoder``: backbone plus
a task-embedding ``nnx.Param``) are covered by ``tsl_multitask``,
``update_critic_and_policy_mt``, ``update_model_based_encoder_mt`` and
``pure_eval_mt``.  Their task-embedding rows are set to norms below, exactly
at, just above and well above ``max_task_embedding_norm``: only ``select_task``
is documented to renormalise, every forward pass / greedy action / loss
evaluation / update of another component must leave the embedding
byte-identical.
"""
from __future__ import annotations

import types
from collections import namedtuple
from functools import partial

import numpy as np
from hypothesis import strategies as st

from vlib import gen
from vlib.core import HarnessError, Outcome, SubCheck, check
from vlib.instruments import BufferProxy, diff_states, param_arrays, shares_storage, state_bytes

PROPERTY = "C05"
RULE = (
    "One sub-check per update routine. A case = (shape configuration from a small pool, parameter "
    "seed and scale, data seed, optimizer kind in {sgd, adam, adamw} (quick tier: lr 0.1 for sgd, 1e-2 "
    "for adam/adamw; thorough: lr in {1e-3, 1e-2, 0.1}), optional optimizer warm-up step, "
    "routine-specific options such as number of gradient steps, termination pattern, head type, "
    "jit/eager call, cadence counters; MR.Q: activation_weight in {0, 1e-5, 0.1}). Multi-task sub-checks "
    "(tsl_multitask, *_mt, pure_eval_mt with the kinds mt_q / mt_encoder) add: number of tasks, embedding size, selected task "
    "of online and of target network, max_task_embedding_norm in {0.5, 1, 2} and for every task-embedding row its "
    "norm relative to the maximum from {0.5, exactly 1, 1.0005, 3}, at least one row above the maximum in a drawn "
    "subset of {online, target} networks; non-trivial additionally needs >= 1 row above the maximum. "
    "All parameters (kernels AND biases, "
    "layer-norm scales) are re-drawn from the seed; online and target networks get different "
    "values. Non-trivial = the separately computed gradient of the documented loss w.r.t. the "
    "trained component has max-abs > 0 AND at least two distinct non-trained components (modules, "
    "optimizers, input arrays / keys) were snapshotted around the call. pure_eval: non-trivial = "
    "at least two components snapshotted and the evaluation returned finite values. history: a case = "
    "(training routine in {td7, td3, td3_lap, ddpg, sac, mrq, nature_dqn, ddqn}, episode script, budget <= 40 "
    "steps, learning_starts, seeds, cadence options incl. target_delay = 1, checkpoints on/off); "
    "non-trivial = every update applied to the returned state changed its trained component, >= 2 other "
    "components present and >= 1 pair of returned roles compared for shared variables. Distinct = "
    "distinct canonical case."
)
ASSUMPTIONS = [
    "float32, CPU; 'unchanged' means byte-identical nnx.state / array bytes, 'changed' means any byte differs",
    "the documented-to-train set of each routine is read from its docstring / parameter list: the module "
    "that is paired with the optimizer argument (update_ppo: actor and critic; update_critic_and_policy: "
    "q and policy; EntropyControl.update: its own log-alpha, optimizer and the cached alpha_)",
    "a parameter leaf is required to change only if the step is representable: sgd: lr*|g_i| >= 2*spacing(p_i) "
    "for some element; cold adam/adamw (first step has magnitude ~lr): |g_i| >= 1e-5 and 0.9*lr >= 2*spacing(p_i); "
    "after a warm-up step only 'some parameter of the module changed' is required when max|g| >= 1e-3",
    "batch sizes >= 2 (several losses squeeze (1,1) outputs to scalars and reject batch size 1 loudly)",
    "update_critic_and_policy: the documented policy objective is -mean Q(encode_zsa(zs, pi(zs))) + "
    "activation_weight * mean(pre-activation^2) with Q the module's __call__ (minimum of both heads) and zs fixed; "
    "with optax.sgd (stateless) the step of every leaf of q and policy must equal -lr * gradient within 1e-3 of the "
    "leaf's largest step + 1e-7 * lr + 4 ulp (two separately compiled float32 programs)",
    "multi-task networks: task_id is set through the attribute TaskSelectionMixin.select_task assigns; only "
    "MTMLPQNetwork.select_task / ModelBasedMTEncoder.select_task are documented to renormalise the embedding (checked: "
    "they change nothing but the embedding of their own module and leave rows within the maximum untouched); the "
    "task embedding is a Param of the network, so an update of that network may change it; ModelBasedMTEncoder is "
    "only used with normalize_targets=True (its zs sub-network cannot be called on plain observations); 1-D "
    "observations are not passed to networks with task_embedding_dim = 1 (concatenate_embedding rejects them loudly)",
    "TD7 _train_step: at epochs that are multiples of target_delay the documented hard copies of the target / "
    "fixed networks are allowed (their law is C06's subject); at all other epochs they must be byte-identical",
    "train_ensemble: the first mini-batch depends on the routine's own bootstrap, so only 'some parameter "
    "changed' is required, using the full-data gradient as witness",
    "history: components that a routine returns (or shows to the logger) under different names are distinct "
    "roles and must not share nnx.Variable objects; the same object appearing under the same role in the "
    "passed-in state, the result and the logger is expected",
]

_WD = 1e-3
Batch = namedtuple("Batch", ["observation", "action", "reward", "next_observation", "termination"])
SubBatch = namedtuple("Batch", ["observation", "action", "reward", "next_observation", "terminated",
                                "truncated"])


# ----------------------------------------------------------------------------
# lazy imports (workers import jax once)

class _L:
    _c = None

    def __getattr__(self, name):
        if _L._c is None:
            import gymnasium as gym
            import jax
            import jax.numpy as jnp
            import optax
            from flax import nnx

            _L._c = {"gym": gym, "jax": jax, "jnp": jnp, "optax": optax, "nnx": nnx}
        return _L._c[name]


L = _L()


# ----------------------------------------------------------------------------
# builders

def _seed(*parts):
    s = 0
    for p in parts:
        s = (s * 1000003 + int(p) + 12345) % (2**31 - 1)
    return s


def _redraw(module, seed, scale):
    """Replace every nnx.Param leaf by N(0, scale) values drawn from the seed."""
    jax, nnx, jnp = L.jax, L.nnx, L.jnp
    state = nnx.state(module, nnx.Param)
    leaves, treedef = jax.tree_util.tree_flatten(state)
    new = [jnp.asarray(gen.rng_array(_seed(seed, i), np.shape(leaf), scale)) for i, leaf in enumerate(leaves)]
    nnx.update(module, jax.tree_util.tree_unflatten(treedef, new))
    return module


def _mlp(n_in, n_out, hidden, act, seed, scale):
    from rl_blox.blox.function_approximator.mlp import MLP

    return _redraw(MLP(n_in, n_out, list(hidden), act, L.nnx.Rngs(seed % 1000)), seed, scale)


def _lnmlp(n_in, n_out, hidden, act, seed, scale):
    from rl_blox.blox.function_approximator.layer_norm_mlp import LayerNormMLP

    return _redraw(LayerNormMLP(n_in, n_out, list(hidden), act, rngs=L.nnx.Rngs(seed % 1000)), seed, scale)


def _gmlp(shared, n_in, n_out, hidden, act, seed, scale):
    from rl_blox.blox.function_approximator.gaussian_mlp import GaussianMLP

    return _redraw(GaussianMLP(bool(shared), n_in, n_out, list(hidden), act, L.nnx.Rngs(seed % 1000)), seed, scale)


def _double_q(make, seed):
    from rl_blox.blox.double_qnet import ContinuousClippedDoubleQNet

    return ContinuousClippedDoubleQNet(make(_seed(seed, 1)), make(_seed(seed, 2)))


def _box(case):
    ad, seed = case["ad"], case["box"]
    r = np.random.default_rng(_seed(seed, 77))
    low = -(0.5 + 1.5 * r.random(ad)).astype(np.float32)
    high = (0.5 + 1.5 * r.random(ad)).astype(np.float32)
    return L.gym.spaces.Box(low, high, dtype=np.float32)


def _det_policy(net, box):
    from rl_blox.blox.function_approximator.policy_head import DeterministicTanhPolicy

    return DeterministicTanhPolicy(net, box)


# --- multi-task networks (task embedding + backbone)
# Row norms of the task embedding relative to max_task_embedding_norm: below,
# exactly at (a signed unit vector times the max norm: its float32 norm is
# exact), just above and well above the maximum.  Training (an optimizer step on
# the embedding) and hard target copies produce rows above the maximum; only
# select_task is documented to renormalise.
_MT_NORMS = [0.5, 1.0, 1.0005, 3.0]
_MT_MAX_NORMS = [1.0, 1.0, 0.5, 2.0]  # per shape configuration (static attribute of the modules)


def _set_task_embedding(module, seed, mults):
    """Overwrite the task-embedding parameter: row i gets a direction drawn from
    the seed and the norm mults[i] * max_task_embedding_norm."""
    emb = module._task_embedding.embedding
    n, e = np.shape(emb.value)
    if len(mults) != n:
        raise HarnessError(f"{len(mults)} row norms for {n} tasks")
    max_norm = float(module.max_task_embedding_norm)
    rows = np.zeros((n, e), dtype=np.float64)
    for i, m in enumerate(mults):
        if m == 1.0:
            rows[i, _seed(seed, i) % e] = max_norm * (1.0 if _seed(seed, i, 1) % 2 else -1.0)
        else:
            d = gen.rng_array(_seed(seed, i, 2), (e,), 1.0).astype(np.float64) + 1e-3
            rows[i] = d / np.linalg.norm(d) * m * max_norm
    emb.value = L.jnp.asarray(rows.astype(np.float32))
    return module


def _mt_rows_above(module):
    """Number of task-embedding rows whose float32 norm exceeds the maximum."""
    v = np.asarray(module._task_embedding.embedding.value, dtype=np.float32)
    return int(np.sum(np.sqrt(np.sum(v * v, axis=1, dtype=np.float32)) > np.float32(module.max_task_embedding_norm)))


def _mt_q(case, seed, norms, task):
    from rl_blox.blox.embedding.task_embedding import MTMLPQNetwork

    q = MTMLPQNetwork(n_tasks=case["n_tasks"], task_embedding_dim=case["ted"], n_features=case["od"],
                      n_outputs=case["na"], hidden_nodes=list(case["hid"]), activation=case["act"],
                      rngs=L.nnx.Rngs(seed % 1000), max_task_embedding_norm=case["max_norm"])
    _set_task_embedding(_redraw(q, seed, case["pscale"]), _seed(seed, 5), norms)
    q.task_id = int(task)  # the attribute TaskSelectionMixin.select_task sets (no renormalisation)
    return q


def _mt_encoder(case, seed, norms, task):
    from rl_blox.blox.embedding.task_embedding import ModelBasedMTEncoder

    e = ModelBasedMTEncoder(n_tasks=case["n_tasks"], task_embedding_dim=case["ted"], n_state_features=case["od"],
                            n_action_features=case["ad"], n_bins=case["n_bins"], zs_dim=case["zs"],
                            za_dim=case["za"], zsa_dim=case["zsa"], hidden_nodes=list(case["hid"]),
                            activation="elu", rngs=L.nnx.Rngs(seed % 1000),
                            max_task_embedding_norm=case["max_norm"])
    _set_task_embedding(_redraw(e, seed, case["pscale"]), _seed(seed, 5), norms)
    e.task_id = int(task)
    return e


def _mt_fields(draw, c):
    """Multi-task part of a case: number of tasks, embedding size, selected
    tasks of online / target network (shape-like: tied to the configuration in
    the quick tier) and the row norms of both embeddings (free)."""
    c["mt"] = 1
    c["n_tasks"] = 3 if _quick() else draw(st.sampled_from([2, 3, 4]))
    c["ted"] = _tied(draw, c, [2, 2, 3, 2], st.sampled_from([1, 2, 3]))
    c["task"] = _tied(draw, c, [0, 1, 2, 1], st.integers(0, c["n_tasks"] - 1))
    # train_smt / train_active_mt select tasks on the online modules only: the target may sit on another task
    c["task_t"] = _tied(draw, c, [0, 1, 0, 2], st.integers(0, c["n_tasks"] - 1))
    c["max_norm"] = _tied(draw, c, _MT_MAX_NORMS, st.sampled_from([0.5, 1.0, 2.0]))
    rows = st.lists(st.sampled_from([0.5] + _MT_NORMS), min_size=c["n_tasks"], max_size=c["n_tasks"])
    c["norms"] = draw(rows)
    c["norms_t"] = draw(rows)
    # constructed, not filtered: which of the two networks certainly has a row above the maximum
    which = draw(st.sampled_from(["online", "target", "both", "both", "free"]))
    for key, wanted in (("norms", ("online", "both")), ("norms_t", ("target", "both"))):
        if which in wanted and max(c[key]) <= 1.0:
            c[key][draw(st.integers(0, c["n_tasks"] - 1))] = draw(st.sampled_from([1.0005, 3.0]))
    return c


def _mt_labels(case, mods):
    above = {n: _mt_rows_above(m) for n, m in mods.items()}
    labs = [f"rows-above:{n}={'0' if a == 0 else '1+'}" for n, a in above.items()]
    sel = [case["norms"][case["task"]], case["norms_t"][case["task_t"]]]
    labs.append("selected-row-above" if max(sel) > 1.0 else "selected-row-within")
    if 1.0 in case["norms"] + case["norms_t"]:
        labs.append("row-exactly-at-max")
    return labs, sum(above.values())


_TX = {}


def _tx(kind, lr):
    """optax transformations are cached so that equal (kind, lr) give equal
    graphdefs and nnx.jit can reuse its compilation."""
    key = (kind, float(lr))
    if key not in _TX:
        optax = L.optax
        _TX[key] = {"sgd": lambda: optax.sgd(lr), "adam": lambda: optax.adam(lr),
                    "adamw": lambda: optax.adamw(lr, weight_decay=_WD)}[kind]()
    return _TX[key]


def _optimizer(module, kind, lr, warm, seed):
    """nnx.Optimizer (wrt=Param) for module; with ``warm`` one update with
    seeded pseudo-gradients is applied first so that moments and counters are
    not all zero."""
    jax, nnx, jnp = L.jax, L.nnx, L.jnp
    opt = nnx.Optimizer(module, _tx(kind, lr), wrt=nnx.Param)
    if warm:
        state = nnx.state(module, nnx.Param)
        leaves, treedef = jax.tree_util.tree_flatten(state)
        g = [jnp.asarray(gen.rng_array(_seed(seed, 900 + i), np.shape(x), 0.1)) for i, x in enumerate(leaves)]
        _jit("warm", lambda: (lambda o, m, gr: o.update(m, gr)))(opt, module, jax.tree_util.tree_unflatten(treedef, g))
    return opt


_JIT = {}


def _jit(key, make):
    """Module-level cache of nnx.jit-wrapped harness functions (oracle losses,
    gradients): one XLA compilation per shape configuration instead of one per
    primitive."""
    if key not in _JIT:
        _JIT[key] = L.nnx.jit(make())
    return _JIT[key]


def _f(x):
    return L.jnp.asarray(np.asarray(x, dtype=np.float32))


def _i(x):
    return L.jnp.asarray(np.asarray(x, dtype=np.int32))


def _obs(case, tag, shape, scale=1.5):
    return _f(gen.rng_array(_seed(case["dseed"], tag), shape, scale))


def _actions_in_box(case, tag, n, box):
    r = np.random.default_rng(_seed(case["dseed"], tag))
    u = r.random((n, box.shape[0])).astype(np.float32)
    return _f(box.low + u * (box.high - box.low))


def _clone(x):
    nnx = L.nnx
    return nnx.clone(x) if isinstance(x, nnx.Module) else x


def _flat_tree(tree):
    jax = L.jax
    return {jax.tree_util.keystr(p): np.array(x) for p, x in jax.tree_util.tree_leaves_with_path(tree)}


# ----------------------------------------------------------------------------
# snapshots and the oracle

def _array_bytes(a):
    jax = L.jax
    if hasattr(a, "dtype") and jax.dtypes.issubdtype(a.dtype, jax.dtypes.prng_key):
        a = jax.random.key_data(a)
    a = np.asarray(a)
    return {"": (str(a.dtype), a.shape, a.tobytes())}


class Scene:
    """Everything that is passed to (or reachable from what is passed to) one
    routine call."""

    def __init__(self, sub):
        self.sub = sub
        self.objs = {}  # name -> nnx.Module / nnx.Optimizer
        self.arrs = {}  # name -> array / key / numpy buffer
        self.params = {}  # module name -> set of Param paths

    def mod(self, name, m):
        self.objs[name] = m
        self.params[name] = set(param_arrays(m))
        return m

    def opt(self, name, o):
        self.objs[name] = o
        return o

    def arr(self, name, a):
        self.arrs[name] = a
        return a

    def arrs_from(self, prefix, tup):
        for k, v in tup._asdict().items():
            self.arr(f"{prefix}.{k}", v)
        return tup

    def snap(self):
        out = {}
        for n, o in self.objs.items():
            out[n] = state_bytes(o)
        for n, a in self.arrs.items():
            try:
                out[n] = _array_bytes(a)
            except RuntimeError as e:  # deleted / donated buffer
                out[n] = {"": ("invalid", (), str(e)[:80].encode())}
        return out

    def n_components(self):
        return len(self.objs) + len(self.arrs)

    # --- oracle clauses
    def expect_unchanged(self, before, after, clause, names=None):
        for n in (names if names is not None else before):
            d = diff_states(before[n], after[n])
            check(not d, f"{self.sub}.{clause}.{n}", lambda d=d, n=n: f"{n}: changed {d[:4]} ({len(d)} leaves)")

    def verify(self, before, after, trained_mods, trained_opts, free=()):
        """trained_mods: names whose Param leaves may change; trained_opts:
        optimizers that may change; free: names allowed to change
        arbitrarily (documented side effects)."""
        for n in before:
            d = diff_states(before[n], after[n])
            if n in free or n in trained_opts:
                continue
            if n in trained_mods:
                bad = [p for p in d if p not in self.params[n]]
                check(not bad, f"{self.sub}.nonparam_changed.{n}",
                      lambda bad=bad, n=n: f"non-Param variables of trained module {n} changed: {bad[:4]}")
            else:
                check(not d, f"{self.sub}.untouched.{n}",
                      lambda d=d, n=n: f"{n} is not in the documented-to-train set but changed: {d[:4]} "
                                       f"({len(d)} leaves)")

    def must_change(self, name, before, after, grads, kind, lr, cold):
        """grads: {param path: np.array}.  Returns (gmax, demanded)."""
        gmax, demanded = 0.0, 0
        b, a = before[name], after[name]
        for path, g in grads.items():
            if path not in b:
                raise HarnessError(f"{self.sub}: gradient path {path} not a leaf of {name}: {sorted(b)[:5]}")
            g = np.abs(np.asarray(g, dtype=np.float64))
            if g.size == 0 or not np.all(np.isfinite(g)):
                continue
            gmax = max(gmax, float(g.max()))
            dt, shp, raw = b[path]
            p = np.frombuffer(raw, dtype=dt).reshape(shp)
            sp = 2.0 * np.spacing(np.abs(p).astype(np.float32)).astype(np.float64)
            if not cold:
                continue
            if kind == "sgd":
                need = bool(np.any(lr * g >= np.maximum(sp, 1e-30)))
            else:
                need = bool(np.any((g >= 1e-5) & (0.9 * lr >= sp)))
            if need:
                demanded += 1
                check(b[path] != a[path], f"{self.sub}.must_change.{name}",
                      lambda path=path, g=g: f"{name}{path}: gradient max-abs {g.max():.3g}, {kind} lr={lr}, "
                                             f"but the leaf is byte-identical after the update")
        if gmax >= 1e-3:
            demanded += 1
            changed = [p for p in self.params[name] if b[p] != a[p]]
            check(bool(changed), f"{self.sub}.must_change.{name}",
                  lambda: f"{name}: gradient max-abs {gmax:.3g}, {kind} lr={lr}, but no parameter changed")
        return gmax, demanded

    def sgd_step(self, name, before, after, grads, lr):
        """Plain SGD (optax.sgd without momentum) is stateless: every parameter leaf
        must move by -lr * gradient of the documented objective.  The reference
        gradient is evaluated by a separately compiled float32 program, hence the
        tolerance: 1e-3 of the leaf's largest step plus a few ulps of the parameter
        (a blocked or partially blocked gradient path is wrong by O(step))."""
        b, a = before[name], after[name]
        n = 0
        for path, g in grads.items():
            g = np.asarray(g, dtype=np.float64)
            if g.size == 0 or not np.all(np.isfinite(g)):
                continue
            dt, shp, raw = b[path]
            p0 = np.frombuffer(raw, dtype=dt).reshape(shp).astype(np.float64)
            p1 = np.frombuffer(a[path][2], dtype=a[path][0]).reshape(a[path][1]).astype(np.float64)
            want = -lr * g
            tol = (1e-3 * float(np.max(np.abs(want))) + 1e-7 * lr
                   + 4.0 * np.spacing(np.maximum(np.abs(p0), np.abs(p0 + want)).astype(np.float32)).astype(np.float64))
            err = np.abs((p1 - p0) - want)
            n += 1
            check(bool(np.all(err <= tol)), f"{self.sub}.sgd_step_differs.{name}",
                  lambda path=path, err=err, want=want, p1=p1, p0=p0: (
                      f"{name}{path}: sgd lr={lr}: parameter moved by {(p1 - p0).ravel()[:4]}, -lr * documented "
                      f"gradient is {want.ravel()[:4]} (max abs error {err.max():.3g})"))
        return n


def _outcome(sc, case, gmaxes, labels, n_trained, extra=True):
    """extra: additional non-triviality condition of the sub-check (multi-task:
    some task-embedding row above the maximum norm)."""
    gmax = min(gmaxes) if gmaxes else 0.0
    n_other = sc.n_components() - n_trained
    labs = list(labels) + [f"opt={case.get('opt', '-')}", "warm" if case.get("warm") else "cold",
                           "grad>0" if gmax > 0 else "grad=0",
                           f"bystanders={'2+' if n_other >= 2 else n_other}"]
    return Outcome(labels=labs, nontrivial=bool(gmax > 0 and n_other >= 2 and extra))


def _eval_grad(key, make_fn, argnums, *args):
    """Evaluate loss and gradient of the scalar function returned by make_fn()
    w.r.t. args[argnums] -- on the live objects: this is itself one of the
    'pure evaluations' of the property, the caller compares snapshots around
    it.  Returns {param path: array} (a tuple of them for tuple argnums)."""
    f = _jit(key, lambda: L.nnx.grad(make_fn(), argnums=argnums))
    g = f(*args)
    if isinstance(argnums, tuple):
        return tuple(_flat_tree(x) for x in g)
    return _flat_tree(g)


# ----------------------------------------------------------------------------
# strategies

_ACTS = ["relu", "tanh", "swish"]
# Quick tier: every shape-like or compile-time-static quantity comes from one
# of a few fixed configurations so that XLA compilations are shared between
# cases (DESIGN §3 "shape pools"); values (parameters, data, optimizer kinds,
# termination patterns, cadence counters) vary freely.  The thorough tier
# draws all of them independently.
_CFGS = [
    dict(B=2, od=1, ad=1, hid=[], act="relu", na=2, shared=0, zd=2, h0=3, zs=3, za=2, zsa=3, n_bins=5, act_last=0),
    dict(B=3, od=2, ad=1, hid=[4], act="tanh", na=3, shared=1, zd=2, h0=3, zs=3, za=2, zsa=3, n_bins=5, act_last=1),
    dict(B=5, od=3, ad=2, hid=[4], act="relu", na=5, shared=0, zd=3, h0=4, zs=4, za=2, zsa=5, n_bins=9, act_last=0),
    dict(B=3, od=2, ad=2, hid=[5, 3], act="swish", na=3, shared=1, zd=2, h0=3, zs=3, za=2, zsa=3, n_bins=5,
         act_last=0),
]
_KINDS = ["sgd", "adam", "adamw"]
_LRS = [1e-2, 0.1, 1e-3]
_QUICK_LR = {"sgd": 0.1, "adam": 1e-2, "adamw": 1e-2}


def _quick():
    return gen.tier() == "quick"


@st.composite
def _base(draw, two_opts=False, cfgs=None):
    if _quick():
        i = draw(st.sampled_from(list(cfgs) if cfgs else list(range(len(_CFGS)))))
        c = dict(_CFGS[i])
        c["hid"] = list(c["hid"])
        c["cfg"] = i
        c["box"] = i
        c["opt"] = draw(st.sampled_from(_KINDS))
        c["lr"] = _QUICK_LR[c["opt"]]
    else:
        c = dict(B=draw(st.sampled_from([2, 3, 5, 8, 13])), od=draw(st.integers(1, 4)), ad=draw(st.integers(1, 3)),
                 hid=list(draw(st.sampled_from([[], [4], [5, 3], [7], [3, 3, 3]]))), act=draw(st.sampled_from(_ACTS)),
                 na=draw(st.sampled_from([2, 3, 5])), shared=draw(st.integers(0, 1)),
                 zd=draw(st.sampled_from([2, 3])), h0=draw(st.sampled_from([3, 4])),
                 zs=draw(st.sampled_from([3, 4])), za=2, zsa=draw(st.sampled_from([3, 5])),
                 n_bins=draw(st.sampled_from([5, 9])), act_last=draw(st.integers(0, 1)))
        c["cfg"] = draw(st.integers(0, 3))
        c["box"] = draw(st.integers(0, 9))
        c["opt"] = draw(st.sampled_from(_KINDS))
        c["lr"] = draw(st.sampled_from(_LRS))
    c.update({"warm": draw(st.sampled_from([0, 0, 1])),
              "pseed": draw(gen.seeds()), "dseed": draw(gen.seeds()),
              "pscale": draw(st.sampled_from([0.3, 0.6, 1.0]))})
    if two_opts:
        if _quick():
            c["opt2"] = _KINDS[(_KINDS.index(c["opt"]) + draw(st.integers(0, 1))) % 3]
            c["lr2"] = _QUICK_LR[c["opt2"]]
        else:
            c["opt2"] = draw(st.sampled_from(_KINDS))
            c["lr2"] = draw(st.sampled_from(_LRS))
    return c


def _tied(draw, c, quick_values, thorough):
    """Compile-time-static option: tied to the shape configuration in the
    quick tier, drawn freely in the thorough tier."""
    if _quick():
        return quick_values[c["cfg"] % len(quick_values)]
    return draw(thorough)


def _term(n):
    return gen.flags(n)


def _opt_for(module, case, seed, which=""):
    return _optimizer(module, case["opt" + which], case["lr" + which], case.get("warm", 0), seed)


# ----------------------------------------------------------------------------
# train_step_with_loss x 8 losses

_TSL = {}
_DISCRETE = ("dqn_loss", "nature_dqn_loss", "ddqn_loss", "ddqn_per_loss")


def _tsl_jit(name):
    if name not in _TSL:
        from rl_blox.algorithm.dqn import train_step_with_loss
        from rl_blox.blox import losses

        loss = getattr(losses, name)
        static = ("gamma", "min_priority") if name == "td3_lap_loss" else ("gamma",)
        # built exactly as the training routines build it
        _TSL[name] = (loss, partial(L.nnx.jit, static_argnames=static)(partial(train_step_with_loss, loss)))
    return _TSL[name]


def _tsl_cases(name):
    @st.composite
    def s(draw):
        c = draw(_base())
        c["gamma"] = draw(st.sampled_from([0.0, 0.5, 0.99, 1.0]))
        c["term"] = draw(_term(c["B"]))
        c["rscale"] = draw(st.sampled_from([1.0, 30.0]))
        c["mode"] = draw(st.sampled_from(["jit", "jit", "jit", "eager"]))
        if name in ("td3_loss", "td3_lap_loss", "sac_loss"):
            c["double"] = 1
        if name == "td3_lap_loss":
            c["min_priority"] = draw(st.sampled_from([1.0, 0.1]))
        if name == "sac_loss":
            c["alpha"] = _tied(draw, c, ["float", "array", "array", "float"], st.sampled_from(["float", "array"]))
        return c
    return s


def _make_q_cont(case, seed):
    od, ad = case["od"], case["ad"]

    def mk(s):
        return _mlp(od + ad, 1, case["hid"], case["act"], s, case["pscale"])
    return _double_q(mk, seed) if case.get("double") else mk(seed)


def _tsl_run(name):
    sub = "tsl_" + name[:-5]

    def run(case):
        from rl_blox.algorithm.dqn import train_step_with_loss
        from rl_blox.blox.function_approximator.policy_head import GaussianTanhPolicy

        jax = L.jax
        loss, step = _tsl_jit(name)
        mt = bool(case.get("mt"))
        sc = Scene(sub + "_mt" if mt else sub)
        B, od, ad = case["B"], case["od"], case["ad"]
        ps = case["pseed"]
        mt_labels, n_above = [], 1
        if name in _DISCRETE and mt:
            # multi-task Q networks (examples/smt_discrete_example.py): online network and its target
            q = _mt_q(case, _seed(ps, 1), case["norms"], case["task"])
            q_target = _mt_q(case, _seed(ps, 2), case["norms_t"], case["task_t"])
            mt_labels, n_above = _mt_labels(case, {"q": q, "q_target": q_target} if name != "dqn_loss" else {"q": q})
        elif name in _DISCRETE:
            q = _mlp(od, case["na"], case["hid"], case["act"], _seed(ps, 1), case["pscale"])
            q_target = _mlp(od, case["na"], case["hid"], case["act"], _seed(ps, 2), case["pscale"])
        else:
            q = _make_q_cont(case, _seed(ps, 1))
            q_target = _make_q_cont(case, _seed(ps, 2))
            box = _box(case)
            action = _actions_in_box(case, 5, B, box)
        if name in _DISCRETE:
            r = np.random.default_rng(_seed(case["dseed"], 5))
            action = _i(r.integers(0, case["na"], B))
            box = None
        batch = Batch(_obs(case, 1, (B, od)), action, _f(gen.rng_array(_seed(case["dseed"], 2), (B,), case["rscale"])),
                      _obs(case, 3, (B, od)), _i(case["term"]))
        sc.mod("q", q)
        optimizer = sc.opt("optimizer", _opt_for(q, case, ps))
        sc.arrs_from("batch", batch)
        gamma = case["gamma"]
        if name == "dqn_loss":
            args = (batch, gamma)
        elif name in ("nature_dqn_loss", "ddqn_loss"):
            args = (sc.mod("q_target", q_target), batch, gamma)
        elif name == "ddqn_per_loss":
            w = _f(0.1 + np.abs(gen.rng_array(_seed(case["dseed"], 9), (B,), 1.0)))
            args = (sc.mod("q_target", q_target), batch, gamma, sc.arr("is_ratio", w))
        elif name == "ddpg_loss":
            pt = _det_policy(_mlp(od, ad, case["hid"], case["act"], _seed(ps, 3), case["pscale"]), box)
            args = (sc.mod("q_target", q_target), sc.mod("policy_target", pt), batch, gamma)
        elif name in ("td3_loss", "td3_lap_loss"):
            na = sc.arr("next_action", _actions_in_box(case, 6, B, box))
            args = (sc.mod("q_target", q_target), na, batch, gamma)
            if name == "td3_lap_loss":
                args = args + (case["min_priority"],)
        elif name == "sac_loss":
            pol = GaussianTanhPolicy(_gmlp(case["shared"], od, ad, case["hid"], case["act"], _seed(ps, 3),
                                           case["pscale"]), box)
            key = sc.arr("action_key", jax.random.PRNGKey(case["dseed"] % 100003))
            alpha = 0.2 if case["alpha"] == "float" else sc.arr("alpha", _f([0.3]))
            args = (sc.mod("q_target", q_target), sc.mod("policy", pol), key, alpha, batch, gamma)
        else:  # pragma: no cover
            raise HarnessError(name)

        s0 = sc.snap()
        g = _eval_grad(("tsl", name), lambda: (lambda *a: loss(*a)[0]), 0, q, *args)
        s1 = sc.snap()
        sc.expect_unchanged(s0, s1, "loss_eval_changed")
        if case["mode"] == "jit":
            step(optimizer, q, *args)
        else:
            train_step_with_loss(loss, optimizer, q, *args)
        s2 = sc.snap()
        sc.verify(s1, s2, {"q"}, {"optimizer"})
        gmax, dem = sc.must_change("q", s1, s2, g, case["opt"], case["lr"], not case["warm"])
        return _outcome(sc, case, [gmax], [case["mode"], "demanded" if dem else "not-demanded",
                                           "term-mixed" if 0 < sum(case["term"]) < B else "term-uniform"]
                        + ([name] + mt_labels if mt else []), 2, extra=n_above > 0)
    return run


@st.composite
def tsl_mt_cases(draw):
    """train_step_with_loss on multi-task Q networks (MTMLPQNetwork online and
    target, as in examples/smt_discrete_example.py) with the DQN-family losses."""
    name = draw(st.sampled_from(["ddqn_loss", "nature_dqn_loss", "ddqn_loss", "nature_dqn_loss", "ddqn_per_loss",
                                 "dqn_loss"]))
    c = draw(_tsl_cases(name)())
    c["loss"] = name
    return _mt_fields(draw, c)


def run_tsl_mt(case):
    return _tsl_run(case["loss"])(case)


# ----------------------------------------------------------------------------
# DDPG / SAC actor updates, entropy coefficient

@st.composite
def ddpg_actor_cases(draw):
    c = draw(_base())
    c["double"] = _tied(draw, c, [0, 1, 1, 0], st.integers(0, 1))
    return c


def run_ddpg_actor(case):
    from rl_blox.algorithm.ddpg import ddpg_update_actor
    from rl_blox.blox.losses import deterministic_policy_gradient_loss

    sc = Scene("ddpg_update_actor")
    B, od, ad, ps = case["B"], case["od"], case["ad"], case["pseed"]
    box = _box(case)
    policy = sc.mod("policy", _det_policy(_mlp(od, ad, case["hid"], case["act"], _seed(ps, 1), case["pscale"]), box))
    q = sc.mod("q", _make_q_cont(case, _seed(ps, 2)))
    opt = sc.opt("policy_optimizer", _opt_for(policy, case, ps))
    obs = sc.arr("observation", _obs(case, 1, (B, od)))
    s0 = sc.snap()
    g = _eval_grad("dpg", lambda: deterministic_policy_gradient_loss, 2, q, obs, policy)
    s1 = sc.snap()
    sc.expect_unchanged(s0, s1, "loss_eval_changed")
    ddpg_update_actor(policy, opt, q, obs)
    s2 = sc.snap()
    sc.verify(s1, s2, {"policy"}, {"policy_optimizer"})
    gmax, dem = sc.must_change("policy", s1, s2, g, case["opt"], case["lr"], not case["warm"])
    return _outcome(sc, case, [gmax], ["double-q" if case["double"] else "single-q",
                                       "demanded" if dem else "not-demanded"], 2)


@st.composite
def sac_actor_cases(draw):
    c = draw(_base())
    c["double"] = 1
    c["alpha"] = _tied(draw, c, ["float", "array", "array", "float"], st.sampled_from(["float", "array"]))
    return c


def _sac_policy(case, seed, box):
    from rl_blox.blox.function_approximator.policy_head import GaussianTanhPolicy

    return GaussianTanhPolicy(_gmlp(case["shared"], case["od"], case["ad"], case["hid"], case["act"], seed,
                                    case["pscale"]), box)


def run_sac_actor(case):
    from rl_blox.algorithm.sac import sac_actor_loss, sac_update_actor

    jax = L.jax
    sc = Scene("sac_update_actor")
    B, od, ps = case["B"], case["od"], case["pseed"]
    box = _box(case)
    policy = sc.mod("policy", _sac_policy(case, _seed(ps, 1), box))
    q = sc.mod("q", _make_q_cont(case, _seed(ps, 2)))
    opt = sc.opt("policy_optimizer", _opt_for(policy, case, ps))
    obs = sc.arr("observation", _obs(case, 1, (B, od)))
    key = sc.arr("action_key", jax.random.PRNGKey(case["dseed"] % 100003))
    alpha = 0.2 if case["alpha"] == "float" else sc.arr("alpha", _f([0.3]))
    s0 = sc.snap()
    g = _eval_grad("sac_actor", lambda: sac_actor_loss, 0, policy, q, alpha, key, obs)
    s1 = sc.snap()
    sc.expect_unchanged(s0, s1, "loss_eval_changed")
    sac_update_actor(policy, opt, q, key, obs, alpha)
    s2 = sc.snap()
    sc.verify(s1, s2, {"policy"}, {"policy_optimizer"})
    gmax, dem = sc.must_change("policy", s1, s2, g, case["opt"], case["lr"], not case["warm"])
    return _outcome(sc, case, [gmax], ["alpha-" + case["alpha"], "demanded" if dem else "not-demanded"], 2)


@st.composite
def entropy_cases(draw):
    c = draw(_base())
    c["variant"] = draw(st.sampled_from(["class", "class", "direct", "direct", "direct", "fixed"]))
    c["log_alpha"] = draw(st.sampled_from([0.0, -1.0, 0.7]))
    return c


def run_entropy(case):
    from rl_blox.algorithm import sac

    jax, jnp = L.jax, L.jnp
    sc = Scene("entropy_update")
    B, od, ad, ps = case["B"], case["od"], case["ad"], case["pseed"]
    box = _box(case)
    policy = sc.mod("policy", _sac_policy(case, _seed(ps, 1), box))
    obs = sc.arr("observations", _obs(case, 1, (B, od)))
    key = sc.arr("action_key", jax.random.PRNGKey(case["dseed"] % 100003))
    env = types.SimpleNamespace(action_space=box)
    variant = case["variant"]
    if variant == "fixed":
        ec = sac.EntropyControl(env, 0.2, False, case["lr"])
        s1 = sc.snap()
        r = ec.update(policy, obs, key)
        s2 = sc.snap()
        sc.expect_unchanged(s1, s2, "untouched")
        check(ec.alpha_ == 0.2 and float(r) == 0.0, "entropy_update.fixed_alpha_changed", f"{ec.alpha_} {r}")
        return Outcome(labels=["fixed-alpha"], nontrivial=False)
    if variant == "class":
        # the class builds its own adam optimizer with the given learning rate
        ec = sac.EntropyControl(env, 0.2, True, case["lr"])
        alpha_mod, opt, kind, cold = ec._alpha, ec.optimizer, "adam", True
        target_entropy = ec.target_entropy
    else:
        alpha_mod = sac.EntropyCoefficient(jnp.zeros(1) + case["log_alpha"])
        opt = _opt_for(alpha_mod, case, ps)
        kind, cold = case["opt"], not case["warm"]
        target_entropy = -float(ad)
    sc.mod("alpha", alpha_mod)
    sc.opt("alpha_optimizer", opt)
    s0 = sc.snap()
    g = _eval_grad("sac_expl", lambda: sac.sac_exploration_loss, 4, policy, target_entropy, key, obs, alpha_mod)
    s1 = sc.snap()
    sc.expect_unchanged(s0, s1, "loss_eval_changed")
    if variant == "class":
        ec.update(policy, obs, key)
        new_alpha = np.asarray(ec.alpha_, dtype=np.float64)
        ref = np.exp(np.asarray(alpha_mod.log_alpha.value, dtype=np.float64))
        check(new_alpha.shape == ref.shape and np.allclose(new_alpha, ref, rtol=1e-5, atol=0),
              "entropy_update.alpha_cache", f"alpha_={new_alpha} exp(log_alpha)={ref}")
    else:
        sac._update_entropy_coefficient(opt, policy, target_entropy, key, obs, alpha_mod)
    s2 = sc.snap()
    sc.verify(s1, s2, {"alpha"}, {"alpha_optimizer"})
    gmax, dem = sc.must_change("alpha", s1, s2, g, kind, case["lr"], cold)
    return _outcome(sc, case, [gmax], [variant, "demanded" if dem else "not-demanded"], 2)


# ----------------------------------------------------------------------------
# TD7 pieces: SALE, critic, actor, _train_step

def _sale(case, seed):
    from rl_blox.blox.embedding.sale import SALE

    zd = case["zd"]
    return SALE(_mlp(case["od"], zd, case["hid"], "elu", _seed(seed, 1), case["pscale"]),
                _mlp(zd + case["ad"], zd, case["hid"], "elu", _seed(seed, 2), case["pscale"]))


def _critic_sale(case, seed):
    from rl_blox.blox.embedding.sale import CriticSALE

    od, ad, zd, h0 = case["od"], case["ad"], case["zd"], case["h0"]

    def mk(s):
        c = CriticSALE(_mlp(h0 + 2 * zd, 1, case["hid"], case["act"], _seed(s, 1), case["pscale"]),
                       od, ad, h0, L.nnx.Rngs(s % 1000))
        return _redraw(c, _seed(s, 2), case["pscale"])
    return _double_q(mk, seed)


def _actor_sale(case, seed, box):
    from rl_blox.blox.embedding.sale import ActorSALE

    od, ad, zd, h0 = case["od"], case["ad"], case["zd"], case["h0"]
    pol = _det_policy(_mlp(h0 + zd, ad, case["hid"], case["act"], _seed(seed, 1), case["pscale"]), box)
    return _redraw(ActorSALE(pol, od, h0, L.nnx.Rngs(seed % 1000)), _seed(seed, 2), case["pscale"])


@st.composite
def sale_cases(draw):
    return draw(_base())


def run_update_sale(case):
    from rl_blox.blox.embedding.sale import state_action_embedding_loss, update_sale

    nnx = L.nnx
    sc = Scene("update_sale")
    B, od, ps = case["B"], case["od"], case["pseed"]
    box = _box(case)
    emb = sc.mod("embedding", _sale(case, _seed(ps, 1)))
    # train_td7 keeps clones of the embedding as fixed encoders
    sc.mod("fixed_embedding", nnx.clone(emb))
    opt = sc.opt("embedding_optimizer", _opt_for(emb, case, ps))
    obs = sc.arr("observations", _obs(case, 1, (B, od)))
    act = sc.arr("actions", _actions_in_box(case, 2, B, box))
    nobs = sc.arr("next_observations", _obs(case, 3, (B, od)))
    s0 = sc.snap()
    g = _eval_grad("sale", lambda: state_action_embedding_loss, 0, emb, obs, act, nobs)
    s1 = sc.snap()
    sc.expect_unchanged(s0, s1, "loss_eval_changed")
    update_sale(emb, opt, obs, act, nobs)
    s2 = sc.snap()
    sc.verify(s1, s2, {"embedding"}, {"embedding_optimizer"})
    gmax, dem = sc.must_change("embedding", s1, s2, g, case["opt"], case["lr"], not case["warm"])
    return _outcome(sc, case, [gmax], ["demanded" if dem else "not-demanded"], 2)


@st.composite
def td7_critic_cases(draw):
    c = draw(_base())
    c["gamma"] = _tied(draw, c, [0.99, 0.0, 0.99, 0.99], st.sampled_from([0.0, 0.99]))
    c["min_priority"] = _tied(draw, c, [1.0, 1.0, 0.1, 1.0], st.sampled_from([1.0, 0.1]))
    c["term"] = draw(_term(c["B"]))
    c["clip"] = draw(st.sampled_from([[0.0, 0.0], [-1.0, 1.0], [-1e8, 1e8]]))
    c["rscale"] = draw(st.sampled_from([1.0, 30.0]))
    return c


def _td7_critic_loss(critic, emb, emb_t, critic_t, gamma, delta, qmin, qmax, obs, act, nobs, nact, rew, term):
    """Documented TD7 critic objective: sum over both Q networks of the Huber
    loss between y = r + (1-t) gamma clip(min Q'(o', a', z'), qmin, qmax) and
    Q(o, a, zsa, zs), embeddings fixed."""
    jax, jnp, optax = L.jax, L.jnp, L.optax
    zsa, zs = emb(obs, act)
    nzsa, nzs = emb_t(nobs, nact)
    qn = critic_t(jnp.concatenate((nobs, nact), axis=-1), zsa=nzsa, zs=nzs).squeeze()
    y = jax.lax.stop_gradient(rew + (1 - term) * gamma * jnp.clip(qn, qmin, qmax))
    zsa, zs = jax.lax.stop_gradient(zsa), jax.lax.stop_gradient(zs)
    oa = jnp.concatenate((obs, act), axis=-1)
    return (optax.huber_loss(critic.q1(oa, zsa=zsa, zs=zs).squeeze(), y, delta=delta).mean()
            + optax.huber_loss(critic.q2(oa, zsa=zsa, zs=zs).squeeze(), y, delta=delta).mean())


def run_td7_critic(case):
    from rl_blox.algorithm.td7 import td7_update_critic

    sc = Scene("td7_update_critic")
    B, od, ps = case["B"], case["od"], case["pseed"]
    box = _box(case)
    fe = sc.mod("fixed_embedding", _sale(case, _seed(ps, 1)))
    fet = sc.mod("fixed_embedding_target", _sale(case, _seed(ps, 2)))
    critic = sc.mod("critic", _critic_sale(case, _seed(ps, 3)))
    critic_t = sc.mod("critic_target", _critic_sale(case, _seed(ps, 4)))
    opt = sc.opt("critic_optimizer", _opt_for(critic, case, ps))
    obs = sc.arr("observation", _obs(case, 1, (B, od)))
    act = sc.arr("action", _actions_in_box(case, 2, B, box))
    nobs = sc.arr("next_observation", _obs(case, 3, (B, od)))
    nact = sc.arr("next_action", _actions_in_box(case, 4, B, box))
    rew = sc.arr("reward", _f(gen.rng_array(_seed(case["dseed"], 5), (B,), case["rscale"])))
    term = sc.arr("terminated", _i(case["term"]))
    qmin, qmax = case["clip"]
    gamma, delta = case["gamma"], case["min_priority"]
    s0 = sc.snap()
    g = _eval_grad("td7_critic", lambda: _td7_critic_loss, 0, critic, fe, fet, critic_t, gamma, delta, qmin, qmax,
                   obs, act, nobs, nact, rew, term)
    s1 = sc.snap()
    sc.expect_unchanged(s0, s1, "loss_eval_changed")
    td7_update_critic(fe, fet, critic, critic_t, opt, gamma, obs, act, nobs, nact, rew, term, delta, qmin, qmax)
    s2 = sc.snap()
    sc.verify(s1, s2, {"critic"}, {"critic_optimizer"})
    gmax, dem = sc.must_change("critic", s1, s2, g, case["opt"], case["lr"], not case["warm"])
    return _outcome(sc, case, [gmax], ["demanded" if dem else "not-demanded"], 2)


@st.composite
def td7_actor_cases(draw):
    return draw(_base())


def run_td7_actor(case):
    from rl_blox.algorithm.td7 import deterministic_policy_gradient_loss_sale, td7_update_actor
    from rl_blox.blox.embedding.sale import DeterministicSALEPolicy

    sc = Scene("td7_update_actor")
    B, od, ps = case["B"], case["od"], case["pseed"]
    box = _box(case)
    emb = sc.mod("policy.embedding", _sale(case, _seed(ps, 1)))
    actor = sc.mod("policy.actor", _actor_sale(case, _seed(ps, 2), box))
    policy = DeterministicSALEPolicy(emb, actor)
    critic = sc.mod("critic", _critic_sale(case, _seed(ps, 3)))
    opt = sc.opt("actor_optimizer", _opt_for(actor, case, ps))
    obs = sc.arr("observation", _obs(case, 1, (B, od)))
    s0 = sc.snap()
    g = _eval_grad("dpg_sale", lambda: deterministic_policy_gradient_loss_sale, 3, emb, critic, obs, actor)
    s1 = sc.snap()
    sc.expect_unchanged(s0, s1, "loss_eval_changed")
    td7_update_actor(policy, opt, critic, obs)
    s2 = sc.snap()
    sc.verify(s1, s2, {"policy.actor"}, {"actor_optimizer"})
    gmax, dem = sc.must_change("policy.actor", s1, s2, g, case["opt"], case["lr"], not case["warm"])
    return _outcome(sc, case, [gmax], ["demanded" if dem else "not-demanded"], 2)


@st.composite
def td7_step_cases(draw):
    c = draw(_base())
    c["gamma"] = _tied(draw, c, [0.99, 0.0, 0.99, 0.99], st.sampled_from([0.0, 0.99]))
    c["min_priority"] = 1.0
    c["n_buf"] = 6
    c["term"] = draw(_term(c["n_buf"]))
    c["policy_delay"] = draw(st.sampled_from([1, 2, 3]))
    c["target_delay"] = draw(st.sampled_from([2, 3, 5]))
    c["epoch"] = draw(st.integers(1, 12))
    c["n_steps"] = draw(st.sampled_from([1, 2, 2, 2]))
    if c["n_steps"] == 2 and draw(st.sampled_from([1, 1, 0])):
        # a hard-copy epoch followed by a plain one: copies must not alias
        c["epoch"] = c["target_delay"] * draw(st.integers(1, 3))
    c["clip"] = draw(st.sampled_from([[0.0, 0.0], [-1.0, 1.0], [-50.0, 50.0]]))
    c["opt_c"] = draw(st.sampled_from(_KINDS))
    c["opt_a"] = draw(st.sampled_from(_KINDS))
    return c


_SAMPLERS = {}


def _sampler(kind, case):
    """make_sample_actions / make_sample_target_actions of the algorithms
    (each call creates a new jitted function, so they are cached per box)."""
    key = (kind, case["ad"], case["box"])
    if key not in _SAMPLERS:
        from rl_blox.algorithm.ddpg import make_sample_actions
        from rl_blox.algorithm.td3 import make_sample_target_actions

        box = _box(case)
        _SAMPLERS[key] = make_sample_actions(box, 0.3) if kind == "explore" else \
            make_sample_target_actions(box, 0.2, 0.5)
    return _SAMPLERS[key]


def run_td7_step(case):
    from rl_blox.algorithm import td7
    from rl_blox.blox.embedding.sale import DeterministicSALEPolicy, state_action_embedding_loss
    from rl_blox.blox.replay_buffer import LAP

    jax, nnx = L.jax, L.nnx
    sc = Scene("td7_train_step")
    B, od, ps = case["B"], case["od"], case["pseed"]
    box = _box(case)
    lr = case["lr"]
    emb = sc.mod("embedding", _sale(case, _seed(ps, 1)))
    fe = sc.mod("fixed_embedding", _sale(case, _seed(ps, 2)))
    fet = sc.mod("fixed_embedding_target", _sale(case, _seed(ps, 3)))
    actor = sc.mod("actor", _actor_sale(case, _seed(ps, 4), box))
    actor_t = sc.mod("actor_target", _actor_sale(case, _seed(ps, 5), box))
    critic = sc.mod("critic", _critic_sale(case, _seed(ps, 6)))
    critic_t = sc.mod("critic_target", _critic_sale(case, _seed(ps, 7)))
    policy = DeterministicSALEPolicy(fe, actor)
    policy_t = DeterministicSALEPolicy(fet, actor_t)
    lr_c = lr if not _quick() else _QUICK_LR[case["opt_c"]]
    lr_a = lr if not _quick() else _QUICK_LR[case["opt_a"]]
    e_opt = sc.opt("embedding_optimizer", _optimizer(emb, case["opt"], lr, case["warm"], _seed(ps, 11)))
    c_opt = sc.opt("critic_optimizer", _optimizer(critic, case["opt_c"], lr_c, case["warm"], _seed(ps, 12)))
    a_opt = sc.opt("actor_optimizer", _optimizer(actor, case["opt_a"], lr_a, case["warm"], _seed(ps, 13)))
    n = case["n_buf"]
    rb = LAP(n + 3)
    o_all = gen.rng_array(_seed(case["dseed"], 1), (n, od), 1.5)
    no_all = gen.rng_array(_seed(case["dseed"], 2), (n, od), 1.5)
    a_all = np.asarray(_actions_in_box(case, 3, n, box))
    r_all = gen.rng_array(_seed(case["dseed"], 4), (n,), 1.0)
    for k in range(n):
        rb.add_sample(observation=o_all[k], action=a_all[k], reward=float(r_all[k]), next_observation=no_all[k],
                      termination=bool(case["term"][k]))
    for k in rb.buffer:
        sc.arr("replay_buffer." + k, rb.buffer[k])
    proxy = BufferProxy(rb, record_batches=True)
    vcs = td7.ValueClippingState(min_value=-3.0, max_value=4.0, min_target_value=case["clip"][0],
                                 max_target_value=case["clip"][1])
    keys = [sc.arr(f"sampling_key{k}", jax.random.key((case["dseed"] + k) % 100003)) for k in range(case["n_steps"])]
    rng = np.random.default_rng(case["dseed"])
    sampler = _sampler("target", case)
    pd_, td_ = case["policy_delay"], case["target_delay"]
    gamma, delta = case["gamma"], case["min_priority"]
    gms, labels, n_in_set = [], [], 0
    pairs = [("critic", critic, "critic_target", critic_t), ("actor", actor, "actor_target", actor_t),
             ("embedding", emb, "fixed_embedding", fe), ("fixed_embedding", fe, "fixed_embedding_target", fet),
             ("embedding", emb, "fixed_embedding_target", fet)]
    for k in range(case["n_steps"]):
        epoch = case["epoch"] + k
        key = keys[k]
        qmin, qmax = float(vcs.min_target_value), float(vcs.max_target_value)
        # clones for the oracle (state before the call)
        fe0, fet0, actor0, actor_t0, critic0, critic_t0, emb0 = (nnx.clone(x) for x in
                                                                 (fe, fet, actor, actor_t, critic, critic_t, emb))
        s1 = sc.snap()
        td7._train_step(sampler, emb, e_opt, critic, critic_t, c_opt, policy, policy_t, a_opt, vcs, proxy, epoch,
                        key, rng, gamma, B, pd_, td_, 0.4, delta)
        s2 = sc.snap()
        actor_epoch = epoch % pd_ == 0
        target_epoch = epoch % td_ == 0
        trained = {"embedding", "critic"} | ({"actor"} if actor_epoch else set())
        topts = {"embedding_optimizer", "critic_optimizer"} | ({"actor_optimizer"} if actor_epoch else set())
        free = ({"actor_target", "critic_target", "fixed_embedding", "fixed_embedding_target"} if target_epoch
                else set())
        sc.verify(s1, s2, trained, topts, free)
        # hard copies must copy values, never share variables (else the next update leaks into the target)
        for n1, m1, n2, m2 in pairs:
            check(not shares_storage(m1, m2), f"td7_train_step.aliasing.{n1}~{n2}",
                  f"{n1} and {n2} share nnx.Variable objects after epoch {epoch}")
        # oracle gradients from the batch the routine really sampled
        check(len(proxy.samples) == k + 1, "td7_train_step.one_batch_per_step",
              f"{len(proxy.samples)} batches sampled after {k + 1} steps")
        obs, act, rew, nobs, term = proxy.samples[k]
        cold = not case["warm"] and k == 0
        g_e = _eval_grad("sale", lambda: state_action_embedding_loss, 0, emb0, obs, act, nobs)
        gm_e, _ = sc.must_change("embedding", s1, s2, g_e, case["opt"], lr, cold)
        nact = sampler(DeterministicSALEPolicy(fet0, actor_t0), nobs, key)
        g_c = _eval_grad("td7_critic", lambda: _td7_critic_loss, 0, critic0, fe0, fet0, critic_t0, gamma, delta,
                         qmin, qmax, obs, act, nobs, nact, rew, term)
        gm_c, _ = sc.must_change("critic", s1, s2, g_c, case["opt_c"], lr_c, cold)
        gms += [gm_e, gm_c]
        if actor_epoch:
            # the actor step sees the freshly updated critic and the (not yet re-copied) fixed embedding
            g_a = _eval_grad("dpg_sale", lambda: td7.deterministic_policy_gradient_loss_sale, 3, fe0,
                             nnx.clone(critic), obs, actor0)
            gm_a, _ = sc.must_change("actor", s1, s2, g_a, case["opt_a"], lr_a, cold)
            gms.append(gm_a)
        labels += [f"step{k}:" + ("actor" if actor_epoch else "no-actor"),
                   f"step{k}:" + ("target" if target_epoch else "no-target")]
        n_in_set = max(n_in_set, len(trained) + len(topts) + len(free))
    if case["n_steps"] == 2:
        labels.append("target-then-plain" if case["epoch"] % td_ == 0 else "two-steps-other")
    return _outcome(sc, case, gms, labels, n_in_set)


# ----------------------------------------------------------------------------
# MR.Q: critic+policy update, model based encoder update

def _encoder(case, seed):
    from rl_blox.blox.embedding.model_based_encoder import ModelBasedEncoder

    e = ModelBasedEncoder(n_state_features=case["od"], n_action_features=case["ad"], n_bins=case["n_bins"],
                          zs_dim=case["zs"], za_dim=case["za"], zsa_dim=case["zsa"], hidden_nodes=list(case["hid"]),
                          activation="elu", encoder_activation_in_last_layer=bool(case["act_last"]),
                          rngs=L.nnx.Rngs(seed % 1000))
    return _redraw(e, seed, case["pscale"])


@st.composite
def mrq_cases(draw):
    c = draw(_base(two_opts=True))
    c["H"] = _tied(draw, c, [1, 3, 3, 1], st.sampled_from([1, 2, 3]))
    c["gamma"] = _tied(draw, c, [0.99, 0.0, 0.99, 0.99], st.sampled_from([0.0, 0.99]))
    # activation_weight 0.0: no regulariser, so that with a policy optimizer without weight decay (sgd, adam)
    # only the deterministic-policy-gradient term can move the policy
    c["aw"] = _tied(draw, c, [0.0, 0.1, 1e-5, 0.0], st.sampled_from([0.0, 1e-5, 0.1]))
    c["term"] = draw(_term(c["B"] * c["H"]))
    c["scales"] = draw(st.sampled_from([[1.0, 0.0], [1.0, 1.0], [0.37, 2.5]]))
    return c


@st.composite
def mrq_mt_cases(draw):
    """update_critic_and_policy with multi-task encoders (ModelBasedMTEncoder
    online and target, networks as built by create_mt_mrq_state)."""
    return _mt_fields(draw, draw(mrq_cases()))


@st.composite
def encoder_mt_cases(draw):
    """update_model_based_encoder with multi-task encoders."""
    c = draw(encoder_cases())
    c["normalize"] = 1  # ModelBasedMTEncoder.zs takes observation + task embedding: only normalised targets exist
    return _mt_fields(draw, c)


def _mrq_policy_objective(aw):
    """Documented MR.Q policy objective, written from the formula (not via
    mrq_policy_loss): -mean_i Q(zsa(zs_i, pi(zs_i))) + activation_weight *
    mean(pre-activation^2), zs = encoder.encode_zs(observation) held fixed."""
    def f(p, q_, e, obs):
        jax, jnp = L.jax, L.jnp
        zs = jax.lax.stop_gradient(e.encode_zs(obs))
        value = q_(e.encode_zsa(zs, p(zs)))
        objective = -jnp.sum(value) / value.size
        if aw != 0.0:
            pre = p.policy_net(zs)
            objective = objective + aw * jnp.sum(pre * pre) / pre.size
        return objective
    return f


def run_mrq(case):
    from rl_blox.algorithm import mrq

    mt = bool(case.get("mt"))
    sc = Scene("update_critic_and_policy" + ("_mt" if mt else ""))
    B, od, ad, ps, H = case["B"], case["od"], case["ad"], case["pseed"], case["H"]
    box = _box(case)
    ted = case["ted"] if mt else 0  # the multi-task encoder appends the task embedding to zs and zsa

    def mkq(s):
        return _lnmlp(case["zsa"] + ted, 1, case["hid"], "elu", s, case["pscale"])
    q = sc.mod("q", _double_q(mkq, _seed(ps, 1)))
    q_t = sc.mod("q_target", _double_q(mkq, _seed(ps, 2)))
    policy = sc.mod("policy", _det_policy(_lnmlp(case["zs"] + ted, ad, case["hid"], case["act"], _seed(ps, 3),
                                                 case["pscale"]), box))
    mt_labels, n_above = [], 1
    if mt:
        enc = sc.mod("encoder", _mt_encoder(case, _seed(ps, 4), case["norms"], case["task"]))
        enc_t = sc.mod("encoder_target", _mt_encoder(case, _seed(ps, 5), case["norms_t"], case["task_t"]))
        mt_labels, n_above = _mt_labels(case, {"encoder": enc, "encoder_target": enc_t})
    else:
        enc = sc.mod("encoder", _encoder(case, _seed(ps, 4)))
        enc_t = sc.mod("encoder_target", _encoder(case, _seed(ps, 5)))
    q_opt = sc.opt("q_optimizer", _opt_for(q, case, _seed(ps, 6)))
    p_opt = sc.opt("policy_optimizer", _opt_for(policy, case, _seed(ps, 7), "2"))
    term = np.asarray(case["term"], dtype=np.int32).reshape(B, H)
    batch = SubBatch(_obs(case, 1, (B, od)), _actions_in_box(case, 2, B, box),
                     _f(gen.rng_array(_seed(case["dseed"], 3), (B, H), 1.0)), _obs(case, 4, (B, od)),
                     _i(term), _i(np.zeros((B, H))))
    sc.arrs_from("batch", batch)
    nact = sc.arr("next_action", _actions_in_box(case, 5, B, box))
    gamma, aw = case["gamma"], case["aw"]
    rs, trs = case["scales"]

    def make_q():
        return lambda q_, qt, e, et, na, b, rs_, trs_: mrq.mrq_loss(q_, qt, e, et, na, b, gamma, rs_, trs_)[0]

    def make_p():
        def f(p, q_, e, obs):
            import jax

            zs = jax.lax.stop_gradient(e.encode_zs(obs))
            return mrq.mrq_policy_loss(p, q_, e, zs, aw)[0]
        return f
    s0 = sc.snap()
    g_q = _eval_grad(("mrq_q", gamma), make_q, 0, q, q_t, enc, enc_t, nact, batch, rs, trs)
    _eval_grad(("mrq_p", aw), make_p, 0, policy, q, enc, batch.observation)
    s1 = sc.snap()
    sc.expect_unchanged(s0, s1, "loss_eval_changed")
    policy0 = L.nnx.clone(policy)
    mrq.update_critic_and_policy(q, q_t, q_opt, policy, p_opt, enc, enc_t, gamma, aw, nact, batch, rs, trs)
    s2 = sc.snap()
    sc.verify(s1, s2, {"q", "policy"}, {"q_optimizer", "policy_optimizer"})
    cold = not case["warm"]
    gm_q, d1 = sc.must_change("q", s1, s2, g_q, case["opt"], case["lr"], cold)
    # the policy step uses the already updated critic; its documented gradient comes from an objective
    # written here from the formula, not from mrq_policy_loss
    g_p = _eval_grad(("mrq_p_doc", aw), lambda: _mrq_policy_objective(aw), 0, policy0, L.nnx.clone(q),
                     L.nnx.clone(enc), batch.observation)
    gm_p, d2 = sc.must_change("policy", s1, s2, g_p, case["opt2"], case["lr2"], cold)
    # plain gradient descent has no state: the step is -lr * gradient of the documented objective
    n_dir = 0
    if case["opt"] == "sgd":
        n_dir += sc.sgd_step("q", s1, s2, g_q, case["lr"])
    if case["opt2"] == "sgd":
        n_dir += sc.sgd_step("policy", s1, s2, g_p, case["lr2"])
    return _outcome(sc, case, [gm_q, gm_p],
                    [f"H={H}", "demanded" if d1 and d2 else "not-demanded", f"aw={aw:g}", f"opt2={case['opt2']}",
                     "policy-moves-by-dpg-term-only" if aw == 0.0 and case["opt2"] != "adamw" else
                     "policy-moves-also-by-regulariser/decay", "sgd-step-compared" if n_dir else "no-sgd-step"]
                    + mt_labels, 4, extra=n_above > 0)


@st.composite
def encoder_cases(draw):
    c = draw(_base())
    c["H"] = _tied(draw, c, [1, 2, 2, 1], st.integers(1, 3))
    c["target_delay"] = _tied(draw, c, [1, 2, 1, 2], st.integers(1, 3))
    c["normalize"] = _tied(draw, c, [1, 0, 1, 0], st.integers(0, 1))
    c["env_term"] = draw(st.integers(0, 1))
    c["term"] = draw(_term(c["B"] * c["target_delay"] * c["H"]))
    return c


def run_encoder(case):
    from rl_blox.blox.embedding.model_based_encoder import model_based_encoder_loss, update_model_based_encoder
    from rl_blox.blox.preprocessing import make_two_hot_bins

    mt = bool(case.get("mt"))
    sc = Scene("update_model_based_encoder" + ("_mt" if mt else ""))
    od, ad, ps = case["od"], case["ad"], case["pseed"]
    H, T, B = case["H"], case["target_delay"], case["B"]
    N = T * B
    box = _box(case)
    mt_labels, n_above = [], 1
    if mt:
        enc = sc.mod("encoder", _mt_encoder(case, _seed(ps, 1), case["norms"], case["task"]))
        enc_t = sc.mod("encoder_target", _mt_encoder(case, _seed(ps, 2), case["norms_t"], case["task_t"]))
        mt_labels, n_above = _mt_labels(case, {"encoder": enc, "encoder_target": enc_t})
    else:
        enc = sc.mod("encoder", _encoder(case, _seed(ps, 1)))
        enc_t = sc.mod("encoder_target", _encoder(case, _seed(ps, 2)))
    opt = sc.opt("encoder_optimizer", _opt_for(enc, case, ps))
    bins = sc.arr("the_bins", make_two_hot_bins(n_bin_edges=case["n_bins"]))
    term = np.asarray(case["term"], dtype=np.int32).reshape(N, H)
    acts = np.asarray(_actions_in_box(case, 2, N * H, box)).reshape(N, H, ad)
    batches = SubBatch(_obs(case, 1, (N, H, od)), _f(acts), _f(gen.rng_array(_seed(case["dseed"], 3), (N, H), 2.0)),
                       _obs(case, 4, (N, H, od)), _i(term), _i(np.zeros((N, H))))
    sc.arrs_from("batches", batches)
    first = SubBatch(*(_f(np.asarray(x)[:B]) if x.dtype != np.int32 else _i(np.asarray(x)[:B]) for x in batches))
    env_term, norm = bool(case["env_term"]), bool(case["normalize"])
    wd, wr, wdo = 1.0, 0.1, 0.1

    def make():
        return lambda e, et, b, ba, envt: model_based_encoder_loss(e, et, b, ba, H, wd, wr, wdo, envt, norm)[0]
    s0 = sc.snap()
    g = _eval_grad(("enc", H, norm), make, 0, enc, enc_t, bins, first, env_term)
    s1 = sc.snap()
    sc.expect_unchanged(s0, s1, "loss_eval_changed")
    update_model_based_encoder(enc, enc_t, opt, bins, H, wd, wr, wdo, T, B, norm, batches, env_term)
    s2 = sc.snap()
    sc.verify(s1, s2, {"encoder"}, {"encoder_optimizer"})
    gmax, dem = sc.must_change("encoder", s1, s2, g, case["opt"], case["lr"], not case["warm"] and T == 1)
    return _outcome(sc, case, [gmax], [f"H={H}", f"T={T}", "demanded" if dem else "not-demanded"]
                    + mt_labels, 2, extra=n_above > 0)


# ----------------------------------------------------------------------------
# policy-gradient family: PPO, A2C, REINFORCE, actor-critic, value function

@st.composite
def _pg_base(draw, two_opts=False):
    c = draw(_base(two_opts=two_opts))
    c["head"] = draw(st.sampled_from(["softmax", "gaussian"]))
    c["steps"] = _tied(draw, c, [1, 2, 1, 1], st.sampled_from([1, 1, 2, 3]))
    return c


def _pg_policy(case, seed):
    from rl_blox.blox.function_approximator.policy_head import GaussianPolicy, SoftmaxPolicy

    if case["head"] == "softmax":
        return SoftmaxPolicy(_mlp(case["od"], case["na"], case["hid"], case["act"], seed, case["pscale"]))
    return GaussianPolicy(_gmlp(case["shared"], case["od"], case["ad"], case["hid"], case["act"], seed,
                                case["pscale"]))


def _pg_actions(case, tag, n):
    if case["head"] == "softmax":
        r = np.random.default_rng(_seed(case["dseed"], tag))
        return _i(r.integers(0, case["na"], n))
    return _f(gen.rng_array(_seed(case["dseed"], tag), (n, case["ad"]), 1.0))


def _value_fn(case, seed):
    return _mlp(case["od"], 1, case["hid"], case["act"], seed, case["pscale"])


def _pseudo_loss():
    from rl_blox.blox.losses import stochastic_policy_gradient_pseudo_loss

    return stochastic_policy_gradient_pseudo_loss


@st.composite
def ppo_cases(draw):
    c = draw(_pg_base(two_opts=True))
    c["term"] = draw(_term(c["B"]))
    c["epochs"] = c.pop("steps")
    # rollout of n_envs environments, environment-major flattened (B = n_envs * steps)
    divisors = [d for d in range(1, c["B"] + 1) if c["B"] % d == 0]
    c["n_envs"] = _tied(draw, c, [2, 1, 1, 3], st.sampled_from(divisors))
    if c["B"] % c["n_envs"]:
        c["n_envs"] = 1
    return c


_PPO_OBJ = {}


def _ppo_objective(n_envs):
    """update_ppo's documented procedure: GAE advantages / returns per
    environment of the environment-major flattened rollout from the critic's
    current values, log-probabilities of the taken actions under the current
    actor as the 'old' ones, then ppo_loss."""
    if n_envs not in _PPO_OBJ:
        from rl_blox.algorithm.ppo import ppo_loss
        from rl_blox.blox.gae import compute_gae

        def f(actor, critic, obs, act, rew, term, nv):
            jax, jnp = L.jax, L.jnp
            values = jax.lax.stop_gradient(critic(obs)).flatten()
            n = rew.shape[0] // n_envs
            advs, rets = [], []
            for e in range(n_envs):
                sl = slice(e * n, (e + 1) * n)
                a, r = compute_gae(rew[sl], values[sl], nv[sl], term[sl])
                advs.append(a)
                rets.append(r)
            logp = jax.lax.stop_gradient(actor.log_probability(obs, act))
            return ppo_loss(actor, critic, logp, obs, act, jnp.concatenate(advs), jnp.concatenate(rets))
        _PPO_OBJ[n_envs] = f
    return _PPO_OBJ[n_envs]


def run_ppo(case):
    from rl_blox.algorithm.ppo import update_ppo

    sc = Scene("update_ppo")
    B, od, ps = case["B"], case["od"], case["pseed"]
    n_envs = case["n_envs"]
    actor = sc.mod("actor", _pg_policy(case, _seed(ps, 1)))
    critic = sc.mod("critic", _value_fn(case, _seed(ps, 2)))
    oa = sc.opt("optimizer_actor", _opt_for(actor, case, _seed(ps, 3)))
    oc = sc.opt("optimizer_critic", _opt_for(critic, case, _seed(ps, 4), "2"))
    obs = sc.arr("observation", _obs(case, 1, (B, od)))
    act = sc.arr("action", _pg_actions(case, 2, B))
    rew = sc.arr("reward", _f(gen.rng_array(_seed(case["dseed"], 3), (B,), 1.0)))
    term = sc.arr("terminated", L.jnp.asarray(np.asarray(case["term"], dtype=bool)))
    nv = sc.arr("next_value", _f(gen.rng_array(_seed(case["dseed"], 4), (B,), 1.0)))
    s0 = sc.snap()
    g_a, g_c = _eval_grad(("ppo", n_envs), lambda: _ppo_objective(n_envs), (0, 1), actor, critic, obs, act, rew,
                          term, nv)
    s1 = sc.snap()
    sc.expect_unchanged(s0, s1, "loss_eval_changed")
    update_ppo(actor, critic, oa, oc, obs, act, rew, term, nv, epochs=case["epochs"], n_envs=n_envs)
    s2 = sc.snap()
    sc.verify(s1, s2, {"actor", "critic"}, {"optimizer_actor", "optimizer_critic"})
    cold = not case["warm"]
    gm_a, d1 = sc.must_change("actor", s1, s2, g_a, case["opt"], case["lr"], cold)
    gm_c, d2 = sc.must_change("critic", s1, s2, g_c, case["opt2"], case["lr2"], cold)
    return _outcome(sc, case, [gm_a, gm_c], [case["head"], f"epochs={case['epochs']}", f"n_envs={n_envs}",
                                             "demanded" if d1 and d2 else "not-demanded"], 4)


@st.composite
def a2c_cases(draw):
    return draw(_pg_base())


def run_a2c_policy(case):
    from rl_blox.algorithm.a2c import train_policy_a2c

    sc = Scene("train_policy_a2c")
    B, od, ps = case["B"], case["od"], case["pseed"]
    policy = sc.mod("policy", _pg_policy(case, _seed(ps, 1)))
    # train_a2c keeps a value function next to the policy; it is not passed
    sc.mod("value_function", _value_fn(case, _seed(ps, 2)))
    opt = sc.opt("policy_optimizer", _opt_for(policy, case, ps))
    obs = sc.arr("observations", _obs(case, 1, (B, od)))
    act = sc.arr("actions", _pg_actions(case, 2, B))
    adv_np = gen.rng_array(_seed(case["dseed"], 3), (B,), 2.0)
    adv = sc.arr("advantages", _f(adv_np))
    # documented weights: advantages normalised to zero mean / unit std
    w = _f((adv_np - adv_np.mean()) / (adv_np.std() + 1e-8))
    s0 = sc.snap()
    g = _eval_grad("pg", _pseudo_loss, 3, obs, act, w, policy)
    s1 = sc.snap()
    sc.expect_unchanged(s0, s1, "loss_eval_changed")
    train_policy_a2c(policy, opt, case["steps"], obs, act, adv)
    s2 = sc.snap()
    sc.verify(s1, s2, {"policy"}, {"policy_optimizer"})
    gmax, dem = sc.must_change("policy", s1, s2, g, case["opt"], case["lr"], not case["warm"])
    return _outcome(sc, case, [gmax], [case["head"], f"steps={case['steps']}",
                                       "demanded" if dem else "not-demanded"], 2)


@st.composite
def value_cases(draw):
    c = draw(_base())
    c["steps"] = _tied(draw, c, [1, 2, 3, 1], st.sampled_from([1, 1, 2, 3]))
    c["rscale"] = draw(st.sampled_from([1.0, 30.0]))
    return c


def _mse_value_loss():
    from rl_blox.blox.losses import mse_value_loss

    return mse_value_loss


def run_value_function(case):
    from rl_blox.algorithm.reinforce import train_value_function
    from rl_blox.blox.function_approximator.policy_head import SoftmaxPolicy

    sc = Scene("train_value_function")
    B, od, ps = case["B"], case["od"], case["pseed"]
    vf = sc.mod("value_function", _value_fn(case, _seed(ps, 1)))
    # the policy that shares the training loop (not passed)
    sc.mod("policy", SoftmaxPolicy(_mlp(od, 2, case["hid"], case["act"], _seed(ps, 2), case["pscale"])))
    opt = sc.opt("value_function_optimizer", _opt_for(vf, case, ps))
    obs = sc.arr("observations", _obs(case, 1, (B, od)))
    ret = sc.arr("returns", _f(gen.rng_array(_seed(case["dseed"], 2), (B,), case["rscale"])))
    s0 = sc.snap()
    g = _eval_grad("mse_value", _mse_value_loss, 2, obs, ret, vf)
    s1 = sc.snap()
    sc.expect_unchanged(s0, s1, "loss_eval_changed")
    train_value_function(vf, opt, case["steps"], obs, ret)
    s2 = sc.snap()
    sc.verify(s1, s2, {"value_function"}, {"value_function_optimizer"})
    gmax, dem = sc.must_change("value_function", s1, s2, g, case["opt"], case["lr"], not case["warm"])
    return _outcome(sc, case, [gmax], [f"steps={case['steps']}", "demanded" if dem else "not-demanded"], 2)


@st.composite
def reinforce_cases(draw):
    c = draw(_pg_base())
    c["baseline"] = draw(st.integers(0, 1))
    c["discount"] = draw(st.integers(0, 1))
    return c


def _reinforce_objective():
    def f(policy, vf, obs, act, ret, gd):
        # documented weights: R - v(o) (baseline, if any) times the per-step discount (if any)
        w = ret - (vf(obs).squeeze() if vf is not None else 0.0)
        if gd is not None:
            w = w * gd
        return _pseudo_loss()(obs, act, L.jax.lax.stop_gradient(w), policy)
    return f


def run_reinforce(case):
    from rl_blox.algorithm.reinforce import train_policy_reinforce

    sc = Scene("train_policy_reinforce")
    B, od, ps = case["B"], case["od"], case["pseed"]
    policy = sc.mod("policy", _pg_policy(case, _seed(ps, 1)))
    vf = _value_fn(case, _seed(ps, 2))
    sc.mod("value_function", vf)  # passed as baseline or just kept next to the policy
    sc.opt("value_function_optimizer", _optimizer(vf, "adam", 1e-2, 1, _seed(ps, 5)))
    opt = sc.opt("policy_optimizer", _opt_for(policy, case, ps))
    obs = sc.arr("observations", _obs(case, 1, (B, od)))
    act = sc.arr("actions", _pg_actions(case, 2, B))
    ret = sc.arr("returns", _f(gen.rng_array(_seed(case["dseed"], 3), (B,), 3.0)))
    gd = sc.arr("gamma_discount", _f(0.9 ** np.arange(B))) if case["discount"] else None
    baseline = vf if case["baseline"] else None
    s0 = sc.snap()
    g = _eval_grad("reinforce", _reinforce_objective, 0, policy, baseline, obs, act, ret, gd)
    s1 = sc.snap()
    sc.expect_unchanged(s0, s1, "loss_eval_changed")
    train_policy_reinforce(policy, opt, case["steps"], baseline, obs, act, ret, gd)
    s2 = sc.snap()
    sc.verify(s1, s2, {"policy"}, {"policy_optimizer"})
    gmax, dem = sc.must_change("policy", s1, s2, g, case["opt"], case["lr"], not case["warm"])
    return _outcome(sc, case, [gmax], [case["head"], "baseline" if case["baseline"] else "no-baseline",
                                       "discount" if case["discount"] else "no-discount",
                                       "demanded" if dem else "not-demanded"], 2)


@st.composite
def ac_cases(draw):
    c = draw(_pg_base())
    c["gamma"] = _tied(draw, c, [0.99, 0.0, 0.99, 0.99], st.sampled_from([0.0, 0.99]))
    return c


def _ac_objective():
    def f(policy, vf, obs, act, nobs, rew, gd, gamma):
        # documented weights: gamma^t (r + gamma v(o') - v(o))
        w = gd * (rew + gamma * vf(nobs).squeeze() - vf(obs).squeeze())
        return _pseudo_loss()(obs, act, L.jax.lax.stop_gradient(w), policy)
    return f


def run_actor_critic(case):
    from rl_blox.algorithm.actor_critic import train_policy_actor_critic

    sc = Scene("train_policy_actor_critic")
    B, od, ps = case["B"], case["od"], case["pseed"]
    policy = sc.mod("policy", _pg_policy(case, _seed(ps, 1)))
    vf = sc.mod("value_function", _value_fn(case, _seed(ps, 2)))
    sc.opt("value_function_optimizer", _optimizer(vf, "adam", 1e-2, 1, _seed(ps, 5)))
    opt = sc.opt("policy_optimizer", _opt_for(policy, case, ps))
    obs = sc.arr("observations", _obs(case, 1, (B, od)))
    act = sc.arr("actions", _pg_actions(case, 2, B))
    nobs = sc.arr("next_observations", _obs(case, 3, (B, od)))
    rew = sc.arr("rewards", _f(gen.rng_array(_seed(case["dseed"], 4), (B,), 1.0)))
    gd = sc.arr("gamma_discount", _f(0.9 ** np.arange(B)))
    gamma = case["gamma"]
    s0 = sc.snap()
    g = _eval_grad("ac", _ac_objective, 0, policy, vf, obs, act, nobs, rew, gd, gamma)
    s1 = sc.snap()
    sc.expect_unchanged(s0, s1, "loss_eval_changed")
    train_policy_actor_critic(policy, opt, case["steps"], vf, obs, act, nobs, rew, gd, gamma)
    s2 = sc.snap()
    sc.verify(s1, s2, {"policy"}, {"policy_optimizer"})
    gmax, dem = sc.must_change("policy", s1, s2, g, case["opt"], case["lr"], not case["warm"])
    return _outcome(sc, case, [gmax], [case["head"], "demanded" if dem else "not-demanded"], 2)


# ----------------------------------------------------------------------------
# PETS ensemble

@st.composite
def ensemble_cases(draw):
    c = draw(_base())
    c["n_ens"] = _tied(draw, c, [2, 3, 2, 2], st.sampled_from([2, 3, 5]))
    c["n"] = 6 if _quick() else draw(st.sampled_from([6, 9, 12]))
    c["bs"] = _tied(draw, c, [2, 3, 2, 2], st.sampled_from([2, 3]))
    c["n_batches"] = _tied(draw, c, [1, 2, 2, 1], st.sampled_from([1, 2, 3]))
    c["routine"] = draw(st.sampled_from(["train_epoch", "train_ensemble"]))
    c["n_epochs"] = draw(st.sampled_from([1, 2]))
    return c


def _ens_loss():
    from rl_blox.blox.probabilistic_ensemble import gaussian_ensemble_loss

    return gaussian_ensemble_loss


def run_ensemble(case):
    from rl_blox.blox import probabilistic_ensemble as pe

    jax = L.jax
    sc = Scene(case["routine"])
    od, ad, ps = case["od"], case["ad"], case["pseed"]
    nf, no = od + ad, od
    model = pe.GaussianMLPEnsemble(case["n_ens"], bool(case["shared"]), nf, no, list(case["hid"]), case["act"],
                                   L.nnx.Rngs(ps % 1000))
    _redraw(model, ps, min(case["pscale"], 0.6))
    sc.mod("model", model)
    opt = sc.opt("optimizer", _opt_for(model, case, ps))
    n = case["n"]
    Xn = gen.rng_array(_seed(case["dseed"], 1), (n, nf), 1.5)
    Yn = gen.rng_array(_seed(case["dseed"], 2), (n, no), 1.5)
    X, Y = sc.arr("X", _f(Xn)), sc.arr("Y", _f(Yn))
    cold = not case["warm"]
    if case["routine"] == "train_epoch":
        r = np.random.default_rng(_seed(case["dseed"], 3))
        idx_np = r.integers(0, n, (case["n_batches"], case["n_ens"], case["bs"]))
        idx = sc.arr("indices", _i(idx_np))
        Xb, Yb = _f(Xn[idx_np[0]]), _f(Yn[idx_np[0]])  # first mini-batch of every member
        cold = cold and case["n_batches"] == 1
    else:
        key = sc.arr("key", jax.random.key(case["dseed"] % 100003))
        # witness: full data for every member (the routine bootstraps its own mini-batches)
        Xb = _f(np.broadcast_to(Xn, (case["n_ens"],) + Xn.shape))
        Yb = _f(np.broadcast_to(Yn, (case["n_ens"],) + Yn.shape))
        cold = False
    s0 = sc.snap()
    g = _eval_grad("ens", _ens_loss, 0, model, Xb, Yb)
    s1 = sc.snap()
    sc.expect_unchanged(s0, s1, "loss_eval_changed")
    if case["routine"] == "train_epoch":
        pe.train_epoch(model, opt, X, Y, idx)
    else:
        pe.train_ensemble(model, opt, 1.0, X, Y, case["n_epochs"], case["bs"], key)
    s2 = sc.snap()
    sc.verify(s1, s2, {"model"}, {"optimizer"})
    gmax, dem = sc.must_change("model", s1, s2, g, case["opt"], case["lr"], cold)
    return _outcome(sc, case, [gmax], [case["routine"], "demanded" if dem else "not-demanded"], 2)


# ----------------------------------------------------------------------------
# pure evaluations: __call__, sample, log_probability, entropy, action samplers

_PURE_KINDS = ["det_policy", "gauss_tanh", "gauss", "softmax", "q_nets", "sale", "mrq_encoder", "ensemble",
               "samplers", "gradient_fns"]
_MT_KINDS = ("mt_q", "mt_encoder")  # sub-check pure_eval_mt (own process: keeps pure_eval's wall time)


@st.composite
def pure_cases(draw):
    c = draw(_base(cfgs=[1, 2]))
    c["kinds"] = sorted(draw(st.lists(st.sampled_from(_PURE_KINDS), min_size=5, max_size=len(_PURE_KINDS),
                                      unique=True)))
    c["single"] = draw(st.integers(0, 1))
    return c


@st.composite
def pure_mt_cases(draw):
    c = draw(_base(cfgs=[1, 2]))
    c["kinds"] = draw(st.sampled_from([["mt_encoder", "mt_q"], ["mt_encoder", "mt_q"], ["mt_q"], ["mt_encoder"]]))
    c["single"] = 0
    _mt_fields(draw, c)
    c["task2"] = draw(st.integers(0, c["n_tasks"] - 1))  # task chosen by the final select_task
    return c


def run_pure(case):
    labels, ok = [], True
    for kind in case["kinds"]:
        finite, n = _pure_kind(case, kind)
        labels += [kind] + ([] if finite else [f"nonfinite:{kind}"])
        ok = ok and finite and n >= 2
    if any(k in _MT_KINDS for k in case["kinds"]):
        above = sum(m > 1.0 for m in case["norms"] + case["norms_t"])
        labels += ["rows-above:online=" + ("0" if max(case["norms"]) <= 1.0 else "1+"),
                   "rows-above:target=" + ("0" if max(case["norms_t"]) <= 1.0 else "1+"),
                   "selected-row-" + ("above" if case["norms"][case["task"]] > 1.0 else "within"),
                   "select_task:" + ("same-task" if case["task2"] == case["task"] else "other-task")]
        ok = ok and above > 0
    return Outcome(labels=labels + [f"kinds={len(case['kinds'])}"], nontrivial=bool(ok))


def _check_select_task(sc, kind, mods, task2):
    """select_task is documented to select the task and to renormalise the task
    embedding to the maximum norm: it is not a pure evaluation, but it must not
    change anything except the task embedding of the module it is called on,
    must leave rows within the maximum norm untouched, and pure evaluations
    after it are pure again (callers pass eager calls)."""
    for name, (m, calls) in mods.items():
        s0 = sc.snap()
        emb0 = np.asarray(m._task_embedding.embedding.value, dtype=np.float32)
        m.select_task(task2)
        s1 = sc.snap()
        check(m.task_id == task2, f"pure_eval.select_task_not_selected.{kind}", f"task_id={m.task_id} after "
                                                                                 f"select_task({task2})")
        for n in s0:
            d = diff_states(s0[n], s1[n])
            if n == name:
                d = [p for p in d if "_task_embedding" not in p]
            check(not d, f"pure_eval.select_task_changed_other.{kind}.{n}",
                  lambda d=d, n=n: f"{name}.select_task({task2}) changed {n}: {d[:4]}")
        emb1 = np.asarray(m._task_embedding.embedding.value, dtype=np.float32)
        mx = np.float32(m.max_task_embedding_norm)
        n0 = np.sqrt(np.sum(emb0.astype(np.float64) ** 2, axis=1))
        n1 = np.sqrt(np.sum(emb1.astype(np.float64) ** 2, axis=1))
        within = n0 <= float(mx) * (1 - 1e-6)
        check(bool(np.all(emb0[within] == emb1[within])), f"pure_eval.select_task_changed_row_within_max.{kind}",
              lambda: f"norms before {n0}, after {n1}, max {mx}")
        check(bool(np.all(n1 <= float(mx) * (1 + 1e-5))), f"pure_eval.select_task_row_above_max.{kind}",
              lambda: f"norms before {n0}, after {n1}, max {mx}")
        for k, c in enumerate(calls):
            c()
            s2 = sc.snap()
            sc.expect_unchanged(s1, s2, f"changed_by_call_after_select_task{k}.{kind}")


def _pure_kind(case, kind):
    from rl_blox.blox.embedding.model_based_encoder import DeterministicPolicyWithEncoder
    from rl_blox.blox.embedding.sale import DeterministicSALEPolicy
    from rl_blox.blox.q_policy import greedy_policy

    jax, nnx, jnp = L.jax, L.nnx, L.jnp
    sc = Scene("pure_eval")
    B, od, ad, ps = case["B"], case["od"], case["ad"], case["pseed"]
    box = _box(case)
    obs = sc.arr("observation", _obs(case, 1, (B, od)))
    key = sc.arr("key", jax.random.key(case["dseed"] % 100003))
    outs = []

    def rec(x):
        outs.extend(np.asarray(leaf, dtype=np.float64).ravel() for leaf in jax.tree_util.tree_leaves(x))

    if kind == "det_policy":
        pol = sc.mod("policy", _det_policy(_mlp(od, ad, case["hid"], case["act"], _seed(ps, 1), case["pscale"]), box))
        q = sc.mod("q", _make_q_cont(case, _seed(ps, 2)))
        y = _obs(case, 7, (B, ad))
        calls = [lambda: pol(obs), lambda: pol(obs[0]), lambda: pol.scale_output(y),
                 lambda: q(jnp.concatenate((obs, pol(obs)), axis=-1))]
    elif kind in ("gauss_tanh", "gauss"):
        if kind == "gauss_tanh":
            pol = _sac_policy(case, _seed(ps, 1), box)
        else:
            pol = _pg_policy(dict(case, head="gaussian"), _seed(ps, 1))
        sc.mod("policy", pol)
        sc.opt("policy_optimizer", _optimizer(pol, "adam", 1e-2, 1, ps))
        act = sc.arr("action", _actions_in_box(case, 2, B, box))
        calls = [lambda: pol(obs), lambda: pol.sample(obs, key), lambda: pol.log_probability(obs, act),
                 lambda: pol.entropy(obs), lambda: pol.sample(obs[0], key)]
    elif kind == "softmax":
        pol = sc.mod("policy", _pg_policy(dict(case, head="softmax"), _seed(ps, 1)))
        vf = sc.mod("value_function", _value_fn(case, _seed(ps, 2)))
        act = sc.arr("action", _pg_actions(dict(case, head="softmax"), 2, B))
        calls = [lambda: pol(obs), lambda: pol.logits(obs), lambda: pol.sample(obs, key),
                 lambda: pol.log_probability(obs, act), lambda: pol.entropy(obs), lambda: vf(obs)]
    elif kind == "q_nets":
        qd = sc.mod("q_discrete", _mlp(od, case["na"], case["hid"], case["act"], _seed(ps, 1), case["pscale"]))
        qc = sc.mod("q_double", _make_q_cont(dict(case, double=1), _seed(ps, 2)))
        act = sc.arr("action", _actions_in_box(case, 2, B, box))
        oa = jnp.concatenate((obs, act), axis=-1)
        calls = [lambda: qd(obs), lambda: greedy_policy(qd, obs[0]), lambda: greedy_policy(qd, np.asarray(obs[0])),
                 lambda: qc(oa), lambda: qc.mean(oa), lambda: qc.q1(oa)]
    elif kind == "sale":
        emb = sc.mod("embedding", _sale(case, _seed(ps, 1)))
        actor = sc.mod("actor", _actor_sale(case, _seed(ps, 2), box))
        critic = sc.mod("critic", _critic_sale(case, _seed(ps, 3)))
        pol = DeterministicSALEPolicy(emb, actor)
        act = sc.arr("action", _actions_in_box(case, 2, B, box))
        oa = jnp.concatenate((obs, act), axis=-1)

        def q_eval():
            zsa, zs = emb(obs, act)
            return critic(oa, zsa=zsa, zs=zs), critic.mean(oa, zsa=zsa, zs=zs)
        calls = [lambda: emb(obs, act), lambda: emb.state_embedding(obs), lambda: pol(obs), q_eval,
                 lambda: actor(obs, emb.state_embedding(obs))]
    elif kind == "mrq_encoder":
        enc = sc.mod("encoder", _encoder(case, _seed(ps, 1)))
        pnet = _det_policy(_lnmlp(case["zs"], ad, case["hid"], case["act"], _seed(ps, 2), case["pscale"]), box)
        sc.mod("policy", pnet)
        pwe = DeterministicPolicyWithEncoder(enc, pnet)
        act = sc.arr("action", _actions_in_box(case, 2, B, box))
        calls = [lambda: enc.encode_zs(obs), lambda: enc.encode_zsa(enc.encode_zs(obs), act),
                 lambda: enc.model_head(enc.encode_zs(obs), act), lambda: pwe(obs)]
    elif kind == "mt_q":
        # multi-task Q network and its target (examples/smt_discrete_example.py): forward pass, greedy action
        qm = sc.mod("q", _mt_q(case, _seed(ps, 1), case["norms"], case["task"]))
        qm_t = sc.mod("q_target", _mt_q(case, _seed(ps, 2), case["norms_t"], case["task_t"]))
        sc.opt("optimizer", _optimizer(qm, "adam", 1e-2, 1, ps))
        # (a single 1-D observation with task_embedding_dim = 1 is rejected by concatenate_embedding with a
        # TypeError -- loud, and not this property's subject: those calls get a one-row batch instead)
        one = obs[0] if case["ted"] > 1 else obs[:1]
        calls = [lambda: qm(obs), lambda: qm(one), lambda: qm_t(obs), lambda: qm.task_embedding(obs),
                 lambda: greedy_policy(qm, obs[0]), lambda: greedy_policy(qm, np.asarray(obs[0])),
                 lambda: greedy_policy(qm_t, obs[0])]
        select = {"q": (qm, [lambda: qm(obs), lambda: qm_t(obs)]), "q_target": (qm_t, [lambda: qm_t(one)])}
    elif kind == "mt_encoder":
        # multi-task MR.Q networks (create_mt_mrq_state): encoder, policy on zs, double Q on zsa
        ted = case["ted"]
        enc = sc.mod("encoder", _mt_encoder(case, _seed(ps, 1), case["norms"], case["task"]))
        enc_t = sc.mod("encoder_target", _mt_encoder(case, _seed(ps, 2), case["norms_t"], case["task_t"]))
        pnet = sc.mod("policy", _det_policy(_lnmlp(case["zs"] + ted, ad, case["hid"], case["act"], _seed(ps, 3),
                                                   case["pscale"]), box))
        qz = sc.mod("q", _double_q(lambda s_: _lnmlp(case["zsa"] + ted, 1, case["hid"], "elu", s_, case["pscale"]),
                                   _seed(ps, 4)))
        sc.opt("encoder_optimizer", _optimizer(enc, "adamw", 1e-2, 1, ps))
        pwe = DeterministicPolicyWithEncoder(enc, pnet)
        pwe_t = DeterministicPolicyWithEncoder(enc_t, pnet)
        act = sc.arr("action", _actions_in_box(case, 2, B, box))
        one = obs[0] if ted > 1 else obs[:1]
        calls = [lambda: enc.encode_zs(obs), lambda: enc.encode_zsa(enc.encode_zs(obs), act),
                 lambda: enc.model_head(enc.encode_zs(obs), act), lambda: pwe(obs), lambda: pwe(one),
                 lambda: pwe_t(obs), lambda: qz(enc_t.encode_zsa(enc_t.encode_zs(obs), act)),
                 lambda: enc.task_embedding(act)]
        select = {"encoder": (enc, [lambda: pwe(obs), lambda: enc_t.encode_zs(obs)]),
                  "encoder_target": (enc_t, [lambda: pwe_t(one)])}
    elif kind == "ensemble":
        from rl_blox.blox import probabilistic_ensemble as pe

        model = pe.GaussianMLPEnsemble(2, bool(case["shared"]), od, 2, list(case["hid"]), case["act"],
                                       nnx.Rngs(ps % 1000))
        sc.mod("model", _redraw(model, ps, 0.5))
        sc.opt("optimizer", _optimizer(model, "adamw", 1e-2, 1, ps))
        calls = [lambda: model(obs), lambda: model.aggregate(obs),
                 lambda: model(jnp.broadcast_to(obs, (2,) + obs.shape)), lambda: model.base_predict(obs, 1)]
    elif kind == "gradient_fns":
        from rl_blox.algorithm.a2c import a2c_policy_gradient
        from rl_blox.algorithm.actor_critic import actor_critic_policy_gradient
        from rl_blox.algorithm.reinforce import reinforce_gradient

        hc = dict(case, head="softmax" if case["single"] else "gaussian")
        pol = sc.mod("policy", _pg_policy(hc, _seed(ps, 1)))
        vf = sc.mod("value_function", _value_fn(case, _seed(ps, 2)))
        sc.opt("policy_optimizer", _optimizer(pol, "adam", 1e-2, 1, ps))
        act = sc.arr("action", _pg_actions(hc, 2, B))
        nobs = sc.arr("next_observation", _obs(case, 3, (B, od)))
        ret = sc.arr("returns", _f(gen.rng_array(_seed(case["dseed"], 4), (B,), 2.0)))
        gd = sc.arr("gamma_discount", _f(0.9 ** np.arange(B)))
        calls = [lambda: reinforce_gradient(pol, vf, obs, act, ret, gd),
                 lambda: reinforce_gradient(pol, None, obs, act, ret, None),
                 lambda: actor_critic_policy_gradient(pol, vf, obs, act, nobs, ret, gd, 0.99),
                 lambda: a2c_policy_gradient(pol, obs, act, ret)]
    else:  # samplers
        pol = sc.mod("policy", _det_policy(_mlp(od, ad, case["hid"], case["act"], _seed(ps, 1), case["pscale"]), box))
        spol = sc.mod("stochastic_policy", _sac_policy(case, _seed(ps, 2), box))
        sc.opt("policy_optimizer", _optimizer(pol, "adam", 1e-2, 1, ps))
        sample = _sampler("explore", case)
        sample_t = _sampler("target", case)
        jit_sample = _jit("sac_sample", lambda: (lambda p, o, k: p.sample(o, k)))  # as train_sac wraps it
        o1 = obs[0] if case["single"] else obs
        calls = [lambda: sample(pol, o1, key), lambda: sample_t(pol, obs, key), lambda: jit_sample(spol, o1, key),
                 lambda: sample(pol, o1, key)]
    s0 = sc.snap()
    for k, c in enumerate(calls):
        rec(c())
        s1 = sc.snap()
        sc.expect_unchanged(s0, s1, f"changed_by_call{k}.{kind}")
    if kind in _MT_KINDS:
        _check_select_task(sc, kind, select, case["task2"])
    finite = all(np.all(np.isfinite(o)) for o in outs) and len(outs) > 0
    return finite, sc.n_components()


# ----------------------------------------------------------------------------
# history level: isolation on the state a training routine creates / returns
#
# The function-level sub-checks build their own, separate modules, so they
# cannot see aliasing that a training routine creates itself (targets, fixed
# encoders and checkpoints are cloned inside train_*).  Here a short training
# run is executed on a scripted environment (vlib.routines), then
# (a) the components the routine returns / logs under different role names
#     must not share nnx.Variable objects, and
# (b) every update routine of the algorithm is applied once to the RETURNED
#     state with a batch from the returned buffer and must satisfy the same
#     isolation clause (everything but the documented-to-train component is
#     byte-identical).

_HIST_ROUTINES = ["td7", "td7", "td7", "td3", "ddpg", "sac", "mrq", "nature_dqn", "ddqn", "td3_lap"]


@st.composite
def history_cases(draw):
    r = draw(st.sampled_from(_HIST_ROUTINES))
    n_eps = draw(st.integers(2, 4))
    script = [[draw(st.integers(1, 8)), draw(st.sampled_from(["term", "trunc"]))] for _ in range(n_eps)]
    c = {"routine": r, "script": script, "script_seed": draw(st.integers(0, 999)),
         "total_timesteps": draw(st.sampled_from([20, 30, 40])),
         "learning_starts": draw(st.sampled_from([2, 5, 8])), "batch_size": 2,
         "seed": draw(st.integers(0, 99)), "net_seed": draw(st.integers(0, 99)), "dseed": draw(gen.seeds())}
    if r == "td7":
        c["target_delay"] = draw(st.sampled_from([1, 1, 2, 3]))  # boundary: hard copies at every epoch
        c["policy_delay"] = draw(st.sampled_from([1, 2]))
        c["use_checkpoints"] = draw(st.sampled_from([0, 0, 1]))
    elif r in ("td3", "td3_lap"):
        c["policy_delay"] = draw(st.sampled_from([1, 2]))
    elif r == "sac":
        c["autotune"] = draw(st.integers(0, 1))
    elif r == "mrq":
        c["target_delay"] = draw(st.sampled_from([1, 2, 3]))
        c["learning_starts"] = draw(st.sampled_from([4, 6, 8]))
        c["script"][0][0] = max(4, c["script"][0][0])  # a first subtrajectory must exist when learning starts
    elif r in ("nature_dqn", "ddqn"):
        c["target_update_frequency"] = draw(st.sampled_from([1, 3, 7]))
        c["update_frequency"] = draw(st.sampled_from([1, 2]))
    return c


def _simplify_history(case):
    for k, v in (("use_checkpoints", 0), ("total_timesteps", 20), ("policy_delay", 1), ("autotune", 0),
                 ("update_frequency", 1)):
        if k in case and case[k] != v:
            yield dict(case, **{k: v})
    if len(case["script"]) > 1:
        yield dict(case, script=case["script"][:-1])


def _roles(run, logger):
    """{source: {role name: module}} for the passed-in state, the returned
    result and the modules shown to the logger."""
    nnx = L.nnx
    out = {"passed": {}, "result": {}, "logged": {}}
    for k, v in run.state.items():
        if isinstance(v, (nnx.Module, nnx.Optimizer)):
            out["passed"][k] = v
    res = run.result
    for f in getattr(res, "_fields", ()):
        v = getattr(res, f)
        if isinstance(v, (nnx.Module, nnx.Optimizer)):
            out["result"][f] = v
    for k, v in logger.modules.items():
        if isinstance(v, nnx.Module):
            out["logged"][k] = v
    ec = getattr(res, "entropy_control", None)
    if ec is not None and getattr(ec, "autotune", False):
        out["result"]["entropy_control._alpha"] = ec._alpha
        out["result"]["entropy_control.optimizer"] = ec.optimizer
    return out


def _split_mrq(roles):
    """MR.Q's update routines take encoder and policy of the combined module
    separately: register them as separate roles."""
    for src in roles.values():
        for k in [k for k in src if k.startswith("policy_with_encoder")]:
            m = src.pop(k)
            src[k + ".encoder"] = m.encoder
            src[k + ".policy"] = m.policy


def run_history(case):
    from vlib.instruments import make_snapshot_logger
    from vlib.routines import make_env, run_routine

    jax, nnx = L.jax, L.nnx
    r = case["routine"]
    env, _ = make_env(r, {"script": case["script"], "script_seed": case["script_seed"], "obs_dim": 3,
                          "n_actions": 3, "act_low": [-1.0, -0.5], "act_high": [1.0, 2.0]})
    cfg = {k: case[k] for k in ("total_timesteps", "learning_starts", "batch_size", "seed", "net_seed")}
    cfg.update({"buffer_size": 64, "hidden": [4], "lr": 1e-2, "gamma": 0.99})
    for k in ("target_delay", "policy_delay", "target_update_frequency", "update_frequency"):
        if k in case:
            cfg[k] = case[k]
    if "use_checkpoints" in case:
        cfg.update(use_checkpoints=bool(case["use_checkpoints"]), steps_before_checkpointing=10,
                   max_episodes_when_checkpointing=2)
    if "autotune" in case:
        cfg["autotune"] = bool(case["autotune"])
    if r == "mrq":
        cfg.update(encoder_horizon=2, q_horizon=1)
    logger = make_snapshot_logger(snapshot=False)
    run = run_routine(r, env, cfg, logger=logger, capture=False)
    res = run.result
    roles = _roles(run, logger)
    if r == "mrq":
        _split_mrq(roles)

    # (a) components with different role names never share variables
    n_pairs = 0
    for src, d in roles.items():
        mods = [(k, v) for k, v in d.items() if isinstance(v, nnx.Module)]
        for i in range(len(mods)):
            for j in range(i + 1, len(mods)):
                (n1, m1), (n2, m2) = mods[i], mods[j]
                n_pairs += 1
                check(m1 is not m2 and not shares_storage(m1, m2), f"history_{r}.aliasing.{src}.{n1}~{n2}",
                      lambda: f"after train_{r} the {src} components {n1} and {n2} share nnx.Variable objects "
                              f"(same object: {m1 is m2})")

    # (b) update routines applied to the returned state
    sc = Scene(f"history_{r}")
    names = {}
    for src in ("result", "passed", "logged"):
        for k, v in roles[src].items():
            name = k if src == "result" else f"{src}.{k}"
            if src != "result" and id(v) in names:
                continue  # the same object under the same role in another source
            names.setdefault(id(v), name)
            (sc.mod if isinstance(v, nnx.Module) else sc.opt)(name, v)

    def nm(obj):
        return names[id(obj)]

    buf = run.buffer
    real = getattr(buf, "real", buf)
    for k, a in real.buffer.items():
        sc.arr("replay_buffer." + k, a)
    rng = np.random.default_rng(case["dseed"])
    key = sc.arr("key", jax.random.PRNGKey(case["dseed"] % 100003))
    B = case["batch_size"]
    gamma = 0.99
    updates = []  # (label, call, trained modules, trained optimizers)
    if r == "td7":
        from rl_blox.algorithm.td7 import td7_update_actor, td7_update_critic
        from rl_blox.blox.embedding.sale import DeterministicSALEPolicy, update_sale

        b = real.sample_batch(B, rng)
        live_actor = run.state["actor"]
        updates = [
            ("update_sale", lambda: update_sale(res.embedding, res.embedding_optimizer, b.observation, b.action,
                                                b.next_observation),
             {nm(res.embedding)}, {nm(res.embedding_optimizer)}),
            ("td7_update_critic", lambda: td7_update_critic(
                res.fixed_embedding, res.fixed_embedding_target, res.critic, res.critic_target,
                res.critic_optimizer, gamma, b.observation, b.action, b.next_observation, b.action, b.reward,
                b.termination, 1.0, -10.0, 10.0), {nm(res.critic)}, {nm(res.critic_optimizer)}),
            ("td7_update_actor", lambda: td7_update_actor(
                DeterministicSALEPolicy(res.fixed_embedding, live_actor), res.actor_optimizer, res.critic,
                b.observation), {nm(live_actor)}, {nm(res.actor_optimizer)}),
        ]
    elif r in ("ddpg", "td3", "td3_lap"):
        from rl_blox.algorithm.ddpg import ddpg_update_actor

        b = real.sample_batch(B, rng)
        if r == "ddpg":
            step = _tsl_jit("ddpg_loss")[1]
            crit = lambda: step(res.q_optimizer, res.q, res.q_target, res.policy_target, b, gamma)  # noqa: E731
        elif r == "td3":
            step = _tsl_jit("td3_loss")[1]
            crit = lambda: step(res.q_optimizer, res.q, res.q_target, b.action, b, gamma)  # noqa: E731
        else:
            step = _tsl_jit("td3_lap_loss")[1]
            crit = lambda: step(res.q_optimizer, res.q, res.q_target, b.action, b, gamma, 1.0)  # noqa: E731
        updates = [
            ("train_step", crit, {nm(res.q)}, {nm(res.q_optimizer)}),
            ("ddpg_update_actor", lambda: ddpg_update_actor(res.policy, res.policy_optimizer, res.q, b.observation),
             {nm(res.policy)}, {nm(res.policy_optimizer)}),
        ]
    elif r == "sac":
        from rl_blox.algorithm.sac import sac_update_actor

        b = real.sample_batch(B, rng)
        ec = res.entropy_control
        step = _tsl_jit("sac_loss")[1]
        updates = [
            ("train_step", lambda: step(res.q_optimizer, res.q, res.q_target, res.policy, key, ec.alpha_, b, gamma),
             {nm(res.q)}, {nm(res.q_optimizer)}),
            ("sac_update_actor", lambda: sac_update_actor(res.policy, res.policy_optimizer, res.q, key,
                                                          b.observation, ec.alpha_),
             {nm(res.policy)}, {nm(res.policy_optimizer)}),
        ]
        if ec.autotune:
            updates.append(("entropy_update", lambda: ec.update(res.policy, b.observation, key),
                            {nm(ec._alpha)}, {nm(ec.optimizer)}))
    elif r == "mrq":
        from rl_blox.algorithm.mrq import update_critic_and_policy
        from rl_blox.blox.embedding.model_based_encoder import update_model_based_encoder

        pwe, pwe_t = res.policy_with_encoder, res.policy_with_encoder_target
        b1 = real.sample_batch(B, 1, False, rng)
        b2 = real.sample_batch(B, 2, True, rng)
        bins = sc.arr("the_bins", run.state["the_bins"])
        updates = [
            ("update_critic_and_policy", lambda: update_critic_and_policy(
                res.q, res.q_target, res.q_optimizer, pwe.policy, res.policy_optimizer, pwe.encoder, pwe_t.encoder,
                gamma, 1e-5, b1.action, b1, 1.0, 1.0), {nm(res.q), nm(pwe.policy)},
             {nm(res.q_optimizer), nm(res.policy_optimizer)}),
            ("update_model_based_encoder", lambda: update_model_based_encoder(
                pwe.encoder, pwe_t.encoder, res.encoder_optimizer, bins, 2, 1.0, 0.1, 0.1, 1, B, True, b2,
                bool(real.environment_terminates)), {nm(pwe.encoder)}, {nm(res.encoder_optimizer)}),
        ]
    else:  # nature_dqn, ddqn
        b = real.sample_batch(B, rng)
        step = _tsl_jit(r + "_loss")[1]
        updates = [("train_step", lambda: step(res.optimizer, res.q_net, res.q_target_net, b, gamma),
                    {nm(res.q_net)}, {nm(res.optimizer)})]

    labels, n_changed = [r], 0
    for label, call, tm, to in updates:
        sc.sub = f"history_{r}_{label}"
        s1 = sc.snap()
        call()
        s2 = sc.snap()
        sc.verify(s1, s2, tm, to)
        changed = all(bool(diff_states(s1[n], s2[n])) for n in tm)
        n_changed += changed
        labels.append(f"{label}:{'changed' if changed else 'unchanged'}")
    for k in ("target_delay", "use_checkpoints", "policy_delay", "autotune"):
        if k in case:
            labels.append(f"{r}:{k}={case[k]}")
    n_other = sc.n_components() - 2
    return Outcome(labels=labels + [f"role-pairs={'10+' if n_pairs >= 10 else n_pairs}"],
                   nontrivial=bool(n_changed == len(updates) and n_other >= 2 and n_pairs >= 1))


# ----------------------------------------------------------------------------

_TSL_NAMES = ["dqn_loss", "nature_dqn_loss", "ddqn_loss", "ddqn_per_loss", "ddpg_loss", "td3_loss", "td3_lap_loss",
              "sac_loss"]

_NT = "gradient of the trained component non-zero and >= 2 non-trained components snapshotted"
_NT_MT = _NT + " and >= 1 task-embedding row of a multi-task network in the call above the maximum norm"


def _simplify(case):
    """Greedy minimiser candidates: plainer options (shapes stay inside the
    configuration so that the case remains well-formed)."""
    for k, v in (("warm", 0), ("steps", 1), ("epochs", 1), ("opt", "sgd"), ("opt2", "sgd"), ("opt_c", "sgd"),
                 ("opt_a", "sgd"), ("pscale", 0.3), ("mode", "eager"), ("gamma", 0.0), ("n_epochs", 1),
                 ("baseline", 0), ("discount", 0), ("env_term", 0)):
        if k in case and case[k] != v:
            c = dict(case)
            c[k] = v
            if k in ("opt", "opt2") and _quick():
                c["lr" if k == "opt" else "lr2"] = _QUICK_LR[v]
            yield c
    if "term" in case and any(case["term"]):
        c = dict(case)
        c["term"] = [0] * len(case["term"])
        yield c
    for key in ("norms", "norms_t"):
        for i, m in enumerate(case.get(key, [])):
            if m != 0.5:
                c = dict(case)
                c[key] = [0.5 if j == i else x for j, x in enumerate(case[key])]
                yield c
    if len(case.get("kinds", [])) > 1:
        for k in case["kinds"]:
            c = dict(case)
            c["kinds"] = [x for x in case["kinds"] if x != k]
            yield c


def _sc(name, strat, run, quick=40, thorough=300, cost=1.0, rule=None):
    return SubCheck(name, strat, run, quick=quick, thorough=thorough, shards=1, shards_thorough=4, cost=cost,
                    shrink=False, suppress_too_slow=True, simplify=_simplify, rule=rule or _NT)


SUBCHECKS = (
    [_sc("tsl_" + n[:-5], _tsl_cases(n), _tsl_run(n)) for n in _TSL_NAMES]
    + [
        _sc("ddpg_update_actor", ddpg_actor_cases, run_ddpg_actor),
        _sc("sac_update_actor", sac_actor_cases, run_sac_actor),
        _sc("entropy_update", entropy_cases, run_entropy),
        _sc("update_sale", sale_cases, run_update_sale),
        _sc("td7_update_critic", td7_critic_cases, run_td7_critic, cost=1.5),
        _sc("td7_update_actor", td7_actor_cases, run_td7_actor, cost=1.5),
        _sc("td7_train_step", td7_step_cases, run_td7_step, cost=3.0),
        _sc("update_critic_and_policy", mrq_cases, run_mrq, quick=30, cost=3.0),
        _sc("update_model_based_encoder", encoder_cases, run_encoder, quick=30, cost=3.0),
        _sc("tsl_multitask", tsl_mt_cases, run_tsl_mt, quick=24, cost=1.5, rule=_NT_MT),
        _sc("update_critic_and_policy_mt", mrq_mt_cases, run_mrq, quick=20, cost=3.0, rule=_NT_MT),
        _sc("update_model_based_encoder_mt", encoder_mt_cases, run_encoder, quick=16, cost=2.5, rule=_NT_MT),
        _sc("update_ppo", ppo_cases, run_ppo, quick=30, cost=2.0),
        _sc("train_policy_a2c", a2c_cases, run_a2c_policy),
        _sc("train_value_function", value_cases, run_value_function),
        _sc("train_policy_reinforce", reinforce_cases, run_reinforce),
        _sc("train_policy_actor_critic", ac_cases, run_actor_critic),
        _sc("ensemble", ensemble_cases, run_ensemble, quick=30, cost=3.0),
        SubCheck("pure_eval", pure_cases, run_pure, quick=30, thorough=200, shards=1, shards_thorough=4, cost=2.0,
                 shrink=False, suppress_too_slow=True, simplify=_simplify,
                 rule=">= 2 components snapshotted and finite outputs"),
        SubCheck("pure_eval_mt", pure_mt_cases, run_pure, quick=20, thorough=150, shards=1, shards_thorough=4,
                 cost=1.5, shrink=False, suppress_too_slow=True, simplify=_simplify,
                 rule=">= 2 components snapshotted, finite outputs and >= 1 task-embedding row above the maximum norm"),
        SubCheck("history", history_cases, run_history, quick=32, thorough=150, shards=2, shards_thorough=8, cost=6.0,
                 shrink=False, suppress_too_slow=True, simplify=_simplify_history,
                 rule="every applied update changed its trained component, >= 2 other components and >= 1 pair "
                      "of returned roles compared for shared variables"),
    ]
)
