"""C09 Training is a deterministic function of seed, initial state and environment.

Differential oracle: two runs (A, B) of the same routine from freshly
constructed, identically seeded objects must produce bit-identical learned
parameters, optimizer states, stored experience, returned counters and logged
statistics (wall-clock fields aside).  Before run B every *unseeded* source is
perturbed: ``np.random.seed``, ``random.seed``, ``time.time`` shifted; the
cross-process sub-check additionally varies ``PYTHONHASHSEED`` (iteration order
of unordered containers).  A third run C with a different seed must differ
somewhere, otherwise the comparison is vacuous and the case counts as trivial.

Cases reuse the history builders of C01 (same routines, scripts, configs) with
probe networks switched off, so that learning (parameter updates, buffer
sampling) actually happens.  DESIGN.md §5 C09.
"""
from __future__ import annotations

import hashlib
import json
import os
import random
import subprocess
import sys
import time

import numpy as np

from vlib import gen
from vlib import routines as R
from vlib.core import HarnessError, Outcome, SubCheck, check

PROPERTY = "C09"
RULE = (
    "A case is (routine, episode script(s), config, seed) expanded from a drawn integer by the C01 history "
    "builders with probe networks off (real networks, Adam, exploration on). Each case is executed twice from "
    "freshly built identical objects (run B after re-seeding numpy's and Python's global generators with "
    "different values and shifting time.time by hours) and once more with seed+1. Non-trivial = run A performed "
    "at least one parameter update (some parameter differs from its initial value) and, for buffer-based "
    "routines, at least one batch was sampled, and the seed+1 run differs from run A in at least one compared "
    "digest. Distinct = distinct (routine, script, config)."
)
ASSUMPTIONS = [
    "between the two compared runs other parts of the library are used (buffers of every class with "
    "discrete actions, a schedule): process-level state left behind by them must not matter",
    "uninitialised memory is perturbed by filling freed heap blocks with run-specific values before each run "
    "(np.empty then returns them); a dependence on memory that the allocator does not recycle is out of reach",
    "bitwise comparison of nnx.state of every module / optimizer passed in or returned, replay-buffer arrays, "
    "returned integers/arrays and MemoryLogger values with their (episode, step) locations; wall-clock 't' excluded",
    "single-threaded XLA on CPU (the library's default float32 regime); dependence on thread scheduling inside "
    "XLA is out of reach",
    "PYTHONHASHSEED is varied only in the cross_process sub-check (two fresh interpreters per case)",
]

QUICK = gen.tier() == "quick"


# ---------------------------------------------------------------------------
# digests

def _h(b: bytes) -> str:
    return hashlib.sha1(b).hexdigest()[:16]


def _arr_digest(x) -> str:
    a = np.asarray(x)
    return f"{a.dtype}{a.shape}:{_h(a.tobytes())}"


def _digest_obj(name, obj, out, depth=0):
    """Flatten everything comparable reachable from ``obj`` into out[name...] = digest."""
    from flax import nnx

    from vlib.instruments import BufferProxy, state_bytes

    if obj is None or depth > 4:
        return
    if isinstance(obj, BufferProxy):
        obj = obj.real
    if isinstance(obj, (nnx.Module, nnx.Optimizer)):
        for k, (dt, sh, b) in state_bytes(obj).items():
            out[f"{name}{k}"] = f"{dt}{sh}:{_h(b)}"
        return
    if hasattr(obj, "buffers") and isinstance(getattr(obj, "buffers"), list):  # MultiTaskReplayBuffer
        for i, b in enumerate(obj.buffers):
            _digest_obj(f"{name}.buffers[{i}]", b, out, depth + 1)
        return
    if hasattr(obj, "buffer") and hasattr(obj, "current_len"):  # replay buffers
        n = int(obj.current_len)
        out[f"{name}.len"] = str(n)
        out[f"{name}.insert_idx"] = str(int(obj.insert_idx))
        for k, v in obj.buffer.items():
            out[f"{name}.{k}"] = _arr_digest(np.asarray(v)[:n] if np.asarray(v).ndim else v)
        pr = getattr(obj, "priority", None)
        if pr is not None:
            out[f"{name}.priority"] = _arr_digest(np.asarray(pr.priority)[:n])
            out[f"{name}.max_priority"] = repr(float(pr.max_priority))
        if hasattr(obj, "mask_"):
            out[f"{name}.mask_"] = _arr_digest(obj.mask_)
        return
    if isinstance(obj, (bool, int, float, str, np.integer, np.floating)):
        out[name] = repr(obj if not isinstance(obj, (np.integer, np.floating)) else obj.item())
        return
    if hasattr(obj, "dtype") and hasattr(obj, "shape"):
        try:
            import jax

            if jax.dtypes.issubdtype(obj.dtype, jax.dtypes.prng_key):
                obj = jax.random.key_data(obj)
        except Exception:  # noqa: BLE001
            pass
        out[name] = _arr_digest(obj)
        return
    if isinstance(obj, dict):
        for k in sorted(obj, key=str):
            _digest_obj(f"{name}[{k}]", obj[k], out, depth + 1)
        return
    if hasattr(obj, "_fields"):  # namedtuple
        for k in obj._fields:
            _digest_obj(f"{name}.{k}", getattr(obj, k), out, depth + 1)
        return
    if isinstance(obj, (list, tuple)):
        for i, v in enumerate(obj):
            _digest_obj(f"{name}[{i}]", v, out, depth + 1)
        return
    if hasattr(obj, "__dataclass_fields__"):
        for k in obj.__dataclass_fields__:
            _digest_obj(f"{name}.{k}", getattr(obj, k), out, depth + 1)
        return
    # anything else (callables, configs without state, envs): not part of the comparison


def _digest_logger(lg, out):
    if lg is None:
        return
    for key in sorted(lg.stats):
        vals = lg.stats[key]
        locs = lg.stats_loc[key]
        out[f"log[{key}].n"] = str(len(vals))
        out[f"log[{key}].values"] = _h(b"|".join(np.asarray(v).tobytes() for v in vals))
        out[f"log[{key}].loc"] = _h(repr([(e, s) for e, s, _t in locs]).encode())
    out["log.n_episodes"] = str(lg.n_episodes)
    out["log.n_steps"] = str(lg.n_steps)


def _log_digest(log, out, prefix="envlog"):
    """The environment's own record of the run (actions received are a function of the learner)."""
    if log is None:
        return
    acts = [np.asarray(e["action"]).tobytes() for e in log.events if e["kind"] == "step"]
    out[f"{prefix}.n_steps"] = str(len(acts))
    out[f"{prefix}.actions"] = _h(b"|".join(acts))


# ---------------------------------------------------------------------------
# one run

def _family(name):
    if name in R.OFF_POLICY:
        return "offpolicy"
    if name in R.EPISODIC_ON_POLICY:
        return "episodic"
    if name in ("a2c", "ppo"):
        return "vector"
    if name in R.TABULAR:
        return "tabular"
    if name == "cmaes":
        return "cmaes"
    raise HarnessError(name)


def execute(case, seed_shift=0):
    """Build everything fresh, run, return (digest dict, info dict)."""
    from rl_blox.logging.logger import MemoryLogger

    name = case["routine"]
    fam = _family(name)
    cfg = dict(case["cfg"])
    cfg["probe"] = False
    cfg["seed"] = int(cfg.get("seed", 0)) + seed_shift
    logger = MemoryLogger() if case.get("logger", True) else None
    out, info = {}, {}
    if fam == "vector":
        envs, sublog, subs = R.make_vector_env(case["env"], "next_step" if name == "a2c" else "same_step")
        try:
            state = R.build_state(name, envs, cfg)
            init = _params(state)
            run = R.run_routine(name, envs, cfg, logger=logger, state=state, capture=False)
        finally:
            envs.close()
        _log_digest(sublog, out)
    elif fam == "cmaes":
        run, state, init = _run_cmaes(case, cfg, logger, out)
    else:
        env, space = R.make_env(name, case["env"])
        state = R.build_state(name, env, cfg)
        init = _params(state)
        run = R.run_routine(name, env, cfg, logger=logger, state=state, capture=False)
        _log_digest(run.log, out)
    if fam != "cmaes":
        _digest_obj("state", {k: v for k, v in run.state.items()}, out)
        _digest_obj("result", run.result, out)
        if run.buffer is not None:
            _digest_obj("buffer", run.buffer, out)
            info["samples"] = len(run.buffer.samples) if hasattr(run.buffer, "samples") else None
    _digest_logger(logger, out)
    info["updated"] = _params(state) != init
    if fam == "pets" or name == "pets":
        # the trained ensemble is returned inside the result (mpc_state), compare it with the initial one
        res = {}
        _digest_obj("r", getattr(run.result, "mpc_state", None) and run.result.mpc_state.dynamics_model, res)
        info["updated"] = info["updated"] or not set(res.values()) <= set(init.values())
    if fam == "tabular":
        # functional updates: the learned tables are in the result, the state keeps the initial ones
        res = {}
        _digest_obj("r", run.result, res)
        ini = {}
        _digest_obj("r", [v for v in run.state.values() if hasattr(v, "shape")], ini)
        info["updated"] = not set(v for k, v in res.items() if "float" in v) <= set(ini.values())
    return out, info


def _params(state):
    out = {}
    _digest_obj("s", dict(state), out)
    return out


def _run_cmaes(case, cfg, logger, out):
    from flax import nnx

    from rl_blox.algorithm.cmaes import train_cmaes
    from rl_blox.blox.function_approximator.mlp import MLP
    from rl_blox.blox.function_approximator.policy_head import DeterministicTanhPolicy

    env, space = R.make_env("ddpg", case["env"])
    od = env.observation_space.shape[0]
    net = MLP(od, env.action_space.shape[0], list(cfg.get("hidden", [3])), "relu", nnx.Rngs(int(cfg.get("net_seed", 0))))
    policy = DeterministicTanhPolicy(net, env.action_space)
    state = {"policy": policy}
    init = _params(state)
    res = train_cmaes(env, policy, total_episodes=int(cfg["total_episodes"]), seed=int(cfg["seed"]),
                      variance=float(cfg.get("variance", 0.5)),
                      n_samples_per_update=cfg.get("n_samples_per_update"), active=bool(cfg.get("active", False)),
                      logger=logger, progress_bar=False)
    _log_digest(env.log, out)
    _digest_obj("state", state, out)
    _digest_obj("result", tuple(res), out)

    class _Run:
        buffer = None
    return _Run(), state, init


# ---------------------------------------------------------------------------
# perturbation of unseeded sources

def _poison_heap(k):
    """Fill recently freed heap blocks with a run-specific value: memory handed out by np.empty
    afterwards contains it, so a result that depends on uninitialised memory differs between runs."""
    value = [3.0e2, 7.0e5, 1.1e9, 5.0e-3][k % 4]
    junk = []
    # numpy keeps freed blocks below 1 KiB in per-size caches (16-byte buckets, a few entries each):
    # cover every bucket; larger requests go to malloc, cover them with a geometric ladder
    sizes = list(range(2, 132, 2)) + [int(140 * 1.25 ** i) for i in range(24)]
    for n in sizes:
        for _ in range(10):
            a = np.empty(n, dtype=np.float64)
            a.fill(value)
            junk.append(a)
    del junk


def _library_interference():
    """Use other parts of the library between two runs: a result must not depend on what else ran in
    the process (module-level state left behind by other buffers, selectors, schedules ...)."""
    from rl_blox.blox import replay_buffer as rb
    from rl_blox.blox.schedules import linear_schedule

    r = np.random.default_rng(5)
    for cls in (rb.ReplayBuffer, rb.LAP, rb.PrioritizedReplayBuffer):
        b = cls(4, discrete_actions=True)
        for i in range(5):
            b.add_sample(observation=np.zeros(2), action=i % 2, reward=1.0, next_observation=np.ones(2), termination=0)
        b.sample_batch(2, r)
    for cls in (rb.SubtrajectoryReplayBuffer, rb.SubtrajectoryReplayBufferPER):
        b = cls(8, horizon=2, discrete_actions=True)
        for i in range(6):
            b.add_sample(observation=np.zeros(2), action=i % 2, reward=1.0, next_observation=np.ones(2),
                         terminated=int(i == 3), truncated=0)
        b.sample_batch(2, 2, True, r)
    mt = rb.MultiTaskReplayBuffer(rb.ReplayBuffer(4, discrete_actions=True), 2)
    mt.add_sample(observation=np.zeros(2), action=1, reward=0.0, next_observation=np.ones(2), termination=1)
    linear_schedule(7, 0.3, 0.9, 0.5)


class _Perturb:
    """Re-seed the global generators differently, shift the clock, poison freed heap memory, use other
    parts of the library."""

    def __init__(self, k):
        self.k = k

    def __enter__(self):
        _library_interference()
        _poison_heap(self.k)
        self.np_state = np.random.get_state()
        self.py_state = random.getstate()
        np.random.seed(1234567 + 977 * self.k)
        random.seed(7654321 + 131 * self.k)
        self.orig_time = time.time
        shift = 133207.123 * (self.k + 1)  # odd integer part: also flips int(time) parity
        orig = self.orig_time
        time.time = lambda: orig() + shift
        return self

    def __exit__(self, *a):
        time.time = self.orig_time
        np.random.set_state(self.np_state)
        random.setstate(self.py_state)


def _diff(a, b):
    return [k for k in sorted(set(a) | set(b)) if a.get(k) != b.get(k)]


def _key_class(k):
    """Collapse a digest key to its kind for the violation signature."""
    if k.startswith("log"):
        return "logged_statistics"
    if k.startswith("buffer"):
        return "stored_experience"
    if k.startswith("envlog"):
        return "actions_sent_to_env"
    if k.startswith("result") and ("step" in k or k.count(".") == 1 and not k.endswith("]")):
        return "returned_values"
    return "learned_state"


def run_pair(case):
    name = case["routine"]
    _poison_heap(0)
    a, info = execute(case)
    with _Perturb(1):
        b, _ = execute(case)
    d = _diff(a, b)
    if d:
        kinds = sorted({_key_class(k) for k in d})
        check(False, f"{name}.rerun_differs.{'+'.join(kinds)}",
              f"two runs from identical seeds / initial state / environment differ in {len(d)} of {len(a)} compared "
              f"items, e.g. {d[:6]}")
    # non-vacuity: a different seed must change something
    with _Perturb(2):
        c, _ = execute(case, seed_shift=1)
    differs = bool(_diff(a, c))
    learned = bool(info.get("updated"))
    sampled = info.get("samples")
    labels = [name, "learned" if learned else "no-update", "seed-sensitive" if differs else "seed-insensitive",
              "logger" if case.get("logger", True) else "no-logger"]
    if sampled:
        labels.append("buffer-sampled")
    if case.get("env", {}).get("act64"):
        labels.append("float64-action-space")
    if case.get("env", {}).get("obs64"):
        labels.append("float64-observations")
    if name == "pets" and "init_with_previous_plan" in case["cfg"]:
        labels.append("warm-up-ends-mid-episode:prev-plan=%s" % case["cfg"]["init_with_previous_plan"])
    nt = learned and differs and (sampled is None or sampled > 0 or _family(name) != "offpolicy")
    return Outcome(labels=labels, nontrivial=nt,
                   fp=[name, case["env"], {k: v for k, v in case["cfg"].items() if k != "probe"}])


# ---------------------------------------------------------------------------
# cross-process variant (PYTHONHASHSEED)

def _child_main():
    case = json.loads(sys.stdin.read())
    from vlib import runner

    runner.prepare_env()
    runner.assert_tree()
    with _Perturb(int(os.environ.get("C09_PERTURB", "0"))):
        d, info = execute(case)
    sys.stdout.write("\nC09-DIGEST " + json.dumps({"digest": d, "info": info}) + "\n")


def _spawn(case, hashseed, perturb):
    env = dict(os.environ, PYTHONHASHSEED=str(hashseed), C09_PERTURB=str(perturb))
    p = subprocess.run([sys.executable, "-c", "from props.c09_determinism import _child_main; _child_main()"],
                       input=json.dumps(case), capture_output=True, text=True, env=env,
                       cwd=os.path.dirname(os.path.dirname(os.path.abspath(__file__))))
    for line in p.stdout.splitlines():
        if line.startswith("C09-DIGEST "):
            return json.loads(line[len("C09-DIGEST "):])
    raise HarnessError(f"child process failed (rc={p.returncode}): {p.stderr[-1500:]}")


def run_cross_process(case):
    name = case["routine"]
    a = _spawn(case, 11, 0)
    b = _spawn(case, 97531, 3)
    d = _diff(a["digest"], b["digest"])
    if d:
        kinds = sorted({_key_class(k) for k in d})
        check(False, f"{name}.cross_process_differs.{'+'.join(kinds)}",
              f"two interpreters (different PYTHONHASHSEED, global seeds, clock) differ in {len(d)} items, e.g. {d[:6]}")
    learned = bool(a["info"].get("updated"))
    return Outcome(labels=[name, "learned" if learned else "no-update"], nontrivial=learned,
                   fp=[name, case["env"], case["cfg"]])


# ---------------------------------------------------------------------------
# case builders (reuse C01's; force learning)

def _c01():
    from props import c01_stored_experience as c01

    return c01


def _force_learning(case):
    cfg = case["cfg"]
    cfg["probe"] = False
    T = cfg.get("total_timesteps")
    name = case["routine"]
    if name in R.OFF_POLICY and name != "dqn" and T:
        start = int(cfg.get("global_step", 0))
        # learning must start well before the budget ends
        cfg["learning_starts"] = min(int(cfg.get("learning_starts", 0)), start + max(2, (T - start) // 3))
    if name == "pets":
        # the ensemble trains on int(0.7 * len(buffer)) bootstrapped rows in batches of model_batch_size: with a
        # capacity of 3-5 and the default batch of 4 no batch is ever formed and the run learns nothing
        cfg["model_batch_size"] = 2
        cfg["buffer_size"] = max(int(cfg.get("buffer_size", 4)), 4)
    if name in ("dqn", "nature_dqn", "ddqn", "ddqn_per"):
        cfg["batch_size"] = min(int(cfg.get("batch_size", 2)), 3)
        cfg["update_frequency"] = min(int(cfg.get("update_frequency", 1)), 2)
    if name in R.TABULAR:
        case["logger"] = False  # the tabular loops log only through RecordEpisodeStatistics infos
    else:
        case["logger"] = bool(case.get("logger")) or case["gen_seed"] % 3 != 0
    return case


def build(name, seed):
    c01 = _c01()
    fam = _family(name)
    if fam == "offpolicy":
        case = c01.build_offpolicy(name, seed)
        if name == "pets" and int(seed) % 4 != 0:
            # C01's scripts end the first episode inside the warm-up phase (reset handling); here three quarters of the
            # PETS runs leave the warm-up in the middle of the first episode, so that whatever the planner
            # carried over from before the first planned step (previous plan) is used
            case["env"]["script"][0][0] = int(case["cfg"]["learning_starts"]) + 2 + int(seed) % 3
            case["cfg"]["init_with_previous_plan"] = int(seed) % 3 != 0
        if "act_low" in case["env"] and int(seed) % 2 == 0:
            # a legal but rare action space: a float64 Box (seeded like every other one)
            case["env"]["act64"] = True
    elif fam == "episodic":
        case = c01.build_episodic(name, seed)
    elif fam == "vector":
        case = c01.build_vector(name, seed)
        case["via"] = "train"
    elif fam == "tabular":
        case = c01.build_tabular(name, seed)
        case["cfg"]["epsilon"] = 0.3 if case["cfg"].get("epsilon") in (0.0,) else case["cfg"]["epsilon"]
        case["logger"] = False  # the tabular loops need RecordEpisodeStatistics for logging
    elif fam == "cmaes":
        r = np.random.default_rng([int(seed), 99])
        n_up = int(r.choice([4, 6]))
        case = {"routine": "cmaes", "gen_seed": int(seed),
                "env": {"script": c01._script(r, 80, lens=(2, 3, 4, 5)), "script_seed": int(r.integers(0, 10_000)),
                        "space_seed": int(r.integers(0, 10_000)), "obs_dim": 3,
                        "act_low": [-1.0], "act_high": [2.0]},
                "cfg": {"total_episodes": int(n_up * r.integers(2, 4) + r.integers(0, 2)),
                        "n_samples_per_update": n_up, "seed": int(r.integers(0, 1000)),
                        "net_seed": int(r.integers(0, 1000)), "variance": float(r.choice([0.3, 1.0])),
                        "active": bool(r.random() < 0.5), "hidden": [3]},
                "logger": True}
        return case
    return _force_learning(case)


def _strategy(names):
    from hypothesis import strategies as st

    def s():
        return st.tuples(st.sampled_from(list(names)), gen.seeds()).map(lambda t: build(t[0], t[1]))
    return s


def _simplify(case):
    """Smaller candidates: shorter budgets."""
    import copy

    cfg = case["cfg"]
    for key in ("total_timesteps", "total_episodes", "iterations"):
        if key in cfg and cfg[key] > 4:
            c = copy.deepcopy(case)
            c["cfg"][key] = max(4, cfg[key] // 2)
            if key == "total_timesteps" and "learning_starts" in c["cfg"]:
                c["cfg"]["learning_starts"] = min(c["cfg"]["learning_starts"], c["cfg"][key] // 3)
            yield c


# ---------------------------------------------------------------------------
# multi-task schedulers (train_uts / train_smt / train_active_mt with real backbones)

def build_sched(sched, seed):
    """Scheduler case.  SMT cases are constructed so that tasks leave the training pool
    during stage 1 (every task counts as solved after one episode) while several
    never-trained tasks tie for the lowest performance in the main pool: the moment
    at which a tie-break decides which task is trained next."""
    r = np.random.default_rng([int(seed), sum(map(ord, sched))])
    n = int(r.choice([4, 5, 6]))
    kind = str(r.choice(["discrete", "vector"]))
    scr = [[[int(r.choice([2, 3, 4])), str(r.choice(["term", "trunc"]))] for _ in range(int(r.integers(1, 3)))]
           for _ in range(1 if kind == "discrete" else n)]
    backbone = str(r.choice(["train_ddpg", "train_td3"] if sched != "uts" else ["train_td3", "train_sac"]))
    budget = int(r.integers(28, 41))
    case = {"sched": sched, "taskset": kind, "n_tasks": n, "scripts": scr, "script_seed": int(r.integers(0, 999)),
            "interval": 1, "budget": budget, "learning_starts": int(r.choice([3, 6])), "seed": int(r.integers(0, 99)),
            "backbone": backbone,
            "cfg": {"learning_starts": 0, "batch_size": 2, "buffer_size": 200, "net_seed": int(r.integers(0, 50)),
                    "update_frequency": 1, "target_update_frequency": 2, "policy_delay": 1, "gradient_steps": 1,
                    "target_delay": 2, "use_checkpoints": 0}}
    case["cfg"]["learning_starts"] = case["learning_starts"]
    if sched == "smt":
        case.update({"b1": budget - 6, "b2": 6, "K": 2, "n_average": 1, "kappa": 0.5,
                     "solved": -1e9, "unsolvable": 1e9})
    if sched == "amt":
        # tie_prone: every episode of every task returns exactly the same value (all rewards zero) and the
        # bandit does not discount, so the arms' scores tie exactly once the round-robin warm-up is over --
        # the moment at which a tie-break decides which task is trained next
        tie_prone = bool(r.random() < 0.6)
        case.update({"selector": str(r.choice(["Monotonic Progress", "1-step Progress", "Best Reward"] if tie_prone else
                                              ["Round Robin", "1-step Progress", "Best Reward", "Diversity"])),
                     "r_max": 10.0, "ducb_gamma": 1.0 if tie_prone else 0.95,
                     "xi": float(r.choice([0.5, 0.002])), "zero_reward": tie_prone})
        if tie_prone:
            case["n_tasks"] = 3
            case["budget"] = int(r.integers(44, 57))
            case["scripts"] = [[[2, "trunc"]] for _ in case["scripts"]][: (1 if kind == "discrete" else 3)]
    return case


def execute_sched(case):
    import warnings

    import gymnasium as gym
    from rl_blox.blox.replay_buffer import MultiTaskReplayBuffer, ReplayBuffer

    from vlib import routines_c11 as R11

    sched, n, budget = case["sched"], case["n_tasks"], case["budget"]
    space = R11.box_space()
    scripts_ = case["scripts"] if case["taskset"] == "vector" else case["scripts"][:1] * n
    ts, log, _, task_of, envs = R11.make_task_set(case["taskset"], scripts_, case["script_seed"], space,
                                                 3 * budget + 60)
    if case.get("zero_reward"):
        for e in envs:
            e.reward_scale = 0.0
    ad = R11.ADAPTERS[case["backbone"]](dict(case["cfg"]))
    ad.setup(envs[0])
    bb = ad.partial()
    mtrb = MultiTaskReplayBuffer(ReplayBuffer(200), n)
    out = {}
    with warnings.catch_warnings():
        warnings.simplefilter("ignore")
        if sched == "uts":
            from functools import partial

            from rl_blox.algorithm.uniform_task_sampling import train_uts

            res = train_uts(ts, partial(bb, replay_buffer=ad.rb), total_timesteps=budget,
                            episodes_per_task=case["interval"], seed=case["seed"],
                            exploring_starts=case["learning_starts"], progress_bar=False)
            _digest_obj("result.global_step", getattr(res, "global_step", None), out)
            _digest_obj("buffer", ad.rb, out)
        elif sched == "smt":
            from rl_blox.algorithm.smt import train_smt

            _, training_steps, perf = train_smt(
                ts, bb, mtrb, b1=case["b1"], b2=case["b2"], solved_threshold=case["solved"],
                unsolvable_threshold=case["unsolvable"], scheduling_interval=case["interval"], kappa=case["kappa"],
                K=case["K"], n_average=case["n_average"], learning_starts=case["learning_starts"],
                seed=case["seed"], progress_bar=False)
            _digest_obj("result.training_steps", np.asarray(training_steps), out)
            _digest_obj("result.performance", np.asarray(perf, dtype=np.float64), out)
            _digest_obj("buffer", mtrb, out)
        else:
            from rl_blox.algorithm.active_mt import train_active_mt

            _, training_steps = train_active_mt(
                ts, bb, mtrb, r_max=case["r_max"], ducb_gamma=case["ducb_gamma"], xi=case["xi"],
                task_selector=case["selector"], total_timesteps=budget, scheduling_interval=case["interval"],
                learning_starts=case["learning_starts"], seed=case["seed"], progress_bar=False)
            _digest_obj("result.training_steps", np.asarray(training_steps), out)
            _digest_obj("buffer", mtrb, out)
    steps = [e for e in log.events if e["kind"] == "step"]
    out["envlog.n_steps"] = str(len(steps))
    out["envlog.actions"] = _h(b"|".join(np.asarray(e["action"]).tobytes() for e in steps))
    out["envlog.task_sequence"] = _h(repr([task_of(e) for e in steps]).encode())
    _digest_obj("state", list(ad.tracked), out)
    tasks = sorted({task_of(e) for e in steps})
    return out, {"tasks_trained": len(tasks), "steps": len(steps)}


def run_sched_pair(case):
    name = {"uts": "train_uts", "smt": "train_smt", "amt": "train_active_mt"}[case["sched"]]
    a, info = execute_sched(case)
    with _Perturb(1):
        b, _ = execute_sched(case)
    d = _diff(a, b)
    if d:
        kinds = sorted({_key_class(k) for k in d})
        check(False, f"{name}.rerun_differs.{'+'.join(kinds)}",
              f"two runs from identical seeds / initial state / task set differ in {len(d)} of {len(a)} compared "
              f"items, e.g. {d[:6]}")
    with _Perturb(2):
        c, _ = execute_sched(dict(case, seed=case["seed"] + 1))
    differs = bool(_diff(a, c))
    nt = differs and info["tasks_trained"] >= 3
    return Outcome(labels=[name, case["backbone"], case["taskset"], f"tasks-trained={min(info['tasks_trained'], 4)}",
                           "seed-sensitive" if differs else "seed-insensitive"]
                   + (["tie-prone-bandit"] if case.get("zero_reward") else []),
                   nontrivial=nt, fp=case)


def _sched_strategy(sched):
    def s():
        return gen.seeds().map(lambda z: build_sched(sched, z))
    return s


def _ssub(sched, quick, thorough):
    return SubCheck("sched_" + sched, _sched_strategy(sched), run_sched_pair, quick=quick, thorough=thorough, flaky_is_violation=True,
                    shards=quick, shards_thorough=8, shrink=False, suppress_too_slow=True, cost=9.0,
                    min_nontrivial_frac=0.5,
                    rule=">= 3 tasks trained and a run with seed+1 differs; SMT cases refill the training pool while "
                         "never-trained tasks tie for the lowest performance")


def _sub(name, quick, thorough, cost):
    return SubCheck(name, _strategy((name,)), run_pair, quick=quick, thorough=thorough, shards=quick, flaky_is_violation=True,
                    shards_thorough=8, shrink=False, suppress_too_slow=True, simplify=_simplify, cost=cost,
                    min_nontrivial_frac=0.5,
                    rule="run A learned (parameters changed), sampled its buffer where it has one, and a run with "
                         "seed+1 differs")


def _xsub(name, cost):
    return SubCheck("xproc_" + name, _strategy((name,)), run_cross_process, quick=1, thorough=6, shards=1, flaky_is_violation=True,
                    shards_thorough=6, shrink=False, suppress_too_slow=True, cost=cost, min_nontrivial_frac=0.5,
                    rule="run in two fresh interpreters with different PYTHONHASHSEED, global seeds and clock; "
                         "non-trivial = parameters changed")


# one sub-check per routine, so that every routine is exercised in every run
_COST = {"mrq": 12.0, "pets": 12.0, "td7": 8.0, "sac": 6.0, "td3": 5.0, "td3_lap": 5.0, "ddpg": 5.0}
SUBCHECKS = (
    [_sub(n, 3 if n in ("pets", "td7") else 2, 20, _COST.get(n, 3.0)) for n in
     R.DQN_FAMILY + R.CONTINUOUS_OFF_POLICY + ("reinforce", "actor_critic", "a2c", "ppo") + R.TABULAR + ("cmaes",)]
    + [_xsub(n, 10.0) for n in ("td3", "sac", "ddqn_per", "td7", "mrq", "ppo", "dynaq", "cmaes")]
    + [_ssub("smt", 3, 24), _ssub("uts", 2, 16), _ssub("amt", 4, 24)]
)
