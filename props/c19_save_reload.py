"""C19 Saved models and buffers reload to identical state and behaviour.

Buffers: an operation-sequence prefix is applied to a buffer of every class,
the buffer is pickled and reloaded, then a generated continuation is applied
in lockstep to the original and the reloaded object (same generator seeds).
Oracle: the reloaded ``__dict__`` is byte-equal to the original's, every
continuation op returns byte-equal results, leaves byte-equal state and
consumes the generator identically.

Modules: every architecture of the repository, with generated parameter values,
goes through ``save_pickle`` / ``load_pickle`` and through checkpoints written
by ``OrbaxCheckpointer`` / ``StandardLogger``, restored with
``restore_checkpoint`` and with Orbax' ``StandardCheckpointer``.  Oracle: the
restored module has exactly the bytes the module had when it was saved and
gives the same outputs on generated inputs.

Development switch: ``VERIF_C19_BEHAVIOUR_ONLY=1`` turns off every ``__dict__``
comparison of the buffer sub-checks and keeps only the behavioural clauses
(results of continuation ops, generator state).  It exists to show with
``tools/mutation_check.py`` that the lockstep continuation alone kills the
buffer mutants; registered commands never set it.

See DESIGN.md §5 C19.
"""
import os
import pickle

import numpy as np
from hypothesis import strategies as st

from vlib import gen
from vlib import persist as P
from vlib.core import Outcome, SubCheck, check
from vlib.instruments import diff_states, state_bytes

PROPERTY = "C19"
RULE = (
    "Buffer cases: Hypothesis draws the class, capacity, horizon, key layout, a prefix of operations "
    "(add with episode ends, sample, priority update, reset_max_priority, select_task, reward_scale) whose "
    "number of additions is chosen relative to the capacity (empty / partial / exactly full / wrapped), the "
    "pickle protocol and a continuation; ops that are invalid in the current state are remapped to a valid "
    "neighbour. Non-trivial = the save is taken on a buffer that has wrapped around, and (subtrajectory "
    "classes) in the middle of an episode, and (prioritized classes) with non-uniform priorities, and "
    "(multi-task) with at least two active task buffers, and the continuation both adds and samples. "
    "Module cases: one case holds one item per architecture of the repository (17 items: MLP, LayerNormMLP, "
    "GaussianMLP, the four policy heads, ContinuousClippedDoubleQNet, SALE / ActorSALE / DeterministicSALEPolicy "
    "/ CriticSALE, ModelBasedEncoder, DeterministicPolicyWithEncoder, GaussianMLPEnsemble, MTMLPQNetwork, "
    "ModelBasedMTEncoder); per item sizes, seeds, parameter scale and special values (signed zero, subnormal, "
    "float32 max), logger kind, interval, number of checkpoints and whether the same logger then serves a second "
    "run whose step counter starts again are drawn; an item is non-trivial if the "
    "module is restored into a template whose every variable differs from the saved bytes, or the live module "
    "was changed after the save; a case is non-trivial if at least half of its items are. Evaluations count "
    "cases, i.e. 17 module round trips each. Distinct = distinct canonical case."
)
ASSUMPTIONS = [
    "buffers are used inside their documented domain: every key is given on every add, sampling only when "
    "a valid start index exists, update_priority only after a sample, subtrajectory capacity >= horizon + 2",
    "buffer storage that is allocated (np.empty) only after the save is compared on the filled region; "
    "everything allocated before the save (including never-written slots) is compared in full",
    "module parameters are finite float32 values including -0.0, subnormals and float32 max (no NaN/inf)",
    "CPU backend; move_to_device is exercised with None and 'cpu' only",
    "multi-task buffers with up to 12 tasks (20 in the thorough tier); the iteration order of the active-task set "
    "is internal state and not compared (only behaviour: sampled batches, generator state, stored data)",
]

# Module instrumented if an atheris campaign (tools/fuzz.py) is run by hand.  Not enabled in the
# thorough tier (fuzz_runs=0): byte-decoded buffer cases are almost never non-trivial by the rule
# above (measured 0 of 4984 for the prioritized classes), so they would only dilute the evidence.
FUZZ_INSTRUMENT = ["rl_blox.blox.replay_buffer"]

FLAT = ["ReplayBuffer", "LAP", "PrioritizedReplayBuffer"]
SUBTRAJ = ["SubtrajectoryReplayBuffer", "SubtrajectoryReplayBufferPER"]
PRIORITIZED = ["LAP", "PrioritizedReplayBuffer", "SubtrajectoryReplayBufferPER"]
BETAS = [0.4, 0.0, 1.0, 0.7]
# MultiTaskReplayBuffer.sample_batch draws the task from list(self.active_buffers):
# the set's iteration order is behaviour-relevant state
ORDER_KEY = "buffer.multitask.active_buffers_iteration_order@sample_batch"
# development switch: only the behavioural clauses (results, generator state),
# none of the __dict__ comparisons; used to show that the lockstep continuation
# alone kills the mutants
BEHAVIOUR_ONLY = bool(os.environ.get("VERIF_C19_BEHAVIOUR_ONLY"))


# ------------------------------------------------------------------ buffers

def _layout(base, layout, discrete):
    """keys, dtypes for the constructor (None = library defaults)."""
    a = int if discrete else float
    if base in FLAT:
        if layout == "default":
            return None, None
        if layout == "extra":
            return (["observation", "action", "reward", "next_observation", "termination", "task_id"],
                    [float, a, float, float, int, int])
        return (["reward", "observation", "done", "next_observation", "action"],
                [float, float, int, float, a])
    if layout == "default":
        return None, None
    if layout == "extra":
        return (["observation", "action", "reward", "next_observation", "terminated", "truncated", "extra"],
                [float, a, float, float, int, int, float])
    return (["terminated", "observation", "truncated", "reward", "action", "next_observation"],
            [int, float, int, float, a, float])


def _make_buffer(case):
    from rl_blox.blox import replay_buffer as rb

    base = case["base"]
    keys, dtypes = _layout(base, case["layout"], case["discrete"])
    kw = {"discrete_actions": bool(case["discrete"])}
    if keys is not None:
        kw.update(keys=keys, dtypes=dtypes)
    if base in SUBTRAJ:
        kw["horizon"] = case["horizon"]
    buf = getattr(rb, base)(case["capacity"], **kw)
    if case["cls"] == "MultiTaskReplayBuffer":
        buf = rb.MultiTaskReplayBuffer(buf, case["n_tasks"])
    return buf


def _sample_kwargs(case, seed, end):
    """The transition stored by op ["add", seed, end]; a pure function of the case."""
    r = np.random.default_rng(int(seed))
    obs = r.standard_normal(case["obs_dim"])
    nxt = r.standard_normal(case["obs_dim"])
    act = int(r.integers(0, 5)) if case["discrete"] else r.standard_normal(case["act_dim"])
    rew = float(r.standard_normal() * 10.0)
    base, layout = case["base"], case["layout"]
    if base in FLAT:
        term_key = "done" if layout == "reordered" else "termination"
        kw = {"observation": obs, "action": act, "reward": rew, "next_observation": nxt, term_key: end == 1}
        if layout == "extra":
            kw["task_id"] = int(seed) % 7
        return kw
    kw = {"observation": obs, "action": act, "reward": rew, "next_observation": nxt,
          "terminated": end == 1, "truncated": end == 2}
    if layout == "extra":
        kw["extra"] = float(r.standard_normal())
    return kw


def _subs(buf):
    return list(buf.buffers) if hasattr(buf, "buffers") else [buf]


def _arr(a):
    a = np.asarray(a)
    return (str(a.dtype), tuple(a.shape), a.tobytes())


def _scalar(v):
    return (type(v).__name__, repr(v))


def _snap_one(b, full, prefix, out):
    for name, v in b.__dict__.items():
        p = f"{prefix}{name}"
        if name == "Batch":
            out[p] = ("namedtuple", v.__name__, tuple(v._fields))
        elif name == "buffer":
            out[p + ".<keys>"] = tuple(v.keys())
            out[p + ".<type>"] = type(v).__name__
            n = b.current_len
            for k, a in v.items():
                out[f"{p}[{k}]"] = _arr(a) if full else _arr(a[:n]) + (tuple(a.shape),)
        elif name == "priority":
            out[p + ".<type>"] = type(v).__name__
            for k2, v2 in v.__dict__.items():
                out[f"{p}.{k2}"] = _arr(v2) if isinstance(v2, np.ndarray) else _scalar(v2)
        elif isinstance(v, np.ndarray):
            out[p] = _arr(v)
        else:
            out[p] = _scalar(v)


def snap(buf, full_flags=None):
    """Flatten a buffer's complete ``__dict__`` (recursively) to
    {path: bytes / (type, repr)}.  ``full_flags[i]`` False restricts the data
    arrays of sub-buffer i to the filled region (see ASSUMPTIONS)."""
    out = {"<type>": type(buf).__name__}
    if hasattr(buf, "buffers"):
        for name, v in buf.__dict__.items():
            if name == "buffers":
                out["buffers.<len>"] = len(v)
                for i, b in enumerate(v):
                    out[f"buffers[{i}].<type>"] = type(b).__name__
                    _snap_one(b, True if full_flags is None else full_flags[i], f"buffers[{i}].", out)
            elif isinstance(v, (set, frozenset)):
                # content; the iteration order has its own clause (ORDER_KEY)
                out[name] = (type(v).__name__, tuple(sorted(v)))
            else:
                out[name] = _scalar(v)
    else:
        _snap_one(buf, True if full_flags is None else full_flags[0], "", out)
    return out


def _diff(a, b):
    return [k for k in sorted(set(a) | set(b)) if k not in a or k not in b or a[k] != b[k]]


def _batch_result(x):
    """A sampled batch (named tuple of arrays, optionally with an importance
    ratio) as comparable data."""
    out = []
    if isinstance(x, tuple) and not hasattr(x, "_fields"):
        batch, ratio = x
        out.append(("importance_ratio", _arr(ratio)))
    else:
        batch = x
    out.append(("<batch-type>", type(batch).__name__, tuple(batch._fields)))
    for f in batch._fields:
        out.append((f, _arr(getattr(batch, f))))
    return out


class Lockstep:
    """Interpreter of the op alphabet; applies every op to all live copies of
    the buffer (one before the save, two after it)."""

    def __init__(self, case):
        self.case = case
        self.base = case["base"]
        self.multi = case["cls"] == "MultiTaskReplayBuffer"
        self.sub = self.base in SUBTRAJ
        self.per = self.base in PRIORITIZED
        self.bufs = [_make_buffer(case)]
        self.rngs = [np.random.default_rng(case["rng_seed"])]
        self.full = None  # per sub-buffer: data arrays allocated before the save
        self.labels = set()
        self.n_ops = {"add": 0, "sample": 0, "prio": 0}
        self.written = [0] * len(_subs(self.bufs[0]))  # slots written per sub-buffer
        self.phase = "prefix"
        self.stopped = False  # a known finding made the two copies diverge

    def _check_order(self, when):
        # Since fix 1afd2b3 the task is drawn from sorted(active_buffers): the set's iteration
        # order is no longer behaviour-relevant state and is not compared (the lockstep
        # continuation reports any behavioural divergence, e.g. with the fix reverted).
        return
        if not self.multi or len(self.bufs) < 2 or self.stopped:
            return
        a, b = list(self.bufs[0].active_buffers), list(self.bufs[1].active_buffers)
        if a != b and sorted(a) == sorted(b):
            # reported under its own key; if it is a listed finding the case
            # ends here (the copies legitimately diverge from now on)
            check(False, ORDER_KEY,
                  f"{when}: active task set iterates as {a} in the original and {b} in the reloaded buffer, "
                  f"so rng.choice(list(active_buffers)) picks different tasks for the same generator state")
            self.stopped = True
            self.labels.add("known:active-set-order")

    # -- validity, decided on the original ---------------------------------
    def _can_sample(self):
        o = self.bufs[0]
        if self.multi:
            act = sorted(o.active_buffers)
            if not act:
                return False
            targets = [o.buffers[i] for i in act]
        else:
            targets = [o]
        for b in targets:
            if len(b) == 0:
                return False
            if self.sub and not np.any(b.mask_[: b.current_len]):
                return False
        return True

    def _prio_target(self):
        o = self.bufs[0]
        if self.multi:
            if not hasattr(o, "sampled_task_idx"):
                return None
            return o.buffers[o.sampled_task_idx]
        return o

    # -- ops ---------------------------------------------------------------
    def apply(self, op):
        if self.stopped:
            return
        kind = op[0]
        if kind == "sample" and not self._can_sample():
            self.labels.add("remapped:sample->add")
            op = ["add", op[1] * 7919 + op[2], 0]
            kind = "add"
        if kind == "prio":
            if not self.per:
                op, kind = ["len"], "len"
            else:
                t = self._prio_target()
                if t is None or len(t.priority.sampled_indices) == 0:
                    if self._can_sample():
                        self._run(["sample", 1 + op[1] % 3, 1, 0, 0])
                    else:
                        self.labels.add("remapped:prio->add")
                        op, kind = ["add", op[1], 0], "add"
        if kind == "reset_max" and not self.per:
            op, kind = ["len"], "len"
        if kind == "select" and not self.multi:
            op, kind = ["len"], "len"
        if kind == "reward_scale" and (
                not self.sub or "reward" not in _subs(self.bufs[0])[0].buffer or len(self.bufs[0]) == 0):
            op, kind = ["len"], "len"
        self._run(op)

    def _do(self, buf, rng, op):
        kind = op[0]
        case = self.case
        if kind == "add":
            return buf.add_sample(**_sample_kwargs(case, op[1], op[2]))
        if kind == "sample":
            bs, h, inter, beta = op[1], op[2], bool(op[3]), BETAS[op[4] % len(BETAS)]
            h = 1 + (h - 1) % case["horizon"]
            if self.sub:
                r = buf.sample_batch(bs, h, inter, rng)
            elif self.base == "PrioritizedReplayBuffer":
                r = buf.sample_batch(bs, rng=rng, beta=beta) if (self.multi or op[4] % 2) else \
                    buf.sample_batch(bs, rng, beta)
            else:
                r = buf.sample_batch(bs, rng=rng) if op[4] % 2 else buf.sample_batch(bs, rng)
            return _batch_result(r)
        if kind == "prio":
            t = self._prio_target()
            n = len(t.priority.sampled_indices)
            pr = np.abs(gen.rng_array(op[1], (n,), float(op[2]), dtype=np.float64)) + 1e-3
            return buf.update_priority(pr)
        if kind == "reset_max":
            return buf.reset_max_priority()
        if kind == "select":
            return buf.select_task(op[1] % case["n_tasks"])
        if kind == "reward_scale":
            return _scalar(buf.reward_scale())
        if kind == "len":
            r = [("len", len(buf))]
            if self.sub or self.multi:
                r.append(("environment_terminates", _scalar(buf.environment_terminates)))
            return r
        raise ValueError(op)

    def _run(self, op):
        kind = op[0]
        if kind in self.n_ops and self.phase == "cont":
            self.n_ops[kind] += 1
        if kind == "add":
            o = self.bufs[0]
            i = o.selected_task if self.multi else 0
            self.written[i] += 1 + (1 if (self.sub and op[2]) else 0)
        results = [self._do(b, r, op) for b, r in zip(self.bufs, self.rngs)]
        if len(self.bufs) == 2:
            self._check_order(f"after op {op}")
            if self.stopped:
                return
            a, b = results
            check(a == b, f"buffer.cont.result.{kind}",
                  lambda: f"op {op}: original returned {_short(results[0])}, reloaded {_short(results[1])}")
            if not BEHAVIOUR_ONLY:
                s0, s1 = snap(self.bufs[0], self.full), snap(self.bufs[1], self.full)
                check(s0 == s1, f"buffer.cont.state.{kind}",
                      lambda: f"after op {op} the states differ in {_diff(s0, s1)[:6]}")
            g0, g1 = self.rngs[0].bit_generator.state, self.rngs[1].bit_generator.state
            check(g0 == g1, f"buffer.cont.generator_state.{kind}",
                  f"after op {op} the two generators are in different states")

    # -- the save ------------------------------------------------------------
    def save_and_reload(self):
        case = self.case
        o = self.bufs[0]
        before = snap(o)
        gstate = self.rngs[0].bit_generator.state
        if case["via"] == "file":
            with P.fresh_dir() as d:
                fn = os.path.join(d, "buffer.pkl")
                with open(fn, "wb") as f:
                    pickle.dump(o, f, protocol=case["protocol"])
                with open(fn, "rb") as f:
                    r = pickle.load(f)
        else:
            r = pickle.loads(pickle.dumps(o, protocol=case["protocol"]))
        after = snap(o)
        check(before == after, "buffer.save.changes_original",
              lambda: f"pickling changed the original in {_diff(before, after)[:6]}")
        check(type(r) is type(o), "buffer.reload.type", f"{type(r).__name__} != {type(o).__name__}")
        sr = snap(r)
        check(BEHAVIOUR_ONLY or before == sr, "buffer.reload.state",
              lambda: f"reloaded state differs in {_diff(before, sr)[:8]}")
        for i, (bo, br) in enumerate(zip(_subs(o), _subs(r))):
            check(BEHAVIOUR_ONLY or tuple(br.Batch._fields) == tuple(bo.buffer.keys()), "buffer.reload.batch_fields",
                  lambda: f"sub-buffer {i}: Batch fields {br.Batch._fields} for keys {list(bo.buffer.keys())}")
            for k in bo.buffer:
                check(not np.shares_memory(bo.buffer[k], br.buffer[k]), "buffer.reload.shares_memory", k)
        self.full = [len(b) > 0 for b in _subs(o)]
        self.bufs.append(r)
        g = np.random.default_rng(0)
        g.bit_generator.state = gstate
        self.rngs.append(g)
        self.phase = "cont"
        self._check_order("directly after the reload")

    def classify(self):
        """Non-triviality of the state in which the save is taken."""
        o = self.bufs[0]
        subs = _subs(o)
        wrapped = [w > b.buffer_size for w, b in zip(self.written, subs)]
        labels = set()
        fill = []
        for w, b in zip(self.written, subs):
            fill.append("empty" if w == 0 else "partial" if w < b.buffer_size else
                        "exactly-full" if w == b.buffer_size else "wrapped")
        labels.update("save:" + f for f in fill)
        nt = any(wrapped)
        if self.sub:
            mid = [b.episode_timesteps > 0 for b in subs]
            if any(mid):
                labels.add("save:mid-episode")
            nt = nt and any(m and w for m, w in zip(mid, wrapped))
        if self.per:
            nonuni = [len(b) > 1 and len(np.unique(b.priority.priority[: b.current_len])) > 1 for b in subs]
            if any(nonuni):
                labels.add("save:nonuniform-priorities")
            if any(len(b.priority.sampled_indices) > 0 for b in subs):
                labels.add("save:pending-sampled-indices")
            if any(b.priority.max_priority != 1.0 for b in subs):
                labels.add("save:max-priority-moved")
            nt = nt and any(n and w for n, w in zip(nonuni, wrapped))
        if self.multi:
            if len(o.active_buffers) >= 2:
                labels.add("save:two-active-tasks")
            if o.selected_task != 0:
                labels.add("save:selected-task-nonzero")
            nt = nt and len(o.active_buffers) >= min(2, self.case["n_tasks"])
        return nt, labels


def _short(x):
    s = repr(x)
    return s if len(s) < 300 else s[:300] + "..."


def run_buffer(case):
    ls = Lockstep(case)
    for op in case["prefix"]:
        ls.apply(op)
    nt, labels = ls.classify()
    ls.save_and_reload()
    for op in case["cont"]:
        ls.apply(op)
    cont_ok = ls.n_ops["add"] > 0 and ls.n_ops["sample"] > 0 and not ls.stopped
    labels |= ls.labels
    labels.add("cls:" + case["cls"] + ("/" + case["base"] if case["cls"] != case["base"] else ""))
    labels.add("layout:" + case["layout"])
    labels.add("via:" + case["via"])
    if case["cls"] == "MultiTaskReplayBuffer":
        labels.add("tasks:%s" % ("1" if case["n_tasks"] == 1 else "2-8" if case["n_tasks"] <= 8 else ">8"))
    if ls.n_ops["prio"]:
        labels.add("cont:priority-update")
    return Outcome(labels=sorted(labels), nontrivial=bool(nt and cont_ok))


def _ops(draw, case, n, cont):
    """n operations from the class' alphabet."""
    sub, per, multi = case["base"] in SUBTRAJ, case["base"] in PRIORITIZED, case["cls"] == "MultiTaskReplayBuffer"
    ends = st.sampled_from([0, 0, 0, 0, 1, 2] if sub else [0, 0, 1])
    add = st.tuples(st.just("add"), gen.seeds(), ends)
    sample = st.tuples(st.just("sample"), st.sampled_from([1, 2, 3, 5]), st.integers(1, 3), st.integers(0, 1),
                       st.integers(0, 3))
    alpha = [add, add, add, sample, sample, st.just(("len",))]
    if per:
        prio = st.tuples(st.just("prio"), gen.seeds(), st.sampled_from([0.1, 1.0, 10.0]))
        alpha += [prio, prio, st.just(("reset_max",))]
    if multi:
        sel = st.tuples(st.just("select"), st.integers(0, case["n_tasks"] - 1))
        alpha += [sel, sel]
    if sub:
        alpha.append(st.just(("reward_scale",)))
    return [list(o) for o in draw(st.lists(st.one_of(*alpha), min_size=n, max_size=n))]


def buffer_cases(classes):
    @st.composite
    def strat(draw):
        quick = gen.tier() == "quick"
        cls = draw(st.sampled_from(classes))
        multi = cls == "MultiTaskReplayBuffer"
        base = draw(st.sampled_from(FLAT + SUBTRAJ)) if multi else cls
        sub, per = base in SUBTRAJ, base in PRIORITIZED
        horizon = draw(st.sampled_from([2, 1, 1, 3])) if sub else 1
        capacity = draw(st.integers(horizon + 2, horizon + 6)) if sub else draw(st.sampled_from([3, 2, 4, 5, 8, 3, 4, 5, 1]))
        n_tasks = draw(st.sampled_from([2, 3, 12, 1, 2, 3, 4, 6, 12] if quick else [2, 3, 1, 4, 6, 9, 12, 20])) if multi else 1
        case = {
            "cls": cls, "base": base, "capacity": capacity, "horizon": horizon, "n_tasks": n_tasks,
            "obs_dim": draw(st.sampled_from([1, 2, 3])), "act_dim": draw(st.sampled_from([1, 2])),
            "discrete": draw(st.booleans()),
            "layout": draw(st.sampled_from(["default", "default", "extra", "reordered"])),
            "rng_seed": draw(gen.seeds()), "protocol": draw(st.sampled_from([2, 3, 4, 5, 5])),
            "via": draw(st.sampled_from(["dumps", "dumps", "dumps", "file"])),
        }
        ends_pool = [0, 0, 0, 1, 2] if sub else [0, 0, 1]

        def block():
            """Additions of one (task) buffer: how many relative to the capacity,
            with an episode script; the save is mostly taken mid-episode."""
            fill = draw(st.sampled_from(["wrapped"] * 7 + ["exact", "partial", "empty"]))
            if fill == "empty":
                n_adds = 0
            elif fill == "partial":
                n_adds = draw(st.integers(1, max(1, capacity - 1)))
            elif fill == "exact":
                n_adds = capacity
            else:
                n_adds = draw(st.integers(capacity + 1, 2 * capacity + 3))
            ends = draw(st.lists(st.sampled_from(ends_pool), min_size=n_adds, max_size=n_adds))
            if n_adds and draw(st.integers(0, 9)) < 8:
                ends[-1] = 0
                if sub and n_adds >= 2 and draw(st.booleans()):
                    ends[-2] = draw(st.sampled_from([1, 2]))  # a fresh episode has just begun
            seeds = draw(st.lists(gen.seeds(), min_size=n_adds, max_size=n_adds))
            return [["add", s_, e_] for s_, e_ in zip(seeds, ends)]

        if multi:
            k = 1 if n_tasks == 1 else draw(st.sampled_from([2, 2, 1, 2, 2, 3]))
            used = draw(st.lists(st.integers(0, n_tasks - 1), min_size=min(k, n_tasks), max_size=min(k, n_tasks),
                                 unique=True))
            if n_tasks > 8 and draw(st.booleans()):
                # task ids that are congruent modulo 8 (hash-table neighbours), in either order
                t0 = draw(st.integers(0, n_tasks - 9))
                pair = [t0 + 8, t0] if draw(st.booleans()) else [t0, t0 + 8]
                used = pair + [t for t in used if t not in pair][: max(0, k - 2)]
            prefix = []
            for t in used:
                prefix.append(["select", t])
                prefix += block()
        else:
            prefix = block()
        n_adds = sum(1 for o in prefix if o[0] == "add")
        others = _ops(draw, case, draw(st.integers(0, 5)), False)
        for o in others:
            if o[0] == "add":
                continue
            prefix.insert(draw(st.integers(0, len(prefix))), o)
        if per and n_adds and draw(st.integers(0, 9)) < 9:
            # priorities of a sampled batch are rewritten shortly before the save
            for _ in range(draw(st.integers(2, 3)) if multi else 1):
                tail = [["sample", draw(st.sampled_from([1, 2, 3, 5])), 1, 0, draw(st.integers(0, 3))],
                        ["prio", draw(gen.seeds()), draw(st.sampled_from([0.1, 1.0, 10.0]))]]
                if draw(st.booleans()):
                    tail.append(["sample", draw(st.sampled_from([1, 2, 3])), 1, draw(st.integers(0, 1)),
                                 draw(st.integers(0, 3))])
                pos = draw(st.integers(max(0, len(prefix) - 2), len(prefix)))
                prefix[pos:pos] = tail
        case["prefix"] = prefix
        n_cont = draw(st.integers(1, 10 if quick else 40))
        cont = _ops(draw, case, n_cont, True)
        forced = [["add", draw(gen.seeds()), draw(st.sampled_from(ends_pool))],
                  ["sample", draw(st.sampled_from([1, 2, 3, 5])), draw(st.integers(1, 3)), draw(st.integers(0, 1)),
                   draw(st.integers(0, 3))]]
        if sub:
            # make sure at least one start index is valid when the continuation samples
            forced.insert(0, ["add", draw(gen.seeds()), 1])
        for o in forced:
            cont.insert(draw(st.integers(0, len(cont))), o)
        if per and draw(st.integers(0, 3)) == 0:
            cont.insert(0, ["prio", draw(gen.seeds()), draw(st.sampled_from([0.1, 1.0, 10.0]))])
        case["cont"] = cont
        return case

    return strat


# ------------------------------------------------------------------ modules

@st.composite
def _module_base(draw, arch):
    quick = gen.tier() == "quick"
    spec = {
        "arch": arch,
        "obs": draw(st.sampled_from([3] if quick else [3, 1, 2, 5])),
        "act": draw(st.sampled_from([2] if quick else [2, 1, 4])),
        "hidden": draw(st.sampled_from([[4], [], [5, 3]] if quick else [[4], [], [5, 3], [8, 8, 2]])),
        "activation": draw(st.sampled_from(["relu", "elu"] if quick else ["relu", "tanh", "elu"])),
        "flag": draw(st.booleans()),
        "n": draw(st.sampled_from([2, 3])),
        "task": draw(st.integers(0, 3)),
    }
    return {
        "spec": spec,
        "seed": draw(gen.seeds()),
        "template_seed": draw(gen.seeds()),
        "state_seed": draw(gen.seeds()),
        "scale": draw(st.sampled_from([1.0, 1.0, 1e-2, 30.0])),
        "specials": [list(t) for t in draw(st.lists(
            st.tuples(st.integers(0, 30), st.integers(0, 63), st.integers(0, len(P.SPECIALS) - 1)),
            min_size=0, max_size=4))],
        "input_seed": draw(gen.seeds()),
        "batch": draw(st.sampled_from([3, 0] if quick else [3, 0, 1, 8])),
    }


@st.composite
def pickle_cases(draw):
    """One case = one save / load round trip for *every* architecture of the
    repository (so no run can miss one), each with its own drawn settings."""
    items = []
    for arch in P.ARCHS:
        item = draw(_module_base(arch))
        item["graphdef_from"] = draw(st.sampled_from(["template", "template", "self"]))
        item["change_after_save"] = draw(st.booleans())
        item["save_move"] = draw(st.sampled_from([None, None, "cpu"]))
        item["load_move"] = draw(st.sampled_from([None, None, "cpu"]))
        items.append(item)
    return {"items": items}


def _run_items(case, run_item):
    labels, n_nt = [], 0
    for item in case["items"]:
        lab, nt = run_item(item)
        labels += lab
        n_nt += bool(nt)
    labels.append("items:%d" % len(case["items"]))
    return Outcome(labels=labels, nontrivial=2 * n_nt >= len(case["items"]))


def _check_restored(tag, restored, original_type, saved, outs, case):
    check(type(restored) is original_type, f"{tag}.type",
          f"{type(restored).__name__} != {original_type.__name__}")
    got = state_bytes(restored)
    check(got == saved, f"{tag}.state_bytes",
          lambda: f"arch {case['spec']['arch']}: variables differ from the saved bytes: {diff_states(saved, got)[:6]}")
    o = P.module_outputs(restored, case["spec"], case["input_seed"], case["batch"])
    check(not P.diff_outputs(outs, o), f"{tag}.outputs",
          lambda: f"arch {case['spec']['arch']}: outputs differ: {P.diff_outputs(outs, o)}")


def _nontrivial_template(saved, template):
    t = state_bytes(template)
    return set(t) == set(saved) and all(t[k] != saved[k] for k in saved)


def run_pickle(case):
    return _run_items(case, _run_pickle_item)


def _run_pickle_item(case):
    from flax import nnx

    from rl_blox.util.serialize import load_pickle, save_pickle

    spec = case["spec"]
    with P.fresh_dir() as d, P.quiet():
        m = P.build_module(spec, case["seed"], 0)
        P.set_state(m, case["state_seed"], case["scale"], case["specials"])
        saved = state_bytes(m)
        outs = P.module_outputs(m, spec, case["input_seed"], case["batch"])
        fn = os.path.join(d, "module.pkl")
        save_pickle(fn, m, move_to_device=case["save_move"])
        now = state_bytes(m)
        check(now == saved, "pickle.save.changes_original", lambda: f"{diff_states(saved, now)[:6]}")
        nt = True
        if case["graphdef_from"] == "template":
            t = P.build_module(spec, case["template_seed"], 1)
            nt = _nontrivial_template(saved, t)
            graphdef = nnx.graphdef(t)
        else:
            graphdef = nnx.graphdef(m)
            nt = bool(case["change_after_save"])
        if case["change_after_save"]:
            P.set_state(m, case["state_seed"] + 1, 1.0, [])
        r = load_pickle(fn, graphdef, move_to_device=case["load_move"])
        _check_restored("pickle.load", r, type(m), saved, outs, case)
        # the reloaded module is independent of the live one
        live = state_bytes(m)
        P.set_state(r, case["state_seed"] + 2, 1.0, [])
        live2 = state_bytes(m)
        check(live == live2, "pickle.load.aliases_original", lambda: f"{diff_states(live, live2)[:6]}")
    labels = ["arch:" + spec["arch"], "graphdef:" + case["graphdef_from"],
              "move:%s/%s" % (case["save_move"], case["load_move"]),
              "specials" if case["specials"] else "no-specials", "scale:%g" % case["scale"]]
    return labels, nt


@st.composite
def checkpoint_cases(draw):
    """One case = checkpoints of every architecture (see pickle_cases)."""
    items = []
    for arch in P.ARCHS:
        item = draw(_module_base(arch))
        item["logger"] = draw(st.sampled_from(["orbax", "standard"]))
        item["interval"] = draw(st.sampled_from([1, 2, 1, 3]))
        item["n_saves"] = draw(st.sampled_from([1, 1, 2, 1]))
        item["reader"] = draw(st.sampled_from(["restore_checkpoint", "orbax_restore", "both",
                                               "orbax_restore", "restore_checkpoint"]))
        item["define_experiment"] = draw(st.booleans())
        item["in_list"] = draw(st.booleans())
        item["key"] = draw(st.sampled_from(["q", "policy", "dynamics_model", "policy_with_encoder"]))
        # a second training call with the same logger: its step counter starts again at 1 (same key)
        item["second_run"] = draw(st.sampled_from([True, False]))
        items.append(item)
    return {"items": items}


def run_checkpoint(case):
    return _run_items(case, _run_checkpoint_item)


def _run_checkpoint_item(case):
    from rl_blox.logging.checkpointer import OrbaxCheckpointer
    from rl_blox.logging.logger import LoggerList, MemoryLogger, StandardLogger

    spec, key, interval = case["spec"], case["key"], case["interval"]
    with P.fresh_dir() as d, P.quiet():
        m = P.build_module(spec, case["seed"], 0)
        ckdir = os.path.join(d, "checkpoints")
        writer = (OrbaxCheckpointer(checkpoint_dir=ckdir, verbose=0) if case["logger"] == "orbax"
                  else StandardLogger(checkpoint_dir=ckdir, verbose=0))
        logger = LoggerList([MemoryLogger(), writer]) if case["in_list"] else writer
        if case["define_experiment"]:
            logger.define_experiment("Env-v0", "algo", {})
        logger.define_checkpoint_frequency(key, interval)
        snaps, outs = [], []
        k = 0
        for s in range(case["n_saves"]):
            # the record that writes the checkpoint is the interval-th one;
            # the module changes before every record
            for j in range(interval):
                k += 1
                P.set_state(m, case["state_seed"] + k, case["scale"], case["specials"] if j == interval - 1 else [])
                if case["logger"] == "orbax":
                    logger.record_epoch(key, m, step=k)
                else:
                    logger.record_epoch(key, m)
            snaps.append(state_bytes(m))
            outs.append(P.module_outputs(m, spec, case["input_seed"], case["batch"]))
            check(state_bytes(m) == snaps[-1], "checkpoint.save.changes_original", "")
        n1 = len(writer.checkpoint_path[key])
        check(n1 == case["n_saves"], f"checkpoint.{case['logger']}.count",
              f"{n1} checkpoints listed after {case['n_saves']} interval crossings (interval {interval})")
        if case.get("second_run"):
            # the same logger serves a second training call: steps are counted from 1 again.  Which of its
            # records write a checkpoint is the cadence rule (C20); here every path that gets listed is
            # remembered together with the module as it was at that record
            for k2 in range(1, interval * case["n_saves"] + 2):
                P.set_state(m, case["state_seed"] + 500 + k2, case["scale"], [])
                before = len(writer.checkpoint_path[key])
                if case["logger"] == "orbax":
                    logger.record_epoch(key, m, step=k2)
                else:
                    logger.record_epoch(key, m)
                if len(writer.checkpoint_path[key]) > before:
                    snaps.append(state_bytes(m))
                    outs.append(P.module_outputs(m, spec, case["input_seed"], case["batch"]))
        # the live module moves on after the last save
        P.set_state(m, case["state_seed"] + 1000, 1.0, [])
        paths = list(writer.checkpoint_path[key])
        check(len(paths) == len(snaps), f"checkpoint.{case['logger']}.listed_once_per_save",
              f"{len(paths)} paths listed for {len(snaps)} records that added a path")
        nt = True
        for i, (path, saved, out) in enumerate(zip(paths, snaps, outs)):
            check(os.path.isdir(path), f"checkpoint.{case['logger']}.path_exists", path)
            for how, restore in (("restore_checkpoint", P.restore_with_helper),
                                 ("orbax_restore", P.restore_with_orbax)):
                if case["reader"] not in (how, "both"):
                    continue  # bounded I/O: the reader is part of the case
                t = P.build_module(spec, case["template_seed"] + i, 1)
                nt = nt and _nontrivial_template(saved, t)
                tag = f"checkpoint.{case['logger']}.{how}"
                try:
                    r = restore(path, t)
                except Exception as e:  # noqa: BLE001 - a listed path must be restorable
                    check(False, f"{tag}.fails", f"arch {spec['arch']}: {type(e).__name__}: {str(e)[:300]}")
                    continue
                _check_restored(tag, r, type(m), saved, out, case)
    labels = ["arch:" + spec["arch"], "logger:" + case["logger"], "saves:%d" % case["n_saves"],
              "second-run:%d-more-checkpoints" % (len(paths) - n1) if case.get("second_run") else "single-run",
              "interval:%d" % interval, "in-list" if case["in_list"] else "direct", "reader:" + case["reader"]]
    return labels, nt


def simplify_module(case):
    """Smaller candidate cases for the greedy minimiser (module cases cost
    seconds, so Hypothesis' shrink phase is off for them): first a single
    architecture, then simpler settings of that item."""
    items = case["items"]
    if len(items) > 1:
        for it in items:
            yield {"items": [it]}
        return
    item = items[0]

    def variant(**kw):
        c = dict(item)
        spec = dict(item["spec"])
        for k, v in kw.items():
            if k in spec:
                spec[k] = v
            else:
                c[k] = v
        c["spec"] = spec
        return {"items": [c]}

    if item["specials"]:
        yield variant(specials=[])
    if item["scale"] != 1.0:
        yield variant(scale=1.0)
    if item["spec"]["hidden"]:
        yield variant(hidden=[])
    if item.get("reader") == "both":
        yield variant(reader="restore_checkpoint")
        yield variant(reader="orbax_restore")
    for k, v in (("n_saves", 1), ("interval", 1), ("in_list", False), ("define_experiment", False),
                 ("change_after_save", False), ("second_run", False), ("save_move", None), ("load_move", None), ("batch", 3)):
        if k in item and item[k] != v:
            yield variant(**{k: v})
    if item["spec"]["flag"]:
        yield variant(flag=False)
    for k in ("seed", "template_seed", "state_seed", "input_seed"):
        if item[k] > 3:
            yield variant(**{k: item[k] % 3})


SUBCHECKS = [
    SubCheck("buffer_uniform", buffer_cases(["ReplayBuffer"]), run_buffer, quick=160, thorough=2400,
             rule="save on a wrapped buffer; continuation adds and samples"),
    SubCheck("buffer_prioritized", buffer_cases(["LAP", "PrioritizedReplayBuffer"]), run_buffer,
             quick=260, thorough=4000,
             rule="save on a wrapped buffer with non-uniform priorities; continuation adds and samples"),
    SubCheck("buffer_subtrajectory", buffer_cases(SUBTRAJ), run_buffer, quick=260, thorough=4000,
             rule="save on a wrapped buffer mid-episode (PER: with non-uniform priorities); continuation adds "
                  "and samples"),
    SubCheck("buffer_multitask", buffer_cases(["MultiTaskReplayBuffer"]), run_buffer, quick=260, thorough=4000,
             rule="as for the base class, on at least one wrapped task buffer, with >= 2 active task buffers"),
    SubCheck("module_pickle", pickle_cases, run_pickle, quick=8, thorough=64, shards=2, cost=400.0,
             suppress_too_slow=True, shrink=False, simplify=simplify_module,
             rule="one case = a round trip of each of the 17 architectures; non-trivial if at least half of them are "
                  "loaded into a template graph whose variables all differ, or the live module changed after the save"),
    SubCheck("module_checkpoint", checkpoint_cases, run_checkpoint, quick=6, thorough=48, shards=2, cost=800.0,
             suppress_too_slow=True, shrink=False, simplify=simplify_module,
             rule="one case = 1-2 checkpoints of each of the 17 architectures, each restored by both readers into a "
                  "template whose variables all differ from the saved bytes"),
]
