"""C01 Stored experience equals what the environment actually produced; the
policy / planner acts on the current observation.  DESIGN.md §5 C01.

Every case is a complete training (or collection) history on a scripted,
recording environment: (routine, episode script, config).  Oracles:

(a) stored = produced.  What the routine keeps for learning -- the k-th
    ``add_sample`` seen by a BufferProxy, EpisodeDataset episodes and the
    per-sample arrays built from them (prepare_policy_gradient_dataset; the
    arguments train_reinforce / train_ac hand to their update callables), A2C
    rollout rows, PPO env-major arrays, the arguments of the tabular update
    functions -- must equal the transition implied by the environment log: the
    observation returned by the most recent reset/step before the k-th step,
    the action passed to that step and the reward / successor / flags it
    returned.  The first transition after a reset must carry the reset
    observation.  For plain / LAP / PER buffers the final buffer arrays must
    equal a ring of the last N log transitions.
(b) acting on the current observation.  With probe networks (output reveals
    the input, zero learning rate, no exploration noise) every action that was
    not drawn from the action space decodes to the tag of the current
    observation.  For the DQN family and PETS the observation argument of the
    module-level ``greedy_policy`` / ``mpc_action`` (wrapped from the test
    side) is compared with the environment's current observation.
(c) sampled = produced (MR.Q, sub-check ``mrq_default_buffer``).  ``train_mrq``
    is run with ``replay_buffer=None`` so that it builds its own subtrajectory
    buffer; the class it instantiates (``rl_blox.algorithm.mrq.
    SubtrajectoryReplayBufferPER``) is replaced from the test side by a
    recording subclass for the duration of the call.  Every batch the routine
    samples (encoder updates: per-step view; critic updates: reduced view) is
    decoded through the self-describing observations and compared with the
    environment log: up to and including its first terminated row a window
    consists of consecutive steps of one episode, in order, none of them
    truncated, each row carrying the action / reward / successor / flags of
    that very step.
"""
from __future__ import annotations

import copy

import numpy as np
from hypothesis import strategies as st

from vlib import gen
from vlib import routines as R
from vlib.core import HarnessError, Outcome, SubCheck, report

PROPERTY = "C01"
RULE = (
    "A case is (routine, episode script(s), config: budget, learning_starts, batch size, buffer capacity, "
    "seeds, probe on/off, logger on/off), expanded deterministically from a drawn integer by the builders in "
    "this module (scripts of 1-12 step episodes ending terminated/truncated, constructed so that an episode "
    "ends inside the warm-up and another after it; capacities below the number of additions in about half of "
    "the cases). mrq_default_buffer: (encoder_horizon, q_horizon) pairs from {1..5} x {1..6} (q_horizon >= "
    "encoder_horizon + 3 in ~45% of the cases, encoder_horizon > q_horizon in ~20%), mostly truncation-ended "
    "episodes of 1-12 steps (shorter and longer than both horizons), train_mrq building its own buffer; "
    "non-trivial when encoder and critic batches were sampled after >= 2 stored episode ends of which >= 1 "
    "was a truncation. Off-policy and tabular histories are non-trivial when the executed history contains >= 2 "
    "episode boundaries that are followed by a further stored transition, of which >= 1 lies after the warm-up; "
    "episodic collectors (scripts start with a terminated and a truncated episode of together fewer steps than "
    "the collection size, gamma from {1, 0.9, 0.5}) when >= 3 episodes were stored and a collected dataset holds "
    ">= 3 episodes (train_after_episode, ~15-20%: >= 3 one-episode datasets); vector collectors when >= 2 sub-environment episode "
    "ends are followed by a further stored row. Distinct = distinct (routine, script, warm-up, capacity / "
    "collection size, start step)."
)
ASSUMPTIONS = [
    "ScriptedEnv / ScriptedTabularEnv dynamics ignore the action; observations are unique per (episode, t)",
    "a quarter of the single scripted environments return float64 observations whose payload float32 cannot "
    "represent; what a routine keeps in float64 must equal the environment's value exactly, what it keeps in a "
    "narrower float type (float32 rollout arrays, network inputs) must equal the value cast to that type",
    "module-level callables (greedy_policy, mpc_action, sample_trajectories, collect_trajectories, update_ppo, "
    "train_policy_reinforce, train_policy_actor_critic, train_value_function, tabular update functions) are "
    "wrapped from the test side to observe their arguments; the wrapped original is always called",
    "episodic collectors: what is kept for learning = EpisodeDataset.episodes, the arrays of "
    "EpisodeDataset.prepare_policy_gradient_dataset (called from the test side on every collected dataset) and "
    "the arrays train_reinforce / train_ac pass to their update callables; returns are compared with the float64 "
    "discounted reward-to-go of the logged rewards within 8 float32 eps of the episode's absolute reward sum, "
    "per-step discounts within 1e-5 relative, everything else exactly",
    "probe cases: optax.sgd(0.0) optimizers, exploration noise 0, SAC/Gaussian heads at the lower std clip "
    "exp(-20); probe parameters are verified byte-identical after the run",
    "MR.Q scripts end every episode of <= 2 steps by termination and capacities are >= 12 (subtrajectory "
    "buffer domain); PETS learning_starts >= 4",
    "action boxes have |bias| <= 1.5 * half-range so tanh-probe tags stay decodable in float32",
    "mrq_default_buffer: the window clauses are applied to the prefix of each sampled window up to and including "
    "its first terminated row (what the learning signals use, C07); a batch is only examined when an admissible "
    "start existed at the moment of sampling (priority * mask_ is read for this precondition only); scripts are "
    "constructed so that one exists when learning starts",
]

QUICK = gen.tier() == "quick"


# ---------------------------------------------------------------------------
# clause collector: one report per failure signature and case

class Clauses:
    def __init__(self):
        self.failed = {}

    def expect(self, cond, key, detail=""):
        if not cond and key not in self.failed:
            self.failed[key] = detail() if callable(detail) else detail

    def flush(self):
        for key, detail in self.failed.items():
            report(key, detail)


def _eq(a, b):
    """Exact numeric equality of two array-likes (dtype and trailing shape of
    size-1 ignored)."""
    a = np.asarray(a)
    b = np.asarray(b)
    if a.size != b.size:
        return False
    if a.dtype != b.dtype and a.dtype.kind == "f" and b.dtype.kind == "f":
        # one side is kept in a narrower float type (float32 rollout arrays / network inputs of float64
        # observations): equality up to that storage type.  Two float64 values must agree exactly.
        narrow = a.dtype if a.dtype.itemsize < b.dtype.itemsize else b.dtype
        a, b = a.astype(narrow), b.astype(narrow)
    return bool(np.array_equal(a.reshape(-1).astype(np.float64), b.reshape(-1).astype(np.float64)))


def _where(obs):
    try:
        return "(episode %d, t %d)" % (int(round(float(np.asarray(obs)[0]))), int(round(float(np.asarray(obs)[1]))))
    except Exception:  # noqa: BLE001
        return repr(obs)


def history(log, env_id=0):
    """Transitions implied by the env log, with ``after_reset`` flags."""
    out = []
    cur = None
    fresh = False
    for e in log.events:
        if e.get("env", 0) != env_id:
            continue
        if e["kind"] == "reset":
            cur = e["obs"]
            fresh = True
        else:
            out.append({"observation": cur, "action": e["action"], "reward": e["reward"],
                        "next_observation": e["obs"], "terminated": e["terminated"], "truncated": e["truncated"],
                        "after_reset": fresh, "episode": e["episode"], "t": e["t"]})
            cur = e["obs"]
            fresh = False
    return out


def _boundaries(tr):
    """Indices k such that step k ended an episode and a further step k+1 was stored."""
    return [k for k in range(len(tr) - 1) if tr[k]["terminated"] or tr[k]["truncated"]]


def _history_labels(tr, warm):
    labs = []
    ends = [k for k, t in enumerate(tr) if t["terminated"] or t["truncated"]]
    lens = np.diff([-1] + ends)
    if any(l == 1 for l in lens):
        labs.append("has-1-step-episode")
    if any(ends[i + 1] == ends[i] + 1 for i in range(len(ends) - 1)):
        labs.append("back-to-back-ends")
    if any(t["terminated"] for t in tr) and any(t["truncated"] for t in tr):
        labs.append("term-and-trunc")
    if warm - 1 in ends:
        labs.append("episode-ends-at-warmup-edge")
    if ends and ends[-1] == len(tr) - 1:
        labs.append("budget-ends-at-episode-end")
    elif tr:
        labs.append("budget-ends-mid-episode")
    return labs


# ---------------------------------------------------------------------------
# generators (construct, do not filter): a drawn integer is expanded into the
# explicit case by a numpy generator; the case itself is what is saved

BOXES = [([-1.0], [1.0]), ([-2.0], [0.5]), ([0.0], [3.0]), ([-1.0, -0.5], [1.0, 2.0])]


def _script(r, total, first_max=None, lens=(1, 1, 2, 2, 3, 3, 4, 5, 6, 8, 12), style=None, short_term=0):
    style = style or r.choice(["mixed", "mixed", "mixed", "term", "trunc"])
    out, n = [], 0
    while n < total:
        l = int(r.choice(lens))
        if not out and first_max is not None:
            l = int(r.integers(1, max(1, min(first_max, 6)) + 1))
        # "both": terminated and truncated returned by the same step (TimeLimit expiring on a terminating step)
        end = {"term": "term", "trunc": "trunc"}.get(style) or str(r.choice(["term", "trunc", "term", "trunc", "both"]))
        if l <= short_term:
            end = "term"
        out.append([l, end])
        n += l
    return out


def _env_cfg(r, name, discrete=None):
    cfg = {"script_seed": int(r.integers(0, 10_000)), "space_seed": int(r.integers(0, 10_000)),
           "obs_dim": 3 if QUICK or r.random() < 0.6 else 4}
    # a quarter of the environments return float64 observations that float32 cannot represent
    cfg["obs64"] = bool(cfg["script_seed"] % 4 == 0)
    if discrete is None:
        discrete = name in R.DQN_FAMILY
    if discrete:
        cfg["n_actions"] = int(r.choice([2, 3, 3, 5]))
        if name not in R.DQN_FAMILY:
            cfg["discrete"] = True
    else:
        lo, hi = BOXES[int(r.integers(0, 3 if QUICK and r.random() < 0.8 else len(BOXES)))]
        cfg["act_low"], cfg["act_high"] = list(lo), list(hi)
    return cfg


def build_offpolicy(name, seed):
    r = np.random.default_rng([int(seed), sum(map(ord, name))])
    small = name in ("pets",)
    if small:
        T = int(r.choice([16, 24, 32])) if QUICK else int(r.integers(16, 37))
        L = int(r.integers(4, 10))
        lens = (1, 1, 2, 2, 3, 4, 5)
    else:
        # quick tier: budgets from a small pool (array shapes depend on the budget: XLA recompilation)
        T = int(r.choice([28, 36, 48, 60])) if QUICK else int(r.integers(26, 121))
        L = int(r.integers(3, T // 2))
        lens = (1, 1, 2, 2, 3, 3, 4, 5, 6, 8, 12)
    has_g0 = name not in ("pets", "mrq") and r.random() < 0.25
    g0 = int(r.integers(1, 8)) if has_g0 else 0
    if name == "dqn":
        L = 0
    n_exec = T - g0
    warm = max(0, L - g0)
    script = _script(r, n_exec + 12, first_max=max(1, warm - 1) if warm >= 2 else 2, lens=lens,
                     short_term=2 if name == "mrq" else 0)
    cfg = {"total_timesteps": T, "batch_size": int(r.choice([2, 3, 4])), "seed": int(r.integers(0, 1000)),
           "net_seed": int(r.integers(0, 1000)), "probe": bool(r.random() < 0.6)}
    if name != "dqn":
        cfg["learning_starts"] = L
    if g0:
        cfg["global_step"] = g0
    u = r.random()
    min_cap = 12 if name == "mrq" else 3
    if u < 0.55:
        cap = int(r.integers(min_cap, max(min_cap + 1, n_exec // 2)))
    elif u < 0.7:
        cap = max(min_cap, n_exec)
    else:
        cap = n_exec + int(r.integers(1, 9))
    cfg["buffer_size"] = cap
    if name in ("nature_dqn", "ddqn", "ddqn_per"):
        cfg["update_frequency"] = int(r.choice([1, 2, 4]))
        cfg["target_update_frequency"] = int(r.choice([1, 3, 10]))
    if name in ("ddpg", "td3", "td3_lap"):
        cfg["tau"] = float(r.choice([0.005, 0.3, 1.0]))
        cfg["gradient_steps"] = int(r.choice([1, 1, 2]))
    if name in ("td3", "td3_lap", "sac", "td7"):
        cfg["policy_delay"] = int(r.choice([1, 2, 3]))
    if name == "sac":
        cfg["target_network_delay"] = int(r.choice([1, 2]))
        cfg["autotune"] = bool(r.random() < 0.5) and not cfg["probe"]
    if name == "td7":
        cfg["target_delay"] = int(r.choice([2, 5]))
        cfg["use_checkpoints"] = bool(r.random() < 0.5)
        cfg["max_episodes_when_checkpointing"] = 2
        cfg["steps_before_checkpointing"] = int(r.choice([5, 1000]))
    if name == "mrq":
        cfg["target_delay"] = int(r.choice([2, 3]))
        cfg["encoder_horizon"] = 2
        cfg["q_horizon"] = int(r.choice([1, 2]))
    if name == "pets":
        cfg["n_steps_per_iteration"] = int(r.choice([5, 9]))
        cfg["probe"] = False
    return {"routine": name, "gen_seed": int(seed), "env": {"script": script, **_env_cfg(r, name)}, "cfg": cfg,
            "logger": bool(r.random() < 0.4)}


MRQ_HORIZONS = {
    # (encoder_horizon, q_horizon)
    "q>=enc+3": [(1, 4), (1, 5), (1, 6), (2, 5), (2, 6), (3, 6)],
    "q=enc+1..2": [(1, 2), (1, 3), (2, 3), (2, 4), (3, 4), (3, 5)],
    "enc>q": [(2, 1), (3, 1), (3, 2), (5, 3), (4, 1), (5, 1), (5, 2)],  # (5, 3) is the library default
    "enc=q": [(1, 1), (2, 2), (3, 3)],
}


def build_mrq_default(name, seed):
    """train_mrq with its own (default) replay buffer: horizons, truncation-heavy scripts, small budgets."""
    r = np.random.default_rng([int(seed), sum(map(ord, name))])
    u = r.random()
    regime = "q>=enc+3" if u < 0.45 else "q=enc+1..2" if u < 0.6 else "enc>q" if u < 0.8 else "enc=q"
    pool = MRQ_HORIZONS[regime]
    eh, qh = (int(x) for x in pool[int(r.integers(0, len(pool)))])
    H = max(eh, qh)
    T = int(r.choice([40, 56, 72])) if QUICK else int(r.integers(40, 81))
    style = str(r.choice(["trunc", "trunc", "mixed", "mixed", "mixed"]))

    def end():
        if style == "trunc":
            return "trunc"
        return str(r.choice(["trunc", "trunc", "trunc", "term", "term", "both"]))

    # an admissible start must exist when learning starts: either a first episode of more than H + 1 steps
    # (starts are released while it is still running) or a terminated first episode
    if r.random() < 0.6:
        first = [H + 2 + int(r.integers(0, 3)), end()]
        base = H + 2
    else:
        first = [int(r.integers(1, 4)), "term"]
        base = first[0]
    L = base + int(r.integers(0, 7))
    lens = (1, 2, 2, 3, 3, 4, 5, 6, 7, 9, 12)
    script, n = [first], first[0]
    while n < T + 12:
        l = int(r.choice(lens))
        script.append([l, end()])
        n += l
    # a truncated episode longer than every horizon and one shorter than H early after the warm-up
    script[1] = [min(12, H + 2 + int(r.integers(0, 3))), "trunc"]
    script[2] = [int(r.integers(1, H + 1)), "trunc"]
    if r.random() < 0.75:
        cap = 2 * T + 8  # every stored step and every episode-end row fits
    else:
        lo = max(12, 2 * H + 4)
        cap = int(r.integers(lo, max(lo + 1, T // 2)))
    cfg = {"total_timesteps": T, "learning_starts": L, "batch_size": int(r.choice([2, 3, 4])),
           "seed": int(r.integers(0, 1000)), "net_seed": int(r.integers(0, 1000)), "probe": False,
           "target_delay": int(r.choice([2, 3])), "encoder_horizon": eh, "q_horizon": qh, "buffer_size": cap}
    return {"routine": name, "gen_seed": int(seed), "env": {"script": script, **_env_cfg(r, "mrq")}, "cfg": cfg}


GAMMAS = (1.0, 0.9, 0.5)


def _multi_episode_prefix(r, size):
    """Two short episodes of together fewer than ``size`` steps, one ended by termination and one by
    truncation (random order; sometimes terminated and truncated together): a collection of >= ``size``
    samples that starts with them holds >= 3 episodes and has both kinds of episode end in its interior."""
    l1 = int(r.integers(1, min(4, size - 3) + 1))
    l2 = int(r.integers(1, min(4, size - 1 - l1) + 1))
    ends = ["term", "trunc"] if r.random() < 0.5 else ["trunc", "term"]
    if r.random() < 0.2:
        ends[int(r.integers(0, 2))] = "both"
    return [[l1, ends[0]], [l2, ends[1]]]


def build_episodic(name, seed):
    r = np.random.default_rng([int(seed), sum(map(ord, name))])
    discrete = bool(r.random() < 0.5)
    cfg = {"seed": int(r.integers(0, 1000)), "net_seed": int(r.integers(0, 1000)), "probe": bool(r.random() < 0.6)}
    if name == "sample_trajectories":
        cfg["total_steps"] = int(r.integers(5, 25))
        cfg["train_after_episode"] = bool(r.random() < 0.2)
        cfg["n_calls"] = 3 if cfg["train_after_episode"] else int(r.integers(1, 4))
        total = (cfg["total_steps"] + 8) * cfg["n_calls"]
        size = cfg["total_steps"]
    else:
        cfg["steps_per_update"] = int(r.integers(5, 14))
        cfg["total_timesteps"] = int(cfg["steps_per_update"] * r.integers(2, 4) - r.integers(0, 3))
        cfg["train_after_episode"] = bool(r.random() < 0.15)
        if cfg["train_after_episode"]:
            cfg["total_timesteps"] = int(r.integers(7, 13))
        total = cfg["total_timesteps"] + 40
        size = cfg["steps_per_update"]
    # discount used for the prepared learning arrays (returns, per-step discounts)
    cfg["gamma"] = float(GAMMAS[int(r.integers(0, len(GAMMAS)))])
    # a collection of a single sample makes the value loss raise (batch size 1, outside this property):
    # one-episode collections use episodes of >= 2 steps
    lens = (2, 2, 3, 4) if cfg["train_after_episode"] else (1, 1, 2, 2, 3, 4, 5, 7)
    script = _script(r, total + 12, lens=lens)
    if not cfg["train_after_episode"]:
        # the first collection holds >= 3 episodes (multi-episode datasets are what the learner is fed)
        script = _multi_episode_prefix(r, size) + script
    return {"routine": name, "gen_seed": int(seed), "env": {"script": script, **_env_cfg(r, name, discrete)},
            "cfg": cfg, "logger": bool(r.random() < 0.4)}


def build_vector(name, seed):
    r = np.random.default_rng([int(seed), sum(map(ord, name))])
    discrete = bool(r.random() < 0.5)
    n_envs = int(r.choice([2, 3]))
    cfg = {"seed": int(r.integers(0, 1000)), "net_seed": int(r.integers(0, 1000)), "probe": bool(r.random() < 0.6)}
    via = "train" if r.random() < 0.5 else "collect"
    if name == "a2c":
        S = int(r.choice([2, 3, 5]))
        n_calls = int(r.integers(2, 5))
        cfg["steps_per_update"] = S
        cfg["n_calls"] = n_calls
        cfg["total_timesteps"] = n_calls * S * n_envs - int(r.integers(0, S * n_envs))
    else:
        S = int(r.choice([3, 5, 8]))
        n_calls = int(r.integers(2, 4))
        cfg["batch_size"] = S
        cfg["n_calls"] = n_calls
        cfg["iterations"] = n_calls
        cfg["episode_stats"] = bool(r.random() < 0.6)
    scripts = [_script(r, S * n_calls + 12, lens=(1, 1, 2, 2, 3, 4, 5)) for _ in range(n_envs)]
    env = _env_cfg(r, name, discrete)
    env.pop("discrete", None)
    env["scripts"] = scripts
    return {"routine": name, "via": via, "gen_seed": int(seed), "env": env, "cfg": cfg,
            "logger": bool(r.random() < 0.5)}


def build_tabular(name, seed):
    r = np.random.default_rng([int(seed), sum(map(ord, name))])
    T = int(r.integers(20, 50 if QUICK else 100))
    probe = bool(r.random() < 0.5)
    cfg = {"total_timesteps": T, "seed": int(r.integers(0, 1000)), "net_seed": int(r.integers(0, 1000)),
           "probe": probe, "epsilon": float(r.choice([0.0, 0.3, 1.0])), "gamma": float(r.choice([0.9, 0.99, 1.0]))}
    if name != "monte_carlo":
        cfg["learning_rate"] = float(r.choice([0.1, 0.5, 1.0]))
    if name == "dynaq":
        cfg["n_planning_steps"] = int(r.choice([0, 1, 2]))
        cfg["buffer_size"] = int(r.choice([3, 7, 1000]))
    env = {"script": _script(r, T + 12, lens=(1, 1, 2, 2, 3, 4, 5, 7)), "script_seed": int(r.integers(0, 10_000)),
           "space_seed": int(r.integers(0, 10_000)), "n_states": int(r.choice([4, 6])),
           "n_actions": int(r.choice([2, 3]))}
    return {"routine": name, "gen_seed": int(seed), "env": env, "cfg": cfg}


def _strategy(builder, name):
    def s():
        return gen.seeds().map(lambda z: builder(name, z))
    return s


# ---------------------------------------------------------------------------
# simplifiers (greedy minimiser candidates, smaller first)

def _set(case, path, value):
    c = copy.deepcopy(case)
    d = c
    for p in path[:-1]:
        d = d[p]
    d[path[-1]] = value
    return c


def simplify_history(case):
    cfg = case["cfg"]
    if case.get("logger"):
        yield _set(case, ["logger"], False)
    for key, lo in (("total_timesteps", 4), ("total_steps", 2), ("n_calls", 1), ("iterations", 1)):
        if key in cfg:
            v = cfg[key]
            for nv in (v // 2, v - 4, v - 1):
                if lo <= nv < v:
                    c = _set(case, ["cfg", key], nv)
                    if key == "total_timesteps" and "learning_starts" in cfg:
                        c["cfg"]["learning_starts"] = min(cfg["learning_starts"], max(1, nv - 2))
                    yield c
    if cfg.get("global_step"):
        c = _set(case, ["cfg", "global_step"], 0)
        yield c
    if "learning_starts" in cfg:
        v = cfg["learning_starts"]
        lo = 4 if case["routine"] == "pets" else 1
        for nv in (v // 2, v - 1):
            if lo <= nv < v:
                yield _set(case, ["cfg", "learning_starts"], nv)
    if "buffer_size" in cfg and cfg["buffer_size"] < cfg.get("total_timesteps", 0) + 1 and case["routine"] != "dynaq":
        yield _set(case, ["cfg", "buffer_size"], cfg["total_timesteps"] + 1)
    for k in ("gradient_steps", "policy_delay", "update_frequency", "target_update_frequency",
              "target_network_delay"):
        if cfg.get(k, 1) != 1:
            yield _set(case, ["cfg", k], 1)
    if cfg.get("use_checkpoints"):
        yield _set(case, ["cfg", "use_checkpoints"], False)
    scripts = [("env", "script")] if "script" in case["env"] else [("env", "scripts", i)
                                                                   for i in range(len(case["env"]["scripts"]))]
    for path in scripts:
        s = case
        for p in path:
            s = s[p]
        if len(s) > 2:
            yield _set(case, list(path), s[1:])
            yield _set(case, list(path), s[:len(s) // 2 + 1])
        for i, (l, e) in enumerate(s[:6]):
            if l > 1 and not (case["routine"] == "mrq" and e == "trunc" and l <= 3):
                ns = copy.deepcopy(s)
                ns[i][0] = l - 1
                yield _set(case, list(path), ns)


def simplify_mrq_default(case):
    """Few, large reductions (every candidate costs a training run with fresh XLA compilations)."""
    cfg = case["cfg"]
    T, L = cfg["total_timesteps"], cfg["learning_starts"]
    for nt in (max(L + 6, T // 2), max(L + 6, T - 8)):
        if nt < T:
            yield _set(case, ["cfg", "total_timesteps"], nt)
    if cfg["buffer_size"] < 2 * T + 8:
        yield _set(case, ["cfg", "buffer_size"], 2 * T + 8)
    if cfg["batch_size"] > 2:
        yield _set(case, ["cfg", "batch_size"], 2)
    s = case["env"]["script"]
    if len(s) > 4:
        yield _set(case, ["env", "script"], s[:max(4, len(s) // 2)])  # the script is cyclic
    if any(e != "trunc" for _, e in s[1:]):
        yield _set(case, ["env", "script"], [s[0]] + [[l, "trunc"] for l, _ in s[1:]])


# ---------------------------------------------------------------------------
# oracle (a): replay buffers

def _check_adds(C, name, adds, tr, trunc_key=None):
    term_key = "terminated" if trunc_key else "termination"
    want = {"observation", "action", "reward", "next_observation", term_key} | ({trunc_key} if trunc_key else set())
    C.expect(len(adds) == len(tr), f"{name}.stored.count",
             f"{len(adds)} add_sample calls for {len(tr)} environment steps")
    for k, (a, t) in enumerate(zip(adds, tr)):
        if set(a) != want:
            C.expect(False, f"{name}.stored.fields", f"add #{k}: keys {sorted(a)} != {sorted(want)}")
            continue
        where = "after_reset" if t["after_reset"] else "mid_episode"
        C.expect(_eq(a["observation"], t["observation"]), f"{name}.stored.observation.{where}",
                 lambda: f"add #{k}: stored observation {_where(a['observation'])} but the environment's current "
                         f"observation was {_where(t['observation'])} ({where}); successor {_where(t['next_observation'])}")
        C.expect(_eq(a["action"], t["action"]), f"{name}.stored.action",
                 lambda: f"add #{k}: stored action {np.asarray(a['action']).tolist()} but env.step received "
                         f"{np.asarray(t['action']).tolist()}")
        C.expect(_eq(a["reward"], t["reward"]), f"{name}.stored.reward",
                 lambda: f"add #{k}: stored reward {np.asarray(a['reward']).tolist()} but the step returned {t['reward']}")
        C.expect(_eq(a["next_observation"], t["next_observation"]), f"{name}.stored.next_observation",
                 lambda: f"add #{k}: stored successor {_where(a['next_observation'])} but the step returned "
                         f"{_where(t['next_observation'])}")
        C.expect(bool(np.asarray(a[term_key])) == t["terminated"] and np.asarray(a[term_key]).size == 1,
                 f"{name}.stored.termination",
                 lambda: f"add #{k}: stored {term_key}={np.asarray(a[term_key]).tolist()} but the step returned "
                         f"terminated={t['terminated']} truncated={t['truncated']}")
        if trunc_key:
            C.expect(bool(np.asarray(a[trunc_key])) == t["truncated"], f"{name}.stored.truncated",
                     lambda: f"add #{k}: stored truncated={np.asarray(a[trunc_key]).tolist()} but the step returned "
                             f"terminated={t['terminated']} truncated={t['truncated']}")


def _check_ring(C, name, real, tr):
    """Final arrays of a plain/LAP/PER buffer = ring of the last N log transitions."""
    N = int(real.buffer_size)
    n = len(tr)
    C.expect(len(real) == min(n, N), f"{name}.buffer.length", f"len(buffer)={len(real)} after {n} steps, capacity {N}")
    if n == 0 or len(real) != min(n, N):
        return
    fields = {"observation": "observation", "action": "action", "reward": "reward",
              "next_observation": "next_observation", "termination": "terminated"}
    for slot in range(min(n, N)):
        i = slot + ((n - 1 - slot) // N) * N  # latest addition that went to this slot
        for bk, tk in fields.items():
            arr = real.buffer[bk]
            ref = np.asarray(tr[i][tk]).astype(arr.dtype)
            sfx = (".after_reset" if tr[i]["after_reset"] else ".mid_episode") if bk == "observation" else ""
            C.expect(_eq(arr[slot], ref), f"{name}.buffer.final_arrays.{bk}{sfx}",
                     lambda: f"slot {slot} should hold transition #{i} ({bk}={np.asarray(tr[i][tk]).tolist()}), "
                             f"holds {np.asarray(arr[slot]).tolist()}")


def _acting_module(name, state):
    return {"ddpg": "policy", "td3": "policy", "td3_lap": "policy", "sac": "policy", "td7": "actor",
            "mrq": "policy_with_encoder"}.get(name, "q_net" if name in R.DQN_FAMILY else "policy")


def run_offpolicy(case):
    from vlib.instruments import make_snapshot_logger, state_bytes

    name = case["routine"]
    cfg = dict(case["cfg"])
    env, space = R.make_env(name, case["env"])
    logger = make_snapshot_logger(snapshot=False) if case.get("logger") else None
    state = R.build_state(name, env, cfg)
    probe = bool(cfg.get("probe"))
    before = state_bytes(state[_acting_module(name, state)]) if probe else None
    run = R.run_routine(name, env, cfg, logger=logger, state=state)
    if probe and state_bytes(state[_acting_module(name, state)]) != before:
        raise HarnessError(f"{name}: probe network changed during the run (zero learning rate expected)")

    tr = history(run.log)
    C = Clauses()
    _check_adds(C, name, run.buffer.adds, tr, trunc_key="truncated" if name == "mrq" else None)
    if name != "mrq":
        _check_ring(C, name, run.buffer.real, tr)

    # ---- oracle (b)
    sampled = set(space.sample_calls)
    n_checked = n_checked_reset = 0
    for rec in run.extras.get("policy_calls", []):
        k = rec["step"]
        if k >= len(tr):
            continue
        t = tr[k]
        where = "after_reset" if t["after_reset"] else "mid_episode"
        C.expect(_eq(rec["obs"], t["observation"]), f"{name}.acting.policy_input.{where}",
                 lambda: f"step #{k}: the policy/planner was given {_where(rec['obs'])} while the environment's "
                         f"current observation was {_where(t['observation'])} ({where})")
        C.expect(_eq(rec["out"], t["action"]), f"{name}.acting.action_passed",
                 lambda: f"step #{k}: policy returned {np.asarray(rec['out']).tolist()} but env.step received "
                         f"{np.asarray(t['action']).tolist()}")
        n_checked += 1
        n_checked_reset += t["after_reset"]
    if probe:
        for k, t in enumerate(tr):
            if k in sampled:
                continue
            where = "after_reset" if t["after_reset"] else "mid_episode"
            if name in R.DQN_FAMILY:
                got = [int(np.asarray(t["action"]))]
                want = R.obs_dtag(t["observation"], int(case["env"]["n_actions"]))
            else:
                got = R.decode_tanh_action(t["action"], case["env"]["act_low"], case["env"]["act_high"])
                want = R.obs_tag(t["observation"])
            C.expect(all(g == want for g in got), f"{name}.acting.action_decodes.{where}",
                     lambda: f"step #{k}: action {np.asarray(t['action']).tolist()} decodes to tag {got}, the current "
                             f"observation {_where(t['observation'])} has tag {want} ({where})")
            n_checked += 1
            n_checked_reset += t["after_reset"]
    C.flush()

    g0 = int(cfg.get("global_step", 0))
    warm = max(0, int(cfg.get("learning_starts", 0)) - g0)
    b = _boundaries(tr)
    nt = len(b) >= 2 and any(k + 1 >= warm for k in b)
    labels = [name, "obs-float64" if case["env"].get("obs64") else "obs-float32"] + _history_labels(tr, warm)
    if len(run.buffer.adds) > cfg["buffer_size"]:
        labels.append("buffer-wrapped")
    if any(k + 1 < warm for k in b):
        labels.append("boundary-in-warmup")
    labels.append("probe" if probe else "real-networks")
    if case.get("logger"):
        labels.append("logger")
    if g0:
        labels.append("continued-global-step")
    if n_checked_reset:
        labels.append("acting-checked-after-reset")
    if run.log.violations:
        labels.append("stepped-finished-episode")
    return Outcome(labels=labels, nontrivial=nt,
                   fp=[name, case["env"]["script"], cfg.get("learning_starts", 0), cfg["buffer_size"], g0,
                       cfg["total_timesteps"]])


# ---------------------------------------------------------------------------
# oracle (c): what MR.Q samples from the buffer it builds itself

_FIELDS = ("observation", "action", "reward", "next_observation", "terminated", "truncated")


def _recording_buffer_class(orig, store, clock):
    """Subclass of the buffer class train_mrq instantiates; records constructor arguments, additions
    and every sampled batch (as numpy copies), then defers to the original class."""

    class RecordingSubtrajectoryBuffer(orig):
        def __init__(self, *args, **kwargs):
            super().__init__(*args, **kwargs)
            store["buffers"].append(self)
            store["ctor"].append({"args": list(args), "kwargs": dict(kwargs)})

        def add_sample(self, **sample):
            store["adds"].append({k: copy.deepcopy(np.asarray(v)) for k, v in sample.items()})
            return super().add_sample(**sample)

        def sample_batch(self, batch_size, horizon, include_intermediate, rng):
            n = len(self)
            weight = np.asarray(self.priority.priority[:n], dtype=np.float64) * np.asarray(self.mask_[:n])
            batch = super().sample_batch(batch_size, horizon, include_intermediate, rng)
            store["samples"].append({
                "n_steps": int(clock()), "batch_size": int(batch_size), "horizon": int(horizon),
                "inter": bool(include_intermediate), "admissible": bool(n > 0 and np.sum(weight) > 0),
                "arrays": {k: np.array(getattr(batch, k)) for k in _FIELDS},
            })
            return batch

    return RecordingSubtrajectoryBuffer


def _row_text(F, w, r, inter):
    def g(k):
        a = F[k][w]
        if inter or k in ("reward", "terminated", "truncated"):
            a = a[r]
        return np.asarray(a).tolist()
    if inter:
        return (f"obs={_where(F['observation'][w][r])} reward={g('reward')} next={_where(F['next_observation'][w][r])} "
                f"terminated={g('terminated')} truncated={g('truncated')}")
    return f"reward={g('reward')} terminated={g('terminated')} truncated={g('truncated')}"


def _check_sampled_windows(C, name, samples, tr, stats):
    """Every window of every recorded batch against the transitions ``tr`` implied by the env log."""
    index = {(t["episode"], t["t"] - 1): g for g, t in enumerate(tr)}
    ep_len = {}
    for t in tr:
        ep_len[t["episode"]] = max(ep_len.get(t["episode"], 0), t["t"])
    for i, smp in enumerate(samples):
        inter, h, F = smp["inter"], smp["horizon"], smp["arrays"]
        view = "encoder" if inter else "critic"
        pre = f"{name}.{view}.window"
        if not smp["admissible"]:
            stats["skipped_no_admissible_start"] += 1
            continue
        B = smp["batch_size"]
        d, a = np.asarray(tr[0]["observation"]).size, np.asarray(tr[0]["action"]).size
        if inter:
            shapes = {"observation": (B, h, d), "action": (B, h, a), "reward": (B, h),
                      "next_observation": (B, h, d), "terminated": (B, h), "truncated": (B, h)}
        else:
            shapes = {"observation": (B, d), "action": (B, a), "reward": (B, h),
                      "next_observation": (B, d), "terminated": (B, h), "truncated": (B, h)}
        bad = [k for k in _FIELDS if F[k].shape != shapes[k]]
        C.expect(not bad, f"{pre}.shape",
                 lambda: f"batch #{i} (horizon {h}): " + ", ".join(f"{k} {F[k].shape} != {shapes[k]}" for k in bad))
        if bad:
            continue
        stats[view + "_batches"] += 1
        n_now = smp["n_steps"]
        for w in range(B):
            stats[view + "_windows"] += 1
            nz = np.nonzero(F["terminated"][w])[0]
            k = int(nz[0]) if len(nz) else h - 1
            if k < h - 1:
                stats["prefix_cut_by_termination"] += 1
            o0 = F["observation"][w][0] if inter else F["observation"][w]
            try:
                e, t = (int(round(float(o0[0]))), int(round(float(o0[1]))))
            except (ValueError, OverflowError):
                e, t = -1, -1
            g = index.get((e, t))
            ok0 = g is not None and g < n_now and _eq(o0, tr[g]["observation"])
            C.expect(ok0, f"{pre}.start_is_no_environment_step",
                     lambda: f"batch #{i} after {n_now} steps, window {w} (horizon {h}): first observation "
                             f"{np.asarray(o0).tolist()} is not the observation before any executed step")
            if not ok0:
                continue
            where = (f"batch #{i} sampled after {n_now} environment steps, window {w} of horizon {h} starting at "
                     f"step {t} of episode {e} (episode length {ep_len.get(e)}), prefix of {k + 1} row(s)")
            inside = True
            for r in range(k + 1):
                x = tr[g + r] if g + r < n_now else None
                if x is None or x["episode"] != e:
                    what = ("a step that had not been executed yet" if x is None else
                            f"not a step of episode {e} (which ended after {ep_len.get(e)} steps by "
                            f"{'termination' if tr[g + r - 1]['terminated'] else 'truncation'})")
                    C.expect(False, f"{pre}.leaves_episode",
                             lambda: f"{where}: row {r} is {what}: {_row_text(F, w, r, inter)}; the window splices "
                                     f"in data from outside the episode without a terminated flag before it")
                    inside = False
                    break
                C.expect(not x["truncated"], f"{pre}.contains_truncated_step",
                         lambda: f"{where}: row {r} is the truncated step {x['t'] - 1} of episode {e}")
                ref_r = np.float32(x["reward"])
                C.expect(_eq(F["reward"][w][r], ref_r), f"{pre}.reward",
                         lambda: f"{where}: row {r} reward {float(F['reward'][w][r])!r}, step {x['t'] - 1} of episode "
                                 f"{e} returned {float(ref_r)!r}")
                C.expect(bool(F["terminated"][w][r]) == x["terminated"] and bool(F["truncated"][w][r]) == x["truncated"],
                         f"{pre}.flags",
                         lambda: f"{where}: row {r} terminated={int(F['terminated'][w][r])} truncated="
                                 f"{int(F['truncated'][w][r])}, the step returned terminated={x['terminated']} "
                                 f"truncated={x['truncated']}")
                if inter or r == 0:
                    ob = F["observation"][w][r] if inter else F["observation"][w]
                    ac = F["action"][w][r] if inter else F["action"][w]
                    C.expect(_eq(ob, x["observation"]), f"{pre}.observation",
                             lambda: f"{where}: row {r} observation {_where(ob)}, the observation before that step "
                                     f"was {_where(x['observation'])}")
                    C.expect(_eq(ac, np.asarray(x["action"], dtype=np.float32)), f"{pre}.action",
                             lambda: f"{where}: row {r} action {np.asarray(ac).tolist()}, env.step received "
                                     f"{np.asarray(x['action']).tolist()}")
                if inter:
                    C.expect(_eq(F["next_observation"][w][r], x["next_observation"]), f"{pre}.next_observation",
                             lambda: f"{where}: row {r} successor {_where(F['next_observation'][w][r])}, the step "
                                     f"returned {_where(x['next_observation'])}")
            if not inter and inside and k == h - 1:
                # no termination before the last row: the successor the critic bootstraps from is the one
                # returned by the window's last step
                x = tr[g + h - 1]
                C.expect(_eq(F["next_observation"][w], x["next_observation"]), f"{pre}.next_observation",
                         lambda: f"{where}: successor observation {_where(F['next_observation'][w])}, the window's "
                                 f"last step returned {_where(x['next_observation'])}")
            if inside:
                stats[view + "_windows_ok_inside"] += 1


def run_mrq_default(case):
    import rl_blox.algorithm.mrq as mrq_module

    name = case["routine"]
    cfg = dict(case["cfg"], probe=False)
    env, _ = R.make_env("mrq", case["env"])
    state = R.build_state("mrq", env, cfg)
    store = {"buffers": [], "ctor": [], "adds": [], "samples": []}
    attr = "SubtrajectoryReplayBufferPER"
    original = getattr(mrq_module, attr)
    # R.patched restores the attribute in a finally block
    with R.patched(mrq_module, attr, lambda orig: _recording_buffer_class(orig, store, lambda: env.n_steps)):
        result = mrq_module.train_mrq(
            env, state["policy_with_encoder"], state["encoder_optimizer"], state["policy_optimizer"], state["q"],
            state["q_optimizer"], state["the_bins"], seed=int(cfg["seed"]),
            total_timesteps=int(cfg["total_timesteps"]), buffer_size=int(cfg["buffer_size"]),
            target_delay=int(cfg["target_delay"]), batch_size=int(cfg["batch_size"]),
            learning_starts=int(cfg["learning_starts"]), encoder_horizon=int(cfg["encoder_horizon"]),
            q_horizon=int(cfg["q_horizon"]), replay_buffer=None, progress_bar=False)
    if getattr(mrq_module, attr) is not original:
        raise HarnessError("rl_blox.algorithm.mrq.SubtrajectoryReplayBufferPER was not restored")
    if len(store["buffers"]) != 1:
        raise HarnessError(f"train_mrq(replay_buffer=None) instantiated {len(store['buffers'])} buffers through "
                           f"rl_blox.algorithm.mrq.{attr}; the default-buffer path cannot be observed")
    tr = history(env.log)
    eh, qh = int(cfg["encoder_horizon"]), int(cfg["q_horizon"])
    C = Clauses()
    C.expect(any(b is store["buffers"][0] for b in result if not isinstance(b, int | float)),
             f"{name}.returned_buffer", "the returned replay buffer is not the buffer the routine learned from")
    _check_adds(C, name, store["adds"], tr, trunc_key="truncated")
    stats = dict.fromkeys(["encoder_batches", "critic_batches", "encoder_windows", "critic_windows",
                           "encoder_windows_ok_inside", "critic_windows_ok_inside", "prefix_cut_by_termination",
                           "skipped_no_admissible_start"], 0)
    if tr:
        _check_sampled_windows(C, name, store["samples"], tr, stats)
    C.flush()

    H = max(eh, qh)
    ends = [k for k, t in enumerate(tr) if t["terminated"] or t["truncated"]]
    first_sample = min((s["n_steps"] for s in store["samples"] if s["admissible"]), default=None)
    last_sample = max((s["n_steps"] for s in store["samples"] if s["admissible"]), default=-1)
    seen = [k for k in ends if k + 1 < last_sample]  # episode ends stored before the last examined batch
    nt = bool(stats["encoder_batches"] and stats["critic_batches"] and len(seen) >= 2
              and any(tr[k]["truncated"] for k in seen))
    lens = {k: tr[k]["t"] for k in seen}
    labels = [name, "obs-float64" if case["env"].get("obs64") else "obs-float32", "horizons:" + ("q>=enc+3" if qh >= eh + 3 else "q=enc+1..2" if qh > eh else
                                   "enc>=q+3" if eh >= qh + 3 else "enc>q" if eh > qh else "enc=q"),
              "default-buffer-wraps" if len(store["adds"]) + len(ends) > cfg["buffer_size"] else "default-buffer-no-wrap"]
    labels += _history_labels(tr, int(cfg["learning_starts"]))
    if any(tr[k]["truncated"] and lens[k] <= H for k in seen):
        labels.append("truncated-episode-not-longer-than-horizon")
    if any(tr[k]["truncated"] and lens[k] > H + 1 for k in seen):
        labels.append("truncated-episode-longer-than-horizon")
    if any(tr[k]["truncated"] and eh < lens[k] for k in seen) and qh >= eh + 3:
        labels.append("truncated-episode-longer-than-encoder-horizon,q>=enc+3")
    if stats["prefix_cut_by_termination"]:
        labels.append("window-prefix-cut-by-termination")
    if stats["skipped_no_admissible_start"]:
        labels.append("batch-skipped:no-admissible-start")
    if first_sample is not None and any(k + 1 <= first_sample for k in ends):
        labels.append("episode-end-before-first-batch")
    labels.append("windows-examined>=100" if stats["encoder_windows"] + stats["critic_windows"] >= 100
                  else "windows-examined<100")
    return Outcome(labels=labels, nontrivial=nt,
                   fp=[name, case["env"]["script"], eh, qh, cfg["learning_starts"], cfg["buffer_size"],
                       cfg["total_timesteps"], cfg["batch_size"], cfg["target_delay"]])


# ---------------------------------------------------------------------------
# episodic collectors: EpisodeDataset equals the log partitioned at resets

def _partition(log):
    eps, cur, last = [], None, None
    for e in log.events:
        if e["kind"] == "reset":
            if cur:
                eps.append(cur)
            cur, last = [], e["obs"]
        else:
            cur.append({"observation": last, "action": e["action"], "reward": e["reward"],
                        "next_observation": e["obs"]})
            last = e["obs"]
    if cur:
        eps.append(cur)
    return eps


_EPS32 = float(np.finfo(np.float32).eps)


def _check_learning_rows(C, pre, arrays, rows, gamma, what):
    """Arrays a policy-gradient learner is fed (any of observations / actions / next_observations /
    rewards / returns / gamma_discount, one row per collected sample) against the transitions ``rows``
    implied by the environment log for that collection."""
    n = len(rows)
    bad = {k: np.shape(v) for k, v in arrays.items() if np.ndim(v) == 0 or np.shape(v)[0] != n}
    C.expect(not bad, f"{pre}.count",
             lambda: f"{what}: leading dimension of {bad} differs from the {n} environment steps of the collection")
    if bad:
        return
    # reference reward-to-go and within-episode index (float64), episode ends from the log's flags
    ret = np.zeros(n)
    scale = np.zeros(n)
    acc = sc = 0.0
    for k in range(n - 1, -1, -1):
        if rows[k]["terminated"] or rows[k]["truncated"]:
            acc = sc = 0.0
        acc = rows[k]["reward"] + gamma * acc
        sc = abs(rows[k]["reward"]) + sc
        ret[k], scale[k] = acc, sc
    for k, t in enumerate(rows):
        ended = t["terminated"] or t["truncated"]
        pos = f"{what} row {k} = step {t['t'] - 1} of episode {t['episode']}"
        if "observations" in arrays:
            where = "after_reset" if t["after_reset"] else "mid_episode"
            o = arrays["observations"][k]
            C.expect(_eq(o, t["observation"]), f"{pre}.observation.{where}",
                     lambda: f"{pos}: observation {_where(o)}, the environment's current observation was "
                             f"{_where(t['observation'])} ({where})")
        if "actions" in arrays:
            a = arrays["actions"][k]
            C.expect(_eq(a, t["action"]), f"{pre}.action",
                     lambda: f"{pos}: action {np.asarray(a).tolist()}, env.step received "
                             f"{np.asarray(t['action']).tolist()}")
        if "next_observations" in arrays:
            if not ended:
                where = "mid_episode"
            elif k == n - 1:
                where = "last_row"
            else:
                where = "interior_episode_end"
            no = arrays["next_observations"][k]
            C.expect(_eq(no, t["next_observation"]), f"{pre}.next_observation.{where}",
                     lambda: f"{pos} ({where}, terminated={t['terminated']} truncated={t['truncated']}): successor "
                             f"{_where(no)}, that step returned {_where(t['next_observation'])}")
        if "rewards" in arrays:
            rw = arrays["rewards"][k]
            C.expect(_eq(rw, np.float32(t["reward"])), f"{pre}.reward",
                     lambda: f"{pos}: reward {float(rw)!r}, the step returned {t['reward']!r}")
        if "returns" in arrays:
            g = float(arrays["returns"][k])
            C.expect(abs(g - ret[k]) <= 8 * _EPS32 * max(1.0, scale[k]), f"{pre}.returns",
                     lambda: f"{pos}: return {g!r}, the discounted sum (gamma={gamma}) of the rewards the environment "
                             f"returned from this step to the end of its episode is {ret[k]!r}")
        if "gamma_discount" in arrays:
            d = float(arrays["gamma_discount"][k])
            ref = gamma ** (t["t"] - 1)
            C.expect(abs(d - ref) <= 1e-5 * ref, f"{pre}.gamma_discount",
                     lambda: f"{pos}: discount {d!r}, gamma ** (step index in its episode) = {ref!r} (gamma={gamma})")


_PREPARED = ("observations", "actions", "next_observations", "returns", "gamma_discount")


def run_episodic(case):
    from vlib.instruments import make_snapshot_logger, state_bytes

    name = case["routine"]
    cfg = dict(case["cfg"])
    env, space = R.make_env(name, case["env"])
    logger = make_snapshot_logger(snapshot=False) if case.get("logger") else None
    state = R.build_state(name, env, cfg)
    probe = bool(cfg.get("probe"))
    before = state_bytes(state["policy"]) if probe else None
    run = R.run_routine(name, env, cfg, logger=logger, state=state)
    if probe and state_bytes(state["policy"]) != before:
        raise HarnessError(f"{name}: probe policy changed during the run")
    C = Clauses()
    stored = [ep for d in run.extras["datasets"] for ep in d.episodes]
    ref = _partition(run.log)
    C.expect(len(stored) == len(ref), f"{name}.dataset.episode_count",
             f"{len(stored)} stored episodes, the log has {len(ref)} (lengths {[len(e) for e in stored]} vs "
             f"{[len(e) for e in ref]})")
    for i, (se, re_) in enumerate(zip(stored, ref)):
        C.expect(len(se) == len(re_), f"{name}.dataset.episode_length",
                 f"episode {i}: {len(se)} stored samples, {len(re_)} environment steps")
        for j, (s, t) in enumerate(zip(se, re_)):
            o, a, no, rw = s
            where = "after_reset" if j == 0 else "mid_episode"
            C.expect(_eq(o, t["observation"]), f"{name}.dataset.observation.{where}",
                     lambda: f"episode {i} sample {j}: stored observation {_where(o)}, current observation was "
                             f"{_where(t['observation'])}")
            C.expect(_eq(a, t["action"]), f"{name}.dataset.action",
                     lambda: f"episode {i} sample {j}: stored action {np.asarray(a).tolist()}, env received "
                             f"{np.asarray(t['action']).tolist()}")
            C.expect(_eq(no, t["next_observation"]), f"{name}.dataset.next_observation",
                     lambda: f"episode {i} sample {j}: stored successor {_where(no)}, step returned "
                             f"{_where(t['next_observation'])}")
            C.expect(_eq(rw, t["reward"]), f"{name}.dataset.reward",
                     lambda: f"episode {i} sample {j}: stored reward {rw}, step returned {t['reward']}")

    # ---- what the learner is fed: the arrays prepare_policy_gradient_dataset builds from every collected
    # dataset, and the arguments train_reinforce / train_ac hand to their update callables
    tr = history(run.log)
    gamma = float(cfg.get("gamma", 1.0))
    spans = [tuple(x) for x in run.extras["dataset_steps"]]
    if len(spans) != len(run.extras["datasets"]) or any(lo > hi or hi > len(tr) for lo, hi in spans):
        raise HarnessError(f"{name}: collection spans {spans} do not fit {len(run.extras['datasets'])} datasets / "
                           f"{len(tr)} logged steps")
    eps_per_dataset = []
    n_interior = {"terminated": 0, "truncated": 0}
    for i, (d, (lo, hi)) in enumerate(zip(run.extras["datasets"], spans)):
        rows = tr[lo:hi]
        eps_per_dataset.append(sum(1 for t in rows if t["terminated"] or t["truncated"]))
        for t in rows[:-1]:
            for f in n_interior:
                n_interior[f] += bool(t[f])
        out = d.prepare_policy_gradient_dataset(env.action_space, gamma)
        C.expect(len(out) == len(_PREPARED), f"{name}.prepared.arity", f"{len(out)} arrays returned")
        if len(out) != len(_PREPARED):
            continue
        _check_learning_rows(C, f"{name}.prepared", {k: np.array(v) for k, v in zip(_PREPARED, out)}, rows, gamma,
                             f"prepare_policy_gradient_dataset of collection {i} ({eps_per_dataset[-1]} episodes)")
    ups = run.extras.get("update_calls", [])
    if name != "sample_trajectories":
        by_end = {hi: (i, lo) for i, (lo, hi) in enumerate(spans)}
        per_fn = {}
        for u in ups:
            per_fn[u["fn"]] = per_fn.get(u["fn"], 0) + 1
            pre = f"{name}.update_args.{u['fn']}"
            hit = by_end.get(u["n_steps"])
            C.expect(hit is not None, f"{pre}.not_after_a_collection",
                     f"called after {u['n_steps']} environment steps; collections ended after {sorted(by_end)}")
            if hit is None:
                continue
            i, lo = hit
            g = u.get("gamma", gamma)
            C.expect(g == gamma, f"{pre}.gamma", f"gamma={g!r} passed, the routine was given gamma={gamma!r}")
            _check_learning_rows(C, pre, {k: u[k] for k in R._PG_UPDATE_ARRAYS if k in u}, tr[lo:u["n_steps"]], gamma,
                                 f"{u['fn']} after collection {i}")
        want = {"reinforce": ("train_policy_reinforce", "train_value_function"),
                "actor_critic": ("train_policy_actor_critic", "train_value_function")}[name]
        for fn in want:
            C.expect(per_fn.get(fn, 0) == len(spans), f"{name}.update_args.{fn}.count",
                     f"{per_fn.get(fn, 0)} calls for {len(spans)} collections")
    n_dec = 0
    if probe:
        for k, t in enumerate(tr):
            where = "after_reset" if t["after_reset"] else "mid_episode"
            if "n_actions" in case["env"]:
                got, want = [int(np.asarray(t["action"]))], R.obs_dtag(t["observation"], int(case["env"]["n_actions"]))
            else:
                got, want = R.decode_linear_action(t["action"]), R.obs_tag(t["observation"])
            C.expect(all(g == want for g in got), f"{name}.acting.action_decodes.{where}",
                     lambda: f"step #{k}: action {np.asarray(t['action']).tolist()} decodes to {got}, current "
                             f"observation {_where(t['observation'])} has tag {want}")
            n_dec += 1
    C.flush()
    multi = any(n >= 3 for n in eps_per_dataset)
    labels = [name, "probe" if probe else "real-networks", "discrete" if "n_actions" in case["env"] else "continuous",
              "datasets=%d" % min(len(run.extras["datasets"]), 3), "gamma=%g" % gamma,
              "dataset-with>=3-episodes" if multi else "datasets-of<3-episodes"]
    labels += [f"interior-episode-end:{f}" for f, c in n_interior.items() if c]
    if ups:
        labels.append("update-arguments-checked")
    if any(len(e) == 1 for e in ref):
        labels.append("has-1-step-episode")
    if case.get("logger"):
        labels.append("logger")
    # one-episode collections (train_after_episode) cannot hold several episodes: >= 3 collections instead
    nt = len(ref) >= 3 and (multi or bool(cfg.get("train_after_episode")))
    return Outcome(labels=labels, nontrivial=nt,
                   fp=[name, case["env"]["script"], cfg.get("total_steps"), cfg.get("steps_per_update"),
                       cfg.get("total_timesteps"), cfg.get("n_calls")])


# ---------------------------------------------------------------------------
# vector collectors

def _vector_steps(vlog):
    """[(obs_in, step_event, boundary_mask)] for each vector step."""
    out, cur, prev_done = [], None, None
    for e in vlog:
        if e["kind"] == "reset":
            cur = e["obs"]
            prev_done = np.zeros(len(cur), dtype=bool)
        else:
            out.append((cur, e, prev_done))
            cur = e["obs"]
            prev_done = np.logical_or(e["terminated"], e["truncated"])
    return out


def _check_vlog_against_subs(vlog, sublog, n_envs):
    """Harness self-check: the vector-level recorder agrees with the sub-env logs."""
    per = {i: [e for e in sublog.events if e["env"] == i] for i in range(n_envs)}
    pos = dict.fromkeys(range(n_envs), 0)
    for e in vlog:
        for i in range(n_envs):
            if e["kind"] == "reset":
                se = per[i][pos[i]]
                pos[i] += 1
            else:
                se = per[i][pos[i]]
                pos[i] += 1
                if se["kind"] == "step" and (se["terminated"] or se["truncated"]) and pos[i] < len(per[i]) \
                        and per[i][pos[i]]["kind"] == "reset" and not _eq(e["obs"][i], se["obs"]):
                    se = per[i][pos[i]]  # same-step autoreset: vector obs is the reset obs
                    pos[i] += 1
            if not _eq(e["obs"][i], se["obs"]):
                raise HarnessError("vector recorder disagrees with sub-environment log")


def run_vector(case):
    from vlib.instruments import make_snapshot_logger, state_bytes

    name = case["routine"]  # "a2c" | "ppo"
    via = case["via"]
    cfg = dict(case["cfg"])
    envs, sublog, subs = R.make_vector_env(case["env"], "next_step" if name == "a2c" else "same_step")
    n_envs = len(case["env"]["scripts"])
    logger = make_snapshot_logger(snapshot=False) if case.get("logger") else None
    routine = name if via == "train" else name + "_collect"
    state = R.build_state(routine, envs, cfg)
    probe = bool(cfg.get("probe"))
    before = state_bytes(state["policy"]) if probe else None
    try:
        run = R.run_routine(routine, envs, cfg, logger=logger, state=state)
    finally:
        envs.close()
    if probe and state_bytes(state["policy"]) != before:
        raise HarnessError(f"{name}: probe policy changed during the run")
    vlog = envs.vlog
    _check_vlog_against_subs(vlog, sublog, n_envs)
    steps = _vector_steps(vlog)
    rollouts = run.extras["rollouts"]
    C = Clauses()
    S = int(cfg["steps_per_update"] if name == "a2c" else cfg["batch_size"])
    C.expect(len(rollouts) * S == len(steps), f"{name}.rollout.count",
             f"{len(rollouts)} rollouts of {S} vector steps, the environment executed {len(steps)} vector steps")
    n_boundary_rows = 0
    for c, ro in enumerate(rollouts):
        for s in range(S):
            g = c * S + s
            if g >= len(steps):
                break
            obs_in, ev, prev_done = steps[g]
            for i in range(n_envs):
                where = "at_boundary" if prev_done[i] else "mid_episode"
                n_boundary_rows += bool(prev_done[i])
                if name == "a2c":
                    arr = ro["arrays"]
                    row = {"observation": arr["obs"][s, i], "action": arr["actions"][s, i],
                           "reward": arr["rewards"][s, i], "terminated": arr["terminations"][s, i],
                           "truncated": arr["truncations"][s, i]}
                else:
                    j = i * S + s
                    row = {"observation": ro["observation"][j], "action": ro["action"][j],
                           "reward": ro["reward"][j], "terminated": ro["terminated"][j]}
                pos = f"rollout {c} step {s} env {i}"
                C.expect(_eq(row["observation"], obs_in[i]), f"{name}.rollout.observation.{where}",
                         lambda: f"{pos}: stored observation {_where(row['observation'])}, the environment's current "
                                 f"observation was {_where(obs_in[i])} ({where})")
                C.expect(_eq(row["action"], ev["action"][i]), f"{name}.rollout.action",
                         lambda: f"{pos}: stored action {np.asarray(row['action']).tolist()}, env received "
                                 f"{np.asarray(ev['action'][i]).tolist()}")
                ref_r = ev["reward"][i] if name == "a2c" else np.float32(ev["reward"][i])
                C.expect(_eq(row["reward"], ref_r), f"{name}.rollout.reward",
                         lambda: f"{pos}: stored reward {float(row['reward'])}, step returned {float(ev['reward'][i])}")
                C.expect(bool(row["terminated"]) == bool(ev["terminated"][i]), f"{name}.rollout.terminated",
                         lambda: f"{pos}: stored terminated={row['terminated']}, step returned "
                                 f"terminated={ev['terminated'][i]} truncated={ev['truncated'][i]}")
                if name == "ppo" and via == "collect" and "next_value" in ro:
                    # the value the rollout bootstraps from must be the critic's value of the observation this
                    # environment returned at this step (its final observation when the episode ended here);
                    # the critic is not trained between collect calls, so it can be evaluated afterwards
                    fin = ev.get("final_obs")
                    succ = fin[i] if fin is not None and fin[i] is not None else ev["obs"][i]
                    want_v = float(np.asarray(state["value_function"](np.asarray(succ, dtype=np.float32)[None])).reshape(-1)[0])
                    got_v = float(ro["next_value"][j])
                    C.expect(abs(got_v - want_v) <= 1e-5 * max(1.0, abs(want_v)), f"{name}.rollout.next_value_successor",
                             lambda: f"{pos}: next_value {got_v} is not the critic's value {want_v} of the observation "
                                     f"{_where(succ)} that this environment returned at this step")
                if "truncated" in row:
                    C.expect(bool(row["truncated"]) == bool(ev["truncated"][i]), f"{name}.rollout.truncated",
                             lambda: f"{pos}: stored truncated={row['truncated']}, step returned "
                                     f"terminated={ev['terminated'][i]} truncated={ev['truncated'][i]}")
                if probe:
                    if "n_actions" in case["env"]:
                        got = [int(np.asarray(ev["action"][i]))]
                        want = R.obs_dtag(obs_in[i], int(case["env"]["n_actions"]))
                    else:
                        got, want = R.decode_linear_action(ev["action"][i]), R.obs_tag(obs_in[i])
                    C.expect(all(x == want for x in got), f"{name}.acting.action_decodes.{where}",
                             lambda: f"{pos}: action {np.asarray(ev['action'][i]).tolist()} decodes to {got}, the "
                                     f"current observation {_where(obs_in[i])} has tag {want}")
        if name == "a2c" or "last_observation" in ro:
            g = min((c + 1) * S, len(steps)) - 1
            if g >= 0 and "last_observation" in ro:
                C.expect(_eq(ro["last_observation"], steps[g][1]["obs"]), f"{name}.rollout.last_observation",
                         lambda: f"rollout {c}: returned last observation differs from the environment's current "
                                 f"observation after its last step")
    C.flush()
    labels = [name, "via-" + via, "probe" if probe else "real-networks",
              "discrete" if "n_actions" in case["env"] else "continuous", "envs=%d" % n_envs]
    if case.get("logger"):
        labels.append("logger")
    if cfg.get("episode_stats"):
        labels.append("episode-stats-wrapper")
    return Outcome(labels=labels, nontrivial=n_boundary_rows >= 2,
                   fp=[name, via, case["env"]["scripts"], S, len(rollouts)])


# ---------------------------------------------------------------------------
# tabular loops

def run_tabular(case):
    name = case["routine"]
    cfg = dict(case["cfg"])
    env, _ = R.make_env(name, case["env"])
    state = R.build_state(name, env, cfg)
    run = R.run_routine(name, env, cfg, state=state)
    tr = history(run.log)
    C = Clauses()
    ups = run.extras["updates"]
    if name == "monte_carlo":
        eps, cur = [], []
        for t in tr:
            cur.append(t)
            if t["terminated"] or t["truncated"]:
                eps.append(cur)
                cur = []
        C.expect(len(ups) == len(eps), f"{name}.update.count",
                 f"{len(ups)} episode updates for {len(eps)} finished episodes")
        for i, (u, ep) in enumerate(zip(ups, eps)):
            C.expect(_eq(u["observations"], [t["observation"] for t in ep]), f"{name}.update.observations",
                     lambda: f"episode {i}: update got observations {u['observations'].tolist()}, the environment's "
                             f"current observations were {[t['observation'] for t in ep]}")
            C.expect(_eq(u["actions"], [t["action"] for t in ep]), f"{name}.update.actions",
                     lambda: f"episode {i}: update got actions {u['actions'].tolist()}, env received "
                             f"{[t['action'] for t in ep]}")
            C.expect(_eq(u["rewards"], [t["reward"] for t in ep]), f"{name}.update.rewards",
                     lambda: f"episode {i}: update got rewards {u['rewards'].tolist()}, steps returned "
                             f"{[t['reward'] for t in ep]}")
        visits = np.zeros((int(env.observation_space.n), int(env.action_space.n)))
        for ep in eps:
            for t in ep:
                visits[t["observation"], t["action"]] += 1
        got = np.asarray(run.result[1], dtype=np.float64)
        C.expect(got.shape == visits.shape and np.array_equal(got, visits), f"{name}.visit_counts",
                 lambda: f"returned visit counts {got.tolist()} != (observation, action) multiset of the finished "
                         f"episodes {visits.tolist()}")
    else:
        C.expect(len(ups) == len(tr), f"{name}.update.count", f"{len(ups)} updates for {len(tr)} environment steps")
        for k, (u, t) in enumerate(zip(ups, tr)):
            where = "after_reset" if t["after_reset"] else "mid_episode"
            C.expect(u["observation"] == t["observation"], f"{name}.update.observation.{where}",
                     lambda: f"update #{k}: observation {u['observation']}, the environment's current observation was "
                             f"{t['observation']} (episode {t['episode']}, t {t['t'] - 1}, {where})")
            C.expect(u["action"] == t["action"], f"{name}.update.action",
                     lambda: f"update #{k}: action {u['action']}, env received {t['action']}")
            C.expect(float(u["reward"]) == float(t["reward"]), f"{name}.update.reward",
                     lambda: f"update #{k}: reward {u['reward']}, step returned {t['reward']}")
            C.expect(u["next_observation"] == t["next_observation"], f"{name}.update.next_observation",
                     lambda: f"update #{k}: successor {u['next_observation']}, step returned {t['next_observation']}")
            if "terminated" in u:
                C.expect(bool(u["terminated"]) == t["terminated"], f"{name}.update.terminated",
                         lambda: f"update #{k}: terminated={u['terminated']}, step returned "
                                 f"terminated={t['terminated']} truncated={t['truncated']}")
        if name == "dynaq":
            cu = run.extras["counter_updates"]
            C.expect(len(cu) == len(tr), f"{name}.model.count", f"{len(cu)} model samples for {len(tr)} steps")
            for k, (u, t) in enumerate(zip(cu, tr)):
                ok = (u["observation"] == t["observation"] and u["action"] == t["action"]
                      and float(u["reward"]) == float(t["reward"]) and u["next_observation"] == t["next_observation"])
                C.expect(ok, f"{name}.model.sample",
                         lambda: f"model sample #{k}: {u} != transition ({t['observation']}, {t['action']}, "
                                 f"{t['reward']}, {t['next_observation']})")
            N = int(cfg.get("buffer_size", 1000))
            for k, p in enumerate(run.extras["planning_calls"][:len(tr)]):
                lo = max(0, k + 1 - N)
                C.expect(_eq(p["obs_buffer"], [t["observation"] for t in tr[lo:k + 1]])
                         and _eq(p["act_buffer"], [t["action"] for t in tr[lo:k + 1]]), f"{name}.planning_buffer",
                         lambda: f"planning after step #{k}: buffers {p['obs_buffer'].tolist()} / "
                                 f"{p['act_buffer'].tolist()} != last {N} (observation, action) pairs of the log")
    n_reset_checked = 0
    if cfg.get("probe"):
        na = int(env.action_space.n)
        for k, t in enumerate(tr):
            where = "after_reset" if t["after_reset"] else "mid_episode"
            want = R.tabular_probe_action(t["observation"], na)
            C.expect(int(t["action"]) == want, f"{name}.acting.action_decodes.{where}",
                     lambda: f"step #{k}: greedy action {t['action']} but the probe table selects {want} for the "
                             f"current observation {t['observation']} ({where})")
            n_reset_checked += t["after_reset"]
    C.flush()
    b = _boundaries(tr)
    labels = [name, "probe" if cfg.get("probe") else "random-table"] + _history_labels(tr, 0)
    return Outcome(labels=labels, nontrivial=len(b) >= 2,
                   fp=[name, case["env"]["script"], case["env"]["n_states"], cfg["total_timesteps"],
                       cfg.get("buffer_size")])


# ---------------------------------------------------------------------------

def _sub(name, builder, run, quick, thorough, cost, shards=2, rule="", simplify=simplify_history):
    return SubCheck(name, _strategy(builder, name), run, quick=quick, thorough=thorough, shards=shards,
                    shards_thorough=8, shrink=False, suppress_too_slow=True, simplify=simplify,
                    cost=cost, rule=rule, min_nontrivial_frac=0.5)


_R_OFF = ">=2 episode boundaries followed by a stored transition, >=1 of them after the warm-up"
_R_EPI = (">=3 stored episodes and a collected dataset of >=3 episodes (train_after_episode: >=3 one-episode "
          "datasets)")
SUBCHECKS = [
    _sub("dqn", build_offpolicy, run_offpolicy, 8, 100, 2.0, rule=_R_OFF),
    _sub("nature_dqn", build_offpolicy, run_offpolicy, 8, 100, 2.0, rule=_R_OFF),
    _sub("ddqn", build_offpolicy, run_offpolicy, 8, 100, 2.0, rule=_R_OFF),
    _sub("ddqn_per", build_offpolicy, run_offpolicy, 8, 100, 2.0, rule=_R_OFF),
    _sub("ddpg", build_offpolicy, run_offpolicy, 8, 100, 3.0, rule=_R_OFF),
    _sub("td3", build_offpolicy, run_offpolicy, 8, 100, 3.0, rule=_R_OFF),
    _sub("td3_lap", build_offpolicy, run_offpolicy, 8, 100, 3.0, rule=_R_OFF),
    _sub("sac", build_offpolicy, run_offpolicy, 8, 100, 4.0, rule=_R_OFF),
    _sub("td7", build_offpolicy, run_offpolicy, 8, 100, 5.0, rule=_R_OFF),
    _sub("mrq", build_offpolicy, run_offpolicy, 6, 100, 8.0, rule=_R_OFF),
    _sub("mrq_default_buffer", build_mrq_default, run_mrq_default, 8, 100, 8.0, shards=4,
         simplify=simplify_mrq_default,
         rule="encoder and critic batches sampled after >=2 stored episode ends, >=1 of them a truncation"),
    _sub("pets", build_offpolicy, run_offpolicy, 6, 100, 6.0, rule=_R_OFF),
    _sub("sample_trajectories", build_episodic, run_episodic, 10, 150, 1.0, rule=_R_EPI),
    _sub("reinforce", build_episodic, run_episodic, 6, 100, 3.0, rule=_R_EPI),
    _sub("actor_critic", build_episodic, run_episodic, 6, 100, 3.0, rule=_R_EPI),
    _sub("a2c", build_vector, run_vector, 10, 150, 2.0,
         rule=">=2 sub-environment episode ends followed by a further stored row"),
    _sub("ppo", build_vector, run_vector, 10, 150, 2.0,
         rule=">=2 sub-environment episode ends followed by a further stored row"),
    _sub("q_learning", build_tabular, run_tabular, 8, 150, 1.0, shards=1, rule=">=2 episode boundaries"),
    _sub("sarsa", build_tabular, run_tabular, 8, 150, 1.0, shards=1, rule=">=2 episode boundaries"),
    _sub("double_q_learning", build_tabular, run_tabular, 8, 150, 1.0, shards=1, rule=">=2 episode boundaries"),
    _sub("monte_carlo", build_tabular, run_tabular, 8, 150, 1.0, shards=1, rule=">=2 episode boundaries"),
    _sub("dynaq", build_tabular, run_tabular, 8, 150, 1.5, shards=1, rule=">=2 episode boundaries"),
]
