"""C11 Step budget, episode discipline and step accounting are exact; task
schedulers and bandit selectors.

Every oracle reads the reset/step log of a scripted recording environment
(vlib.envs / vlib.routines_c11): how many steps a call executed, where episodes
ended, whether a finished episode was stepped, and (through per-step digests of
the live networks and optimizers) when the first update happened.  The expected
numbers are derived from the episode script and the documented meaning of
``total_timesteps`` / ``global_step`` / ``total_episodes`` / ``learning_starts``,
never from the implementation.  Histories are run without and with a logger;
a logger is one object for the whole history (first call, continuation, third
call) -- the way the multi-task schedulers hand theirs to every backbone call --
so a routine must not derive its episode limit from the logger's episode count.  See DESIGN.md §5 C11, §6 (D8, D12, D14, D15),
§11 (DUCB reference).

Status of the suspected defects: D8 (generate_rollout), D12 (returned counters,
train_uts overrun / livelock), D14 (DQN-family warm-up gate) and the DDPG
zero-budget counter were confirmed by this module and have been repaired in
/repo; their shrunk witnesses live in replays/regress/C11_*.json and the
reverse patches in mutants/C11/revert_fix_*.patch.  Still open (listed in
KNOWN_FINDINGS.txt): D15 (REINFORCE / actor-critic / A2C overshoot the budget
by less than one collection) and UnboundLocalError of train_uts / train_smt /
train_active_mt when a loop gets a zero budget.
"""
from __future__ import annotations

import math

import numpy as np
from hypothesis import strategies as st

from vlib import gen
from vlib import routines_c11 as R
from vlib.core import Outcome, SubCheck, check, report

PROPERTY = "C11"
RULE = (
    "Training histories: case = (routine, episode script of [length, term|trunc] pairs, starting "
    "global_step, remaining budget incl. 0 and 1, total_episodes, learning_starts/batch_size and "
    "cadence parameters, optional continuation call that starts from the returned counter with a "
    "larger budget; in ~60% of the histories a logger (MemoryLogger or the recording logger of "
    "vlib.instruments, in half of these already used for 1-2 episodes) is passed and REUSED by a "
    "continuation call (and a third call in 1/3 of them) with total_episodes in {1,2,3} and a budget "
    "that ends behind / exactly at / short of the end of the requested episodes). The budget is "
    "constructed from the script so that it ends mid-episode, exactly "
    "at an episode end, or behind the episode limit. Non-trivial = the budget ends mid-episode, or "
    "the episode limit stops the call, or a continuation call is made (batch collectors: budget not "
    "a multiple of the collection size or exactly on a collection boundary; schedulers: >= 2 backbone "
    "calls and the budget ends mid-episode or >= 2 tasks were trained; real backbones: TD3/SAC/DDPG/"
    "Nature-DQN/DDQN, the scheduler is given a logger in ~60% of the cases and every backbone call is "
    "checked against the env log: it stops exactly at its episode limit or when its budget is used up). "
    "Selectors: case = (number of "
    "arms, gamma, zeta, bound, per-arm reward means, noise seed, length, optional protocol misuse); "
    "non-trivial = at least one selection after the initial rounds (DUCB) / one full cycle "
    "(round robin) or a misuse op. Distinct = distinct (routine, script, start, budget, limits, "
    "warm-up) resp. distinct selector case."
)
ASSUMPTIONS = [
    "environment dynamics ignore the action; episode ends are fixed by the script (cycled)",
    "tiny networks (hidden [4]); budgets <= 120 steps; delays 1-4",
    "warm-up clause, narrow reading: an update observed in the loop iteration with global step s "
    "violates 'learning starts after learning_starts steps were taken' only if s + 1 < learning_starts",
    "an update is observed as a change of the digest of the trained modules and their optimizers "
    "(optimizer step counters included) between consecutive environment steps",
    "batch collectors (REINFORCE, actor-critic, A2C): an overshoot of the budget by less than one "
    "collection is recorded as a known finding (D15), a larger one is a different violation",
    "DUCB reference: float64, 250-step window, arms with zero discounted weight have index +inf; "
    "rounds n_arms..2*n_arms-1 may either continue the initial round robin or maximise the index",
    "selector misuse (select-select, feedback-feedback, feedback first) is only generated as the "
    "last operation of a sequence",
    "excluded as outside C11 (loud rejections of one-sample batches, C03/C12 territory): batch_size 1 "
    "for the continuous-action routines, one-sample collections of REINFORCE / actor-critic, PPO with "
    "one environment and batch_size 1",
    "train_uts with real backbones: an overrun of at most one step per backbone call stopped by its "
    "episode limit gets its own key (signature of the repaired counter defect D12)",
    "continuation calls of logger histories: total_timesteps = returned counter + (steps of the next "
    "total_episodes scripted episodes of the environment, read from the script at run time) + / - the drawn "
    "slack; loggers only count episodes and store statistics (no checkpoints are written)",
]

QUICK = gen.tier() == "quick"


# =========================================================================
# episode scripts and budgets
# =========================================================================

def _lengths():
    return st.sampled_from([1, 1, 2, 2, 3, 4, 5, 7])


@st.composite
def scripts(draw, min_eps=2, max_eps=5):
    n = draw(st.integers(min_eps, max_eps))
    return [[draw(_lengths()), draw(st.sampled_from(["term", "trunc"]))] for _ in range(n)]


def cum_ends(script, first_episode, k):
    out, c = [], 0
    for i in range(k):
        c += R.episode_length(script, first_episode + i)
        out.append(c)
    return out


@st.composite
def budget_plan(draw, script, has_eps, first_episode=0):
    """Remaining budget and episode limit constructed from the script."""
    # (Hypothesis draws the first and last element of sampled_from more often:
    # rare specials sit in the middle of every pool in this module)
    mode = draw(st.sampled_from(["mid", "limit", "end", "zero", "end_limit", "one", "limit", "mid", "mid"]
                                if has_eps else ["mid", "end", "zero", "mid", "one", "end", "mid"]))
    ends = cum_ends(script, first_episode, 8)
    eps = None
    if mode == "zero":
        rem = 0
    elif mode == "one":
        rem = 1
        if has_eps and draw(st.booleans()):
            eps = draw(st.integers(1, 2))
    elif mode == "mid":
        j = draw(st.integers(0, 5))
        # need an episode of length >= 2 at position j: lengthen it in the script
        idx = (first_episode + j) % len(script)
        if script[idx][0] < 2:
            script[idx][0] = draw(st.integers(2, 5))
            ends = cum_ends(script, first_episode, 8)
        base = ends[j - 1] if j > 0 else 0
        rem = base + draw(st.integers(1, script[idx][0] - 1))
        if has_eps and draw(st.integers(0, 2)) == 0:
            eps = j + 1 + draw(st.integers(0, 2))  # not reached
    elif mode == "end":
        j = draw(st.integers(0, 5))
        rem = ends[j]
        if has_eps and draw(st.integers(0, 3)) == 0:
            eps = j + 2
    elif mode == "end_limit":
        j = draw(st.integers(0, 3))
        rem = ends[j]
        eps = j + 1
    else:  # limit: the k-th episode ends strictly before the budget
        k = draw(st.integers(1, 4))
        eps = k
        rem = ends[k - 1] + draw(st.integers(1, 9))
    return {"remaining": int(rem), "eps": eps, "mode": mode}


# =========================================================================
# single-task routines with a step budget (off-policy family + PETS)
# =========================================================================

def _routine_flags(name):
    a = R.ADAPTERS[name]
    return a.has_start, a.has_eps, a.has_counter, a.warmup


@st.composite
def history_cases(draw, routine):
    has_start, has_eps, has_counter, warmup = _routine_flags(routine)
    script = draw(scripts())
    plan = draw(budget_plan(script, has_eps))
    rem = plan["remaining"]
    start = draw(st.sampled_from([0, 0, 0, 1, 6, 19])) if has_start else 0
    # batch size 1 is rejected by the continuous-action losses (shape assertions; C03 territory)
    batch_size = draw(st.sampled_from([1, 2, 3, 5] if R.ADAPTERS[routine].action == "discrete"
                                         else ([2, 2, 3, 5] if QUICK else [2, 3, 5, 8])))
    ls_pool = [0, 1, 2, start, start + 1, start + max(1, rem // 2), start + max(1, rem // 3),
               batch_size + 4, batch_size + 9, start + rem + 3]
    learning_starts = int(draw(st.sampled_from(ls_pool)))
    cfg = {
        "learning_starts": learning_starts,
        "batch_size": batch_size,
        "buffer_size": draw(st.sampled_from([4, 16, 200])),
        "net_seed": draw(st.integers(0, 50)),
        "update_frequency": draw(st.sampled_from([1, 1, 2, 3])),
        "target_update_frequency": draw(st.sampled_from([1, 2, 5])),
        "policy_delay": draw(st.sampled_from([1, 2, 3])),
        "gradient_steps": draw(st.sampled_from([1, 1, 2])),
        "target_delay": draw(st.sampled_from([1, 2, 4])),
        "use_checkpoints": draw(st.sampled_from([0, 0, 1])),
        "n_steps_per_iteration": draw(st.sampled_from([1, 3, 7])),
    }
    if routine == "train_mrq":
        # the subtrajectory buffer needs stored transitions before the first update
        cfg["learning_starts"] = max(learning_starts, start + 4)
        cfg["buffer_size"] = 200
    if routine == "train_pets":
        cfg["learning_starts"] = max(1, min(learning_starts, 30))
        cfg["buffer_size"] = 200
    cont = None
    if has_start and draw(st.integers(0, 9)) < 6:
        cont = {"extra": draw(st.integers(1, 12)),
                "eps": draw(st.sampled_from([None, 1, 2])) if has_eps else None}
    case = {"routine": routine, "script": script, "script_seed": draw(st.integers(0, 999)),
            "start": start, "remaining": rem, "eps": plan["eps"], "cfg": cfg, "cont": cont,
            "seed": draw(st.integers(0, 999))}
    # A logger is passed in a share of the histories and REUSED by every call of the history (continued
    # run: what the multi-task schedulers do with their backbone).  Such histories always continue, with an
    # episode limit of 1-3 whose budget is constructed from the script at run time (see _continuation_total).
    case["logger"] = draw(st.sampled_from(["memory", None, "snapshot", None, "memory"]))
    if case["logger"]:
        # episodes the logger has already seen before the first call (a logger shared with an earlier run)
        case["logger_pre"] = draw(st.sampled_from([0, 2, 0, 1]))
        if has_start:
            case["cont"] = draw(logger_continuation(has_eps))
            if draw(st.integers(0, 2)) == 0:
                case["cont2"] = draw(logger_continuation(has_eps))
    return case


@st.composite
def logger_continuation(draw, has_eps):
    if not has_eps:
        return {"extra": draw(st.integers(1, 12)), "eps": None}
    # mode: "limit" = budget reaches `extra` steps behind the end of the eps-th episode of the call,
    # "end_limit" = exactly to that episode end, "short" = `extra` steps short of it (>= 1 step)
    return {"eps": draw(st.sampled_from([2, 3, 1, 2])),
            "mode": draw(st.sampled_from(["limit", "end_limit", "short", "limit"])),
            "extra": draw(st.integers(1, 6))}


def _continuation_total(script, first_episode, nxt, total_prev, cont):
    """total_timesteps of a continuation call that starts from step count ``nxt`` with the scripted
    episode ``first_episode``."""
    mode = cont.get("mode")
    if mode is None:
        return max(total_prev, nxt) + cont["extra"]
    need = R.steps_for_episodes(script, first_episode, cont["eps"])
    rem = {"limit": need + cont["extra"], "end_limit": need}.get(mode, max(1, need - cont["extra"]))
    return nxt + rem


def simplify_history(case):
    import copy

    c = case
    if c.get("cont2"):
        d = copy.deepcopy(c); d.pop("cont2"); yield d
    if c.get("cont"):
        d = copy.deepcopy(c); d["cont"] = None; d.pop("cont2", None); yield d
    if c.get("logger"):
        d = copy.deepcopy(c); d["logger"] = None; yield d
        if c.get("logger_pre"):
            d = copy.deepcopy(c); d["logger_pre"] = 0; yield d
    for key in ("cont", "cont2"):
        if c.get(key) and c[key].get("mode") and c[key]["eps"] > 1:
            d = copy.deepcopy(c); d[key]["eps"] -= 1; yield d
    if c["start"]:
        d = copy.deepcopy(c)
        d["cfg"]["learning_starts"] = max(0, c["cfg"]["learning_starts"] - c["start"])
        d["start"] = 0
        yield d
    if len(c["script"]) > 1:
        d = copy.deepcopy(c); d["script"] = d["script"][:-1]; yield d
    for i, (L, _) in enumerate(c["script"]):
        if L > 1:
            d = copy.deepcopy(c); d["script"][i][0] = L - 1; d["remaining"] = max(0, c["remaining"] - 1); yield d
    if c["remaining"] > 0:
        d = copy.deepcopy(c); d["remaining"] = c["remaining"] - 1; yield d
        d = copy.deepcopy(c); d["remaining"] = c["remaining"] // 2; yield d
    if c["eps"] and c["eps"] > 1:
        d = copy.deepcopy(c); d["eps"] = c["eps"] - 1; yield d
    for k, lo in (("learning_starts", 0), ("batch_size", 1), ("update_frequency", 1),
                  ("policy_delay", 1), ("gradient_steps", 1), ("target_update_frequency", 1)):
        if c["cfg"].get(k, lo) > lo:
            d = copy.deepcopy(c); d["cfg"][k] = max(lo, c["cfg"][k] // 2); yield d
    if c["cfg"].get("use_checkpoints"):
        d = copy.deepcopy(c); d["cfg"]["use_checkpoints"] = 0; yield d


def _observed_stop(view, remaining, eps):
    if remaining <= 0:
        return "zero_budget"
    if eps is not None and len(view["ends"]) >= eps:
        return "episode_limit"
    return "budget_end"


def check_call(name, view, script, first_episode, start, total, eps, ret, has_counter,
               warm, digests, final_digest, n_new_violations, labels, batch_size=0):
    """Oracle for one call of a budgeted single-env routine.  Returns the
    step count the next call should start from according to the log."""
    remaining = total - start
    executed = view["executed"]
    check(n_new_violations == 0, f"{name}.discipline.step_on_finished_episode",
          lambda: f"{n_new_violations} steps on a finished episode; start={start} total={total} eps={eps}")
    check(executed <= max(0, remaining), f"{name}.budget.overrun",
          lambda: f"executed {executed} steps with remaining budget {remaining} (start={start}, "
                  f"total_timesteps={total}, total_episodes={eps})")
    if eps is not None and len(view["ends"]) >= eps:
        after = executed - (view["ends"][eps - 1] + 1)
        check(after == 0, f"{name}.episodes.steps_after_limit",
              lambda: f"{after} steps after episode {eps} finished (total_episodes={eps})")
    exp, why = R.expected_steps(script, first_episode, remaining, eps)
    if executed <= max(0, remaining):
        check(executed >= exp, f"{name}.budget.underrun",
              lambda: f"executed {executed} < {exp} steps expected (stop by {why}); start={start} "
                      f"total_timesteps={total} total_episodes={eps}")
    stop = _observed_stop(view, remaining, eps)
    labels.add("stop:" + stop)
    mid = stop == "budget_end" and executed > 0 and not (view["steps"][-1]["terminated"] or view["steps"][-1]["truncated"])
    if mid:
        labels.add("budget-ends-mid-episode")
    if stop == "budget_end" and executed > 0 and not mid:
        labels.add("budget-ends-at-episode-end")
    # warm-up: first observed update
    j = R.first_update_iteration(digests, final_digest)
    if j is not None:
        labels.add("update-seen")
        if warm is not None:
            s = start + j
            ls = warm
            if s + 1 < ls:
                labels.add("update-before-learning-starts")
            # the key separates "updates start once step > batch_size, whatever
            # learning_starts says" (D14) from an update that is even earlier
            sfx = "step_gt_batch_size" if s > batch_size else "step_le_batch_size"
            check(s + 1 >= ls, f"{name}.warmup.update_before_learning_starts.{sfx}",
                  lambda: f"first update in the iteration with global step {s} (0-based), "
                          f"learning_starts={ls}, batch_size={batch_size}: only {s + 1} steps taken")
            if s >= ls and any(e["terminated"] or e["truncated"] for e in view["steps"][:j]):
                labels.add("episode-end-before-first-update")
    elif executed > 0:
        labels.add("no-update-seen")
    if has_counter:
        try:
            r = int(ret)
        except Exception:  # noqa: BLE001
            r = None
        check(r is not None, f"{name}.counter.not_an_int", f"returned {ret!r}")
        delta = r - (start + executed)
        if delta != 0:
            labels.add(f"counter-delta{delta:+d}")
            report(f"{name}.counter.{stop}.delta{delta:+d}",
                   f"returned counter {r} != start {start} + executed {executed} "
                   f"(total_timesteps={total}, total_episodes={eps}, stop={stop})")
    return mid, stop


def run_history(case):
    name = case["routine"]
    ad = R.ADAPTERS[name](dict(case["cfg"]))
    script = [list(x) for x in case["script"]]
    start, rem, eps = case["start"], case["remaining"], case["eps"]
    total = start + rem
    conts = [c for c in (case.get("cont"), case.get("cont2") if case.get("cont") else None) if c]
    worst = rem + sum(c["extra"] + (3 * 12 if c.get("mode") else 0) for c in conts)
    cap = 4 * worst + 80
    tracker = R.Tracker()
    log = R.EnvLog()
    env = R.CappedEnv(script, seed=case["script_seed"], action_space=ad.space(), log=log,
                      on_step=tracker.on_step, step_cap=cap)
    ad.setup(env)
    ad.logger = R.make_logger(case.get("logger"), case.get("logger_pre", 0))
    tracker.track(*ad.tracked)
    warm = case["cfg"]["learning_starts"] if ad.warmup == "learning_starts" else None
    labels = set()
    if ad.logger is not None:
        labels.add("logger:" + case["logger"])
        if case.get("logger_pre"):
            labels.add("logger-used-before-first-call")
    nt = False
    calls = [(start, total, eps if ad.has_eps else None)]
    any_counter_wrong = False
    for ci in range(1 + len(conts)):
        s_i, t_i, e_i = calls[ci]
        lo, dlo, vlo = len(log.events), len(tracker.at_step), len(log.violations)
        first_episode = env.episode + 1
        runaway = False
        try:
            ret = ad.call(env, s_i, t_i, e_i, case["seed"] + ci)
        except R.StepCapExceeded:
            runaway = True
            ret = None
        view = R.call_view(log, lo)
        if runaway:
            check(len(log.violations) == vlo, f"{name}.discipline.step_on_finished_episode",
                  "steps on a finished episode before the step cap was hit")
            report(f"{name}.stop.step_cap_exceeded",
                   f"call did not stop within {cap} steps (start={s_i}, total={t_i}, eps={e_i})")
            return Outcome(labels=sorted(labels | {"runaway"}), nontrivial=False)
        mid, stop = check_call(name, view, script, first_episode, s_i, t_i, e_i, ret, ad.has_counter,
                               warm, tracker.at_step[dlo:], tracker.now(), len(log.violations) - vlo,
                               labels, batch_size=case["cfg"]["batch_size"])
        nt = nt or mid or stop == "episode_limit" or ci >= 1
        if ci >= 1:
            labels.add("third-call" if ci == 2 else "continuation")
            if ad.logger is not None:
                labels.add("logger-reused-by-continuation")
                if e_i is not None:
                    labels.add(f"logger-reused:total_episodes={e_i}:stop:{stop}")
        if ci < len(conts):
            nxt = int(ret) if ad.has_counter else s_i + view["executed"]
            if nxt != s_i + view["executed"]:
                any_counter_wrong = True
            c = conts[ci]
            calls.append((nxt, _continuation_total(script, env.episode + 1, nxt, t_i if ci else total, c),
                          c["eps"] if ad.has_eps else None))
    if conts and not any_counter_wrong:
        labels.add("continuation-from-exact-counter")
    fp = [name, script, start, rem, eps, conts, case["cfg"]["learning_starts"], case["cfg"]["batch_size"],
          case.get("logger"), case.get("logger_pre", 0)]
    return Outcome(labels=sorted(labels), nontrivial=nt, fp=fp)


def _history_sub(routine, quick, thorough, cost, shards=2):
    return SubCheck(routine, (lambda r=routine: history_cases(r)), run_history, quick=quick,
                    thorough=thorough, shards=shards, shards_thorough=8, shrink=False,
                    suppress_too_slow=True, simplify=simplify_history, cost=cost,
                    rule="budget ends mid-episode, or the episode limit stops the call, or a "
                         "continuation call (with or without a reused logger) starts from the returned counter")


# =========================================================================
# generate_rollout
# =========================================================================

@st.composite
def rollout_cases(draw):
    script = draw(scripts(1, 4))
    script[0][0] = draw(st.sampled_from([1, 2, 3, 6, 11]))
    return {"script": script, "script_seed": draw(st.integers(0, 999)), "seed": draw(st.integers(0, 99)),
            "n_actions": draw(st.sampled_from([2, 3])), "policy": draw(st.sampled_from(["zero", "hash"]))}


def run_rollout(case):
    import gymnasium as gym
    from rl_blox.util.experiment_helper import generate_rollout

    script = case["script"]
    L0, end0 = script[0]
    cap = 3 * sum(l for l, _ in script) + 40
    env = R.CappedEnv(script, seed=case["script_seed"], action_space=gym.spaces.Discrete(case["n_actions"]),
                      step_cap=cap)
    n_act = case["n_actions"]
    calls = []

    def policy(observation, key):
        calls.append(np.array(observation))
        if case["policy"] == "zero":
            return 0
        return np.int64(int(abs(float(np.sum(observation))) * 7) % n_act)

    capped = False
    out = None
    try:
        out = generate_rollout(env, policy, seed=case["seed"])
    except R.StepCapExceeded:
        capped = True
    log = env.log
    labels = ["first-episode-" + end0, "capped" if capped else "returned"]
    nt = L0 >= 2 or end0 == "trunc"
    if log.violations:
        # which kind of episode end was stepped over first
        first_bad = log.violations[0]["n_steps"]  # steps executed before the offending step
        prev = log.steps()[first_bad - 1]
        kind = "after_truncation" if prev["truncated"] else "after_termination"
        report(f"generate_rollout.discipline.step_on_finished_episode.{kind}",
               f"episode 0 ended by {kind[6:]} after {first_bad} steps but the rollout kept stepping "
               f"({len(log.steps())} steps executed, {'step cap hit' if capped else 'returned'}); script={script}")
        # everything below is a consequence of the same defect
        return Outcome(labels=labels + ["stepped-finished-episode"], nontrivial=nt)
    check(not capped, "generate_rollout.stop.step_cap_exceeded", f"no stop within {cap} steps")
    n = len(log.steps())
    check(n == L0, "generate_rollout.stop.not_at_first_episode_end",
          f"executed {n} steps, episode 0 has {L0} ({end0})")
    check(len(log.resets()) == 1, "generate_rollout.resets", f"{len(log.resets())} resets")
    obs, acts, rews = out
    check(np.shape(obs)[0] == n + 1 and np.shape(acts)[0] == n and np.shape(rews)[0] == n,
          "generate_rollout.accounting.lengths",
          lambda: f"obs {np.shape(obs)} actions {np.shape(acts)} rewards {np.shape(rews)} for {n} steps")
    ref_r = np.array([e["reward"] for e in log.steps()], dtype=np.float32)
    check(np.allclose(np.asarray(rews, dtype=np.float32), ref_r, rtol=1e-6, atol=1e-6),
          "generate_rollout.accounting.rewards", "returned rewards differ from the env log")
    return Outcome(labels=labels, nontrivial=nt)


# =========================================================================
# bandit selectors
# =========================================================================

def _reward_of(case, t, arm):
    # pure function of the case: per-arm mean (switching to means2 half way for
    # the non-stationary kind) + noise * table[t]
    rng = np.random.default_rng([int(case["rseed"]), int(t)])
    means = case["means2"] if case.get("means2") and t >= case["T"] // 2 else case["means"]
    r = means[arm] + case["noise"] * float(rng.standard_normal())
    if case.get("clip", True):
        r = min(max(r, 0.0), case["bound"])
    return float(r)


@st.composite
def ducb_cases(draw, generalized=False):
    n = draw(st.sampled_from([1, 2, 2, 3, 3, 4, 5]))
    T = draw(st.sampled_from([60, 2 * n + 1, 12, n, 30, 90, 290, 60] if not generalized
                             else [60, 3 * n + 1, 12, n, 30, 90, 280, 60]))
    gamma = draw(st.sampled_from([1.0, 1.0, 0.99, 0.95, 0.9, 0.5, 0.25]))
    zeta = draw(st.sampled_from([0.002, 0.002, 0.0, 0.1, 0.6, 2.0]))
    bound = draw(st.sampled_from([1.0, 1.0, 0.1, 5.0, 100.0]))
    kind = draw(st.sampled_from(["spread", "ties", "dominant", "drift", "window"]))
    means2 = None
    if kind == "window":
        # one arm dominates, no forgetting, small bonus: the other arms drop out
        # of the 250-step window and must then be replayed (index +inf)
        n = max(2, n)
        T = draw(st.sampled_from([270, 300]))
        gamma, zeta = 1.0, draw(st.sampled_from([0.002, 0.0, 0.01]))
        means = [0.0] * n
        means[draw(st.integers(0, n - 1))] = bound
        noise = 0.0
    elif kind == "ties":
        means = [draw(st.sampled_from([0.0, 0.5, 1.0])) * bound] * n
        noise = 0.0
    elif kind == "dominant":
        means = [0.0] * n
        means[draw(st.integers(0, n - 1))] = bound
        noise = draw(st.sampled_from([0.0, 0.01])) * bound
    else:
        means = [draw(st.integers(0, 8)) / 8.0 * bound for _ in range(n)]
        noise = draw(st.sampled_from([0.0, 0.05, 0.3])) * bound
        if kind == "drift":
            means2 = [draw(st.integers(0, 8)) / 8.0 * bound for _ in range(n)]
    case = {"n": n, "T": T, "gamma": gamma, "zeta": zeta, "bound": bound, "means": means, "noise": noise,
            "rseed": draw(st.integers(0, 10**6)), "clip": draw(st.booleans()), "kind": kind,
            "means2": means2}
    if generalized:
        case["baseline"] = draw(st.sampled_from([None, "last", "max", "avg"]))
        case["op"] = draw(st.sampled_from([None, "max-with-0", "abs", "neg"]))
        ids = draw(st.lists(st.integers(0, 40), min_size=n, max_size=n, unique=True))
        case["tasks"] = ids if draw(st.booleans()) else list(range(n))
        case["misuse"] = draw(st.sampled_from([None, None, "select_select", "feedback_feedback", "feedback_first"]))
    return case


def _check_selection(prefix, t, arm, n, arms_hist, rew_hist, case, labels):
    """Selection number t (0-based, counted rounds) chose ``arm``."""
    check(isinstance(arm, (int, np.integer)) and 0 <= int(arm) < n, f"{prefix}.arm_out_of_range", f"arm {arm!r}, n={n}")
    arm = int(arm)
    if t < n:
        played = set(arms_hist)
        check(arm not in played, f"{prefix}.initial_rounds.arm_repeated",
              lambda: f"round {t}: arm {arm} chosen again while arms {sorted(set(range(n)) - played)} "
                      f"were never played (history {arms_hist})")
        labels.add("initial-round")
        return
    U, N = R.ducb_reference(arms_hist, rew_hist, n, case["gamma"], case["zeta"], case["bound"])
    best = float(np.max(U))
    if np.isinf(best):
        ok = bool(np.isinf(U[arm]))
        labels.add("zero-weight-arm")
    else:
        ok = bool(U[arm] >= best - 1e-9 * max(1.0, abs(best)))
        if int(np.sum(U >= best - 1e-9 * max(1.0, abs(best)))) > 1:
            labels.add("tie")
    if t < 2 * n and arm == t % n:
        labels.add("second-initial-round")
        return
    labels.add("index-round")
    if t >= 250:
        labels.add("beyond-window")
    check(ok, f"{prefix}.selection.not_a_maximiser",
          lambda: f"round {t}: chose arm {arm} with index {U[arm]!r}; indices {U.tolist()} "
                  f"weights {N.tolist()} gamma={case['gamma']} zeta={case['zeta']} B={case['bound']}")


def run_ducb(case):
    import warnings

    from rl_blox.blox.mapb import DUCB

    n, T = case["n"], case["T"]
    b = DUCB(n_arms=n, upper_bound=case["bound"], gamma=case["gamma"], zeta=case["zeta"])
    arms, rews = [], []
    labels = set()
    with warnings.catch_warnings():
        warnings.simplefilter("ignore")
        for t in range(T):
            a = b.choose_arm()
            _check_selection("ducb", t, a, n, arms, rews, case, labels)
            r = _reward_of(case, t, int(a))
            arms.append(int(a))
            rews.append(r)
            b.reward(r)
    check(set(arms[:n]) == set(range(n)) or T < n, "ducb.initial_rounds.arm_never_played",
          f"first {n} rounds played {arms[:n]}")
    labels.add(case["kind"])
    return Outcome(labels=sorted(labels), nontrivial=("index-round" in labels))


def _intrinsic(case, prev, r):
    if case["baseline"] == "max":
        b = max(prev)
    elif case["baseline"] == "avg":
        b = math.fsum(prev) / len(prev)
    elif case["baseline"] == "last":
        b = prev[-1]
    else:
        b = 0.0
    x = r - b
    if case["op"] == "max-with-0":
        x = max(0.0, x)
    elif case["op"] == "abs":
        x = abs(x)
    elif case["op"] == "neg":
        x = -x
    return x


def _expect_raise(fn, key, what):
    try:
        fn()
    except Exception:  # noqa: BLE001  (the property only demands a loud rejection)
        return
    report(key, f"{what} was accepted silently")


def run_ducb_generalized(case):
    import warnings

    from rl_blox.blox.multitask import DUCBGeneralized

    n, T = case["n"], case["T"]
    tasks = np.asarray(case["tasks"])
    sel = DUCBGeneralized(tasks=tasks, upper_bound=case["bound"], ducb_gamma=case["gamma"],
                          zeta=case["zeta"], baseline=case["baseline"], op=case["op"])
    labels = set()
    if case["misuse"] == "feedback_first":
        _expect_raise(lambda: sel.feedback(0.0), "ducb_generalized.protocol.feedback_before_select", "feedback before any select")
        return Outcome(labels=["misuse:feedback_first"], nontrivial=True)
    arms, rews = [], []  # counted rounds only
    raw = [[] for _ in range(n)]
    with warnings.catch_warnings():
        warnings.simplefilter("ignore")
        for step in range(T):
            tid = sel.select()
            pos = [i for i in range(n) if int(tasks[i]) == int(tid)]
            check(len(pos) == 1, "ducb_generalized.invalid_task_id", f"select() returned {tid!r}, tasks={case['tasks']}")
            arm = pos[0]
            _check_selection("ducb_generalized", len(arms), arm, n, arms, rews, case, labels)
            r = _reward_of(case, step, arm)
            if raw[arm]:  # the first feedback of an arm only sets its baseline
                arms.append(arm)
                rews.append(_intrinsic(case, raw[arm], r))
            else:
                labels.add("first-visit")
            raw[arm].append(r)
            if step == T - 1 and case["misuse"] == "select_select":
                _expect_raise(sel.select, "ducb_generalized.protocol.select_select", "select() twice without feedback")
                labels.add("misuse:select_select")
                break
            sel.feedback(r)
            if step == T - 1 and case["misuse"] == "feedback_feedback":
                _expect_raise(lambda: sel.feedback(r), "ducb_generalized.protocol.feedback_feedback",
                              "feedback() twice without select")
                labels.add("misuse:feedback_feedback")
    labels.add(case["kind"])
    labels.add(f"baseline:{case['baseline']}")
    return Outcome(labels=sorted(labels), nontrivial=("index-round" in labels or bool(case["misuse"])))


@st.composite
def rr_cases(draw):
    n = draw(st.integers(1, 6))
    ids = draw(st.lists(st.integers(0, 40), min_size=n, max_size=n, unique=True))
    return {"tasks": ids if draw(st.booleans()) else list(range(n)), "T": draw(st.integers(1, 25)),
            "as_array": draw(st.booleans()),
            "misuse": draw(st.sampled_from([None, None, "select_select", "feedback_feedback", "feedback_first"])),
            "rseed": draw(st.integers(0, 999))}


def run_round_robin(case):
    from rl_blox.blox.multitask import RoundRobinSelector

    tasks = case["tasks"]
    n = len(tasks)
    sel = RoundRobinSelector(np.asarray(tasks) if case["as_array"] else list(tasks))
    if case["misuse"] == "feedback_first":
        _expect_raise(lambda: sel.feedback(0.0), "round_robin.protocol.feedback_before_select", "feedback before any select")
        return Outcome(labels=["misuse:feedback_first"], nontrivial=True)
    chosen = []
    labels = set()
    for step in range(case["T"]):
        tid = sel.select()
        check(any(int(tid) == int(x) for x in tasks), "round_robin.invalid_task_id", f"select() returned {tid!r}, tasks={tasks}")
        chosen.append(int(tid))
        if step == case["T"] - 1 and case["misuse"] == "select_select":
            _expect_raise(sel.select, "round_robin.protocol.select_select", "select() twice without feedback")
            labels.add("misuse:select_select")
            break
        sel.feedback(float(step))
        if step == case["T"] - 1 and case["misuse"] == "feedback_feedback":
            _expect_raise(lambda: sel.feedback(1.0), "round_robin.protocol.feedback_feedback", "feedback() twice without select")
            labels.add("misuse:feedback_feedback")
    # cycles through the tasks in order: successor of tasks[i] is tasks[i+1 mod n]
    for a, b in zip(chosen, chosen[1:]):
        i = tasks.index(a)
        check(b == tasks[(i + 1) % n], "round_robin.order", f"selected {chosen}, tasks={tasks}")
    if len(chosen) >= n:
        check(set(chosen[:n]) == set(tasks), "round_robin.cycle_incomplete", f"first {n} selections {chosen[:n]}, tasks={tasks}")
        labels.add("full-cycle")
    return Outcome(labels=sorted(labels), nontrivial=(len(chosen) > n or bool(case["misuse"])))


# =========================================================================

SUBCHECKS = [
    SubCheck("ducb", (lambda: ducb_cases(False)), run_ducb, quick=300, thorough=4500, shards=3, cost=1.5, fuzz_runs=20000,
             rule="at least one selection after the 2*n_arms initial rounds"),
    SubCheck("ducb_generalized", (lambda: ducb_cases(True)), run_ducb_generalized, quick=300, thorough=4500,
             shards=3, cost=1.5, rule="a selection after the initial rounds or a protocol misuse"),
    SubCheck("round_robin", rr_cases, run_round_robin, quick=300, thorough=4500, shards=1, fuzz_runs=12000,
             rule="more selections than tasks, or a protocol misuse"),
    SubCheck("generate_rollout", rollout_cases, run_rollout, quick=60, thorough=900, shards=1, cost=0.5,
             rule="first episode longer than one step or ended by truncation"),
    _history_sub("train_dqn", 8, 120, 4.0),
    _history_sub("train_nature_dqn", 10, 150, 4.0),
    _history_sub("train_ddqn", 10, 150, 4.0),
    _history_sub("train_ddqn_per", 8, 120, 4.0),
    _history_sub("train_ddpg", 10, 150, 5.0),
    _history_sub("train_td3", 10, 150, 5.0),
    _history_sub("train_td3_lap", 8, 120, 5.0),
    _history_sub("train_sac", 8, 150, 6.0),
    _history_sub("train_td7", 6, 120, 8.0),
    _history_sub("train_mrq", 4, 90, 10.0),
    _history_sub("train_pets", 4, 60, 8.0),
]


# =========================================================================
# batch collectors: REINFORCE, actor-critic (single env), A2C, PPO (vector)
# =========================================================================

@st.composite
def collector_cases(draw, routine):
    script = draw(scripts(2, 4))
    # a collection of a single sample is rejected by the value loss (shape
    # assertion for batch size 1: C03 territory), so every collection has >= 2
    spu = draw(st.sampled_from([2, 2, 3, 4, 6]))
    tae = draw(st.sampled_from([0, 0, 1]))
    if tae:
        for ep in script:
            ep[0] = max(2, ep[0])
    lengths = [R.episode_length(script, e) for e in range(40)]
    sizes = R.collections_from_lengths(lengths, spu, bool(tae))
    bounds = np.cumsum(sizes).tolist()
    mode = draw(st.sampled_from(["inside", "boundary", "zero", "inside", "one", "boundary", "inside"]))
    k = draw(st.integers(0, 2))
    if mode == "zero":
        budget = 0
    elif mode == "one":
        budget = 1
    elif mode == "boundary":
        budget = bounds[k]
    else:
        lo = bounds[k - 1] if k else 0
        if sizes[k] < 2:  # make room inside collection k
            budget = bounds[k]
            mode = "boundary"
        else:
            budget = lo + draw(st.integers(1, sizes[k] - 1))
    return {"routine": routine, "script": script, "script_seed": draw(st.integers(0, 999)),
            "budget": int(budget), "steps_per_update": spu, "train_after_episode": tae,
            "discrete": draw(st.sampled_from([0, 1])), "net_seed": draw(st.integers(0, 50)),
            "seed": draw(st.integers(0, 999)), "mode": mode}


def simplify_collector(case):
    import copy

    c = case
    if c["budget"] > 0:
        d = copy.deepcopy(c); d["budget"] -= 1; yield d
        d = copy.deepcopy(c); d["budget"] //= 2; yield d
    if len(c["script"]) > 1:
        d = copy.deepcopy(c); d["script"] = d["script"][:-1]; yield d
    for i, (L, _) in enumerate(c["script"]):
        if L > 1:
            d = copy.deepcopy(c); d["script"][i][0] = L - 1; yield d
    if c["steps_per_update"] > 1:
        d = copy.deepcopy(c); d["steps_per_update"] -= 1; yield d


def _overshoot(name, executed, budget, last_collection, detail):
    """Budget clause of the batch collectors.  An overshoot below one
    collection is the recorded granularity finding (D15); anything larger is a
    different violation."""
    over = executed - budget
    if over <= 0:
        return
    if over < last_collection:
        report(f"{name}.budget.overshoot_lt_one_collection",
               f"executed {executed} steps with budget {budget}: overshoot {over} < last collection "
               f"{last_collection}; {detail}")
    else:
        report(f"{name}.budget.overshoot_ge_one_collection",
               f"executed {executed} steps with budget {budget}: overshoot {over} >= last collection "
               f"{last_collection}; {detail}")


def run_collector(case):
    import gymnasium as gym

    name = case["routine"]
    script = case["script"]
    budget, spu, tae = case["budget"], case["steps_per_update"], bool(case["train_after_episode"])
    cap = 4 * budget + 12 * max(spu, 7) + 40
    space = gym.spaces.Discrete(3) if case["discrete"] else R.box_space()
    tracker = R.Tracker()
    env = R.CappedEnv(script, seed=case["script_seed"], action_space=space, step_cap=cap,
                      on_step=tracker.on_step)
    s = R.pg_state(env, bool(case["discrete"]), case["net_seed"])
    tracker.track(s.policy, s.policy_optimizer)
    from rl_blox.algorithm.actor_critic import train_ac
    from rl_blox.algorithm.reinforce import train_reinforce

    fn = {"train_reinforce": train_reinforce, "train_ac": train_ac}[name]
    capped = False
    try:
        fn(env, s.policy, s.policy_optimizer, s.value_function, s.value_function_optimizer,
           seed=case["seed"], total_timesteps=budget, steps_per_update=spu, train_after_episode=tae,
           progress_bar=False)
    except R.StepCapExceeded:
        capped = True
    log = env.log
    view = R.call_view(log, 0)
    executed = view["executed"]
    check(not log.violations, f"{name}.discipline.step_on_finished_episode", f"{log.violations[:2]}")
    check(not capped, f"{name}.stop.step_cap_exceeded", f"no stop within {cap} steps, budget {budget}")
    lengths = [e["t"] for e in view["steps"] if e["terminated"] or e["truncated"]]
    tail = executed - sum(lengths)
    sizes = R.collections_from_lengths(lengths + ([tail] if tail else []), spu, tae)
    labels = {case["mode"], "discrete" if case["discrete"] else "continuous"}
    _overshoot(name, executed, budget, sizes[-1] if sizes else 0,
               f"steps_per_update={spu} train_after_episode={tae} collections={sizes}")
    check(executed >= budget, f"{name}.budget.underrun", f"executed {executed} < budget {budget}")
    # no update before the first collection is complete
    j = R.first_update_iteration(tracker.at_step, tracker.now())
    if j is not None and sizes:
        labels.add("update-seen")
        check(j + 1 >= sizes[0], f"{name}.warmup.update_before_first_collection",
              f"first update after step {j + 1}, first collection has {sizes[0]} steps")
    if executed > budget:
        labels.add("overshoot")
    if len(sizes) >= 2:
        labels.add("multi-collection")
    return Outcome(labels=sorted(labels), nontrivial=case["mode"] in ("inside", "boundary"),
                   fp=[name, script, budget, spu, tae])


@st.composite
def a2c_cases(draw):
    n_envs = draw(st.sampled_from([2, 2, 3]))
    scr = [draw(scripts(1, 3)) for _ in range(n_envs)]
    spu = draw(st.sampled_from([1, 2, 3, 5]))
    chunk = spu * n_envs
    mode = draw(st.sampled_from(["inside", "boundary", "zero", "inside", "one", "boundary", "inside"]))
    k = draw(st.integers(0, 3))
    budget = {"zero": 0, "one": 1, "boundary": (k + 1) * chunk}.get(mode)
    if budget is None:
        budget = k * chunk + draw(st.integers(1, chunk - 1))
    return {"scripts": scr, "script_seed": draw(st.integers(0, 999)), "budget": int(budget),
            "steps_per_update": spu, "net_seed": draw(st.integers(0, 50)), "seed": draw(st.integers(0, 999)),
            "mode": mode, "stats_wrapper": draw(st.sampled_from([0, 1]))}


def run_a2c(case):
    import gymnasium as gym
    from rl_blox.algorithm.a2c import train_a2c

    scr = case["scripts"]
    n_envs = len(scr)
    budget, spu = case["budget"], case["steps_per_update"]
    chunk = spu * n_envs
    cap = 2 * budget + 6 * chunk + 40
    tracker = R.Tracker()
    venv, log, subs = R.make_capped_vector(scr, case["script_seed"], R.box_space, "next_step", cap,
                                           on_step=tracker.on_step)
    envs = gym.wrappers.vector.RecordEpisodeStatistics(venv) if case["stats_wrapper"] else venv
    s = R.pg_state(envs, False, case["net_seed"])
    tracker.track(s.policy, s.policy_optimizer, s.value_function, s.value_function_optimizer)
    capped = False
    try:
        train_a2c(envs, s.policy, s.policy_optimizer, s.value_function, s.value_function_optimizer,
                  seed=case["seed"], total_timesteps=budget, steps_per_update=spu, log_frequency=None,
                  progress_bar=False)
    except R.StepCapExceeded:
        capped = True
    real = len(log.steps())
    nominal = venv.n_vector_steps * n_envs
    check(not log.violations, "train_a2c.discipline.step_on_finished_episode", f"{log.violations[:2]}")
    check(not capped, "train_a2c.stop.step_cap_exceeded", f"no stop within {cap} steps per env, budget {budget}")
    labels = {case["mode"]}
    if real > budget:
        labels.add("overshoot")
        over_nominal = nominal - budget
        key = "overshoot_lt_one_collection" if over_nominal < chunk else "overshoot_ge_one_collection"
        report(f"train_a2c.budget.{key}",
               f"{real} environment steps ({venv.n_vector_steps} vector steps x {n_envs} envs = {nominal}) "
               f"with total_timesteps={budget}; collection = {spu} x {n_envs} = {chunk}")
    check(nominal >= budget, "train_a2c.budget.underrun", f"{nominal} < {budget}")
    check(venv.n_vector_steps % spu == 0, "train_a2c.collection.partial", f"{venv.n_vector_steps} vector steps, spu={spu}")
    j = R.first_update_iteration(tracker.at_step, tracker.now())
    if j is not None:
        labels.add("update-seen")
    if real < nominal:
        labels.add("autoreset-inside")
    return Outcome(labels=sorted(labels), nontrivial=case["mode"] in ("inside", "boundary"),
                   fp=[scr, budget, spu])


@st.composite
def ppo_cases(draw):
    n_envs = draw(st.sampled_from([1, 2, 2, 3]))
    it = draw(st.sampled_from([1, 2, 0, 3, 2]))
    bs = draw(st.sampled_from([1, 2, 4, 5]))
    scr = [draw(scripts(1, 3)) for _ in range(n_envs)]
    if n_envs * bs == 1:
        bs = 2  # a one-sample rollout is rejected inside compute_gae (0-d arrays); not a C11 matter
    if it:  # an episode ends inside the run
        scr[0][0][0] = min(scr[0][0][0], it * bs)
    return {"scripts": scr, "script_seed": draw(st.integers(0, 999)),
            "iterations": it, "batch_size": bs,
            "epochs": draw(st.sampled_from([1, 2])), "net_seed": draw(st.integers(0, 50)),
            "seed": draw(st.integers(0, 999)), "discrete": 1}


def run_ppo(case):
    import gymnasium as gym
    import optax
    from flax import nnx
    from rl_blox.algorithm.ppo import train_ppo
    from rl_blox.blox.function_approximator.mlp import MLP
    from rl_blox.blox.function_approximator.policy_head import SoftmaxPolicy

    scr = case["scripts"]
    n_envs = len(scr)
    it, bs = case["iterations"], case["batch_size"]
    cap = it * bs + 20
    venv, log, subs = R.make_capped_vector(scr, case["script_seed"], lambda: gym.spaces.Discrete(3),
                                           "same_step", cap)
    actor = SoftmaxPolicy(MLP(3, 3, [4], "relu", nnx.Rngs(case["net_seed"])))
    critic = MLP(3, 1, [4], "relu", nnx.Rngs(case["net_seed"] + 1))
    oa = nnx.Optimizer(actor, optax.adam(1e-3), wrt=nnx.Param)
    oc = nnx.Optimizer(critic, optax.adam(1e-3), wrt=nnx.Param)
    capped = False
    try:
        train_ppo(venv, actor, critic, oa, oc, iterations=it, epochs=case["epochs"], batch_size=bs,
                  seed=case["seed"], progress_bar=False)
    except R.StepCapExceeded:
        capped = True
    check(not log.violations, "train_ppo.discipline.step_on_finished_episode", f"{log.violations[:2]}")
    check(not capped, "train_ppo.stop.step_cap_exceeded", f"no stop within {cap} vector steps")
    check(venv.n_vector_steps == it * bs, "train_ppo.budget.vector_steps",
          f"{venv.n_vector_steps} vector steps, iterations x batch_size = {it * bs}")
    check(len(log.steps()) == it * bs * n_envs, "train_ppo.budget.env_steps",
          f"{len(log.steps())} env steps, expected {it * bs * n_envs}")
    ends = sum(1 for e in log.steps() if e["terminated"] or e["truncated"])
    labels = ["episode-ends" if ends else "no-episode-end", f"envs={n_envs}"]
    return Outcome(labels=labels, nontrivial=(it >= 1 and ends >= 1), fp=[scr, it, bs])


# =========================================================================
# tabular learners and CMA-ES
# =========================================================================

TABULAR = ["train_q_learning", "train_sarsa", "train_double_q_learning", "train_monte_carlo", "train_dynaq"]


@st.composite
def tabular_cases(draw):
    script = draw(scripts(1, 4))
    plan = draw(budget_plan(script, False))
    return {"routine": draw(st.sampled_from(TABULAR)), "script": script, "script_seed": draw(st.integers(0, 999)),
            "total": min(plan["remaining"], 40), "n_states": draw(st.sampled_from([4, 6])),
            "n_actions": draw(st.sampled_from([2, 3])), "seed": draw(st.integers(0, 999))}


def run_tabular(case):
    import jax.numpy as jnp

    name = case["routine"]
    total = case["total"]
    env = R.CappedTabularEnv(case["script"], n_states=case["n_states"], n_actions=case["n_actions"],
                             seed=case["script_seed"], step_cap=2 * total + 20)
    q = jnp.zeros((case["n_states"], case["n_actions"]), dtype=jnp.float32)
    kw = {"total_timesteps": total, "seed": case["seed"], "progress_bar": False}
    capped = False
    try:
        if name == "train_q_learning":
            from rl_blox.algorithm.q_learning import train_q_learning
            train_q_learning(env, q, **kw)
        elif name == "train_sarsa":
            from rl_blox.algorithm.sarsa import train_sarsa
            train_sarsa(env, q, **kw)
        elif name == "train_double_q_learning":
            from rl_blox.algorithm.double_q_learning import train_double_q_learning
            train_double_q_learning(env, q, jnp.zeros_like(q), **kw)
        elif name == "train_monte_carlo":
            from rl_blox.algorithm.monte_carlo import train_monte_carlo
            train_monte_carlo(env, q, **kw)
        else:
            from rl_blox.algorithm.dynaq import train_dynaq
            train_dynaq(env, q, n_planning_steps=1, buffer_size=2, **kw)
    except R.StepCapExceeded:
        capped = True
    log = env.log
    n = len(log.steps())
    check(not log.violations, f"{name}.discipline.step_on_finished_episode", f"{log.violations[:2]}")
    check(not capped and n <= total, f"{name}.budget.overrun", f"executed {n} steps, total_timesteps={total}")
    check(n >= total, f"{name}.budget.underrun", f"executed {n} steps, total_timesteps={total}")
    ends = [e for e in log.steps() if e["terminated"] or e["truncated"]]
    mid = n > 0 and not (log.steps()[-1]["terminated"] or log.steps()[-1]["truncated"])
    labels = [name, "mid-episode" if mid else "at-episode-end-or-zero"]
    return Outcome(labels=labels, nontrivial=(mid or len(ends) >= 1), fp=[name, case["script"], total])


@st.composite
def cmaes_cases(draw):
    return {"script": draw(scripts(1, 4)), "script_seed": draw(st.integers(0, 999)),
            "total_episodes": draw(st.sampled_from([2, 3, 5, 0, 1, 7, 9, 4])),
            "n_samples_per_update": draw(st.sampled_from([None, 2, 3, 4])),
            "net_seed": draw(st.integers(0, 50)), "seed": draw(st.integers(0, 999))}


def run_cmaes(case):
    from flax import nnx
    from rl_blox.algorithm.cmaes import train_cmaes
    from rl_blox.blox.function_approximator.mlp import MLP
    from rl_blox.blox.function_approximator.policy_head import DeterministicTanhPolicy

    script = case["script"]
    k = case["total_episodes"]
    exp = sum(R.episode_length(script, e) for e in range(k))
    env = R.CappedEnv(script, seed=case["script_seed"], action_space=R.box_space(), step_cap=exp + 30)
    policy = DeterministicTanhPolicy(MLP(3, 1, [], "relu", nnx.Rngs(case["net_seed"])), env.action_space)
    capped = False
    res = None
    try:
        res = train_cmaes(env, policy, k, seed=case["seed"], n_samples_per_update=case["n_samples_per_update"],
                          progress_bar=False)
    except R.StepCapExceeded:
        capped = True
    log = env.log
    n = len(log.steps())
    ends = sum(1 for e in log.steps() if e["terminated"] or e["truncated"])
    check(not log.violations, "train_cmaes.discipline.step_on_finished_episode", f"{log.violations[:2]}")
    check(not capped and ends <= k and n <= exp, "train_cmaes.episodes.more_than_requested",
          f"{ends} episodes / {n} steps, total_episodes={k} ({exp} steps)")
    stopped = bool(res.stopped)
    if not stopped:
        check(ends == k and n == exp, "train_cmaes.episodes.fewer_than_requested",
              f"{ends} episodes / {n} steps, total_episodes={k} ({exp} steps), stopped={stopped}")
    labels = ["stopped-early" if stopped else "ran-all", "k=0" if k == 0 else "k>0"]
    return Outcome(labels=labels, nontrivial=(k >= 2 and not stopped), fp=[script, k])


def _collector_sub(routine, quick, thorough):
    return SubCheck(routine, (lambda r=routine: collector_cases(r)), run_collector, quick=quick,
                    thorough=thorough, shards=2, shards_thorough=8, shrink=False, suppress_too_slow=True,
                    simplify=simplify_collector, cost=4.0,
                    rule="budget strictly inside a collection or exactly on a collection boundary")


SUBCHECKS += [
    _collector_sub("train_reinforce", 10, 150),
    _collector_sub("train_ac", 10, 150),
    SubCheck("train_a2c", a2c_cases, run_a2c, quick=10, thorough=150, shards=2, shards_thorough=8, shrink=False,
             suppress_too_slow=True, cost=4.0, rule="budget inside a collection or exactly a multiple of it"),
    SubCheck("train_ppo", ppo_cases, run_ppo, quick=8, thorough=120, shards=2, shards_thorough=8, shrink=False,
             suppress_too_slow=True, cost=4.0, rule=">= 1 iteration with an episode end inside"),
    SubCheck("tabular", tabular_cases, run_tabular, quick=20, thorough=300, shards=2, shards_thorough=8,
             shrink=False, suppress_too_slow=True, cost=3.0,
             rule="budget ends mid-episode or >= 1 episode finished"),
    SubCheck("train_cmaes", cmaes_cases, run_cmaes, quick=10, thorough=150, shards=1, shards_thorough=4,
             shrink=False, suppress_too_slow=True, cost=2.0, rule=">= 2 requested episodes, not stopped early"),
]


# =========================================================================
# multi-task schedulers: train_uts, train_smt, train_active_mt
# =========================================================================

UTS_BACKBONES = ["train_td3", "train_sac", "train_nature_dqn", "train_ddqn"] + ([] if QUICK else ["train_td7", "train_mrq"])
# (the DQN variants are the backbones of examples/amt_discrete_example.py and smt_discrete_example.py)
MT_BACKBONES = ["train_ddpg", "train_td3", "train_sac", "train_ddqn", "train_nature_dqn"]
AMT_SELECTORS = ["Round Robin", "1-step Progress", "Monotonic Progress", "Best Reward", "Diversity", "rr-instance"]


class RecordingBackbone:
    """Wraps a train_st: records the arguments the scheduler passed and what
    the call did according to the env log."""

    def __init__(self, fn, log):
        self.fn, self.log, self.calls = fn, log, []

    def __call__(self, *a, **kw):
        lo = len(self.log.events)
        rec = {k: kw.get(k) for k in ("global_step", "total_timesteps", "total_episodes", "learning_starts", "seed")}
        rec["kwargs"] = sorted(kw)
        self.calls.append(rec)
        try:
            r = self.fn(*a, **kw)
        finally:
            steps = [e for e in self.log.events[lo:] if e["kind"] == "step"]
            rec["executed"] = len(steps)
            rec["ends"] = sum(1 for e in steps if e["terminated"] or e["truncated"])
        rec["ret"] = getattr(r, "global_step", getattr(r, "steps_trained", None))
        return r


class RecordingSelector:
    """Duck-typed TaskSelector that delegates and records the protocol."""

    def __init__(self, inner):
        self.inner, self.ops = inner, []

    def select(self):
        t = self.inner.select()
        self.ops.append(("select", t))
        return t

    def feedback(self, reward):
        self.ops.append(("feedback", float(reward)))
        return self.inner.feedback(reward)


@st.composite
def sched_cases(draw, sched, real):
    n_tasks = draw(st.sampled_from([2, 3, 1, 4, 5, 2, 3]))
    kind = draw(st.sampled_from(["discrete", "vector"]))
    # real backbones re-trace their jitted steps in every call: keep the number of calls small
    short = st.sampled_from([2, 3, 3, 4, 5, 6] if real else [1, 1, 2, 2, 3, 4, 5])
    n_scripts = 1 if kind == "discrete" else n_tasks
    scr = [[[draw(short), draw(st.sampled_from(["term", "trunc"]))] for _ in range(draw(st.integers(1, 4)))]
           for _ in range(n_scripts)]
    interval = draw(st.sampled_from([1, 1, 2, 3]))
    budget = draw(st.integers(12, 28) if real else st.integers(5, 70))
    if real and sched == "uts" and draw(st.sampled_from([0] * 5 + [1] + [0] * 5)):
        # witness for a counter that never advances: one-step episodes, one episode per call
        scr = [[[1, draw(st.sampled_from(["term", "trunc"]))]] for _ in range(n_scripts)]
        interval, budget = 1, draw(st.integers(2, 4))
    special = draw(st.sampled_from([None] * 7 + [0, 1] + [None] * 7))
    if special is not None and not real:  # zero / one-step budgets: stub variants only
        budget = special
    case = {"sched": sched, "taskset": kind, "n_tasks": n_tasks, "scripts": scr,
            "script_seed": draw(st.integers(0, 999)), "interval": interval, "budget": int(budget),
            "learning_starts": draw(st.sampled_from([0, 3, 10, 1000])), "seed": draw(st.integers(0, 99)),
            "context_aware": draw(st.sampled_from([0, 0, 1])) if (kind == "discrete" and not real) else 0}
    if real:
        case["backbone"] = draw(st.sampled_from(UTS_BACKBONES if sched == "uts" else MT_BACKBONES))
        case["cfg"] = {"learning_starts": case["learning_starts"], "batch_size": draw(st.sampled_from([2, 3])),
                       "buffer_size": 200, "net_seed": draw(st.integers(0, 50)), "update_frequency": 1,
                       "target_update_frequency": 2, "policy_delay": draw(st.sampled_from([1, 2])),
                       "gradient_steps": 1, "target_delay": 2, "use_checkpoints": 0}
    if sched == "smt":
        # (b2 == 0 and b1 == 0 crash, see KNOWN_FINDINGS: generated for the stub variants only)
        b1 = max(1 if budget else 0, (budget * draw(st.sampled_from([2, 1, 3, 2] if real else [2, 1, 4, 3, 2]))) // 4)
        if draw(st.sampled_from([0] * 6 + [1] + [0] * 6)) and not real:
            b1 = 0
        keep_running = real or draw(st.sampled_from([1, 0, 1]))
        case.update({"b1": int(b1), "b2": int(budget - b1),
                     "K": draw(st.sampled_from([n_tasks, 1, max(1, n_tasks - 1)])),
                     "n_average": draw(st.sampled_from([1, 2, 3])),
                     "kappa": draw(st.sampled_from([0.8, 0.3, 0.1, 0.02])),
                     # keep_running: no task is ever "solved", so stage 1 uses its whole budget
                     "solved": 1e9 if keep_running else draw(st.sampled_from([2.5, -1.0, 6.0, 1e9])),
                     "unsolvable": draw(st.sampled_from([1e9, -1e9, 3.0, 1e9]))})
    if sched == "amt":
        case.update({"selector": draw(st.sampled_from(AMT_SELECTORS)), "r_max": draw(st.sampled_from([1.0, 10.0])),
                     "ducb_gamma": draw(st.sampled_from([0.95, 1.0, 0.5])), "xi": draw(st.sampled_from([0.002, 0.5]))})
    if real:
        # the schedulers hand their logger to every backbone call: one logger object sees the whole run
        case["logger"] = draw(st.sampled_from(["memory", None, "snapshot", None, "memory"]))
        if case["logger"]:
            case["logger_pre"] = draw(st.sampled_from([0, 2, 0, 1]))
    return case


def simplify_sched(case):
    import copy

    c = case
    if c.get("logger"):
        d = copy.deepcopy(c); d["logger"] = None; yield d
    if c["budget"] > 1:
        for nb in (c["budget"] - 1, c["budget"] // 2):
            d = copy.deepcopy(c)
            if c["sched"] == "smt":
                d["b1"] = min(c["b1"], nb); d["b2"] = nb - d["b1"]
            d["budget"] = nb
            yield d
    if c["n_tasks"] > 1:
        d = copy.deepcopy(c); d["n_tasks"] -= 1
        if c["taskset"] == "vector":
            d["scripts"] = d["scripts"][:-1]
        if c["sched"] == "smt":
            d["K"] = min(d["K"], d["n_tasks"])
        yield d
    for i, sc in enumerate(c["scripts"]):
        if len(sc) > 1:
            d = copy.deepcopy(c); d["scripts"][i] = sc[:-1]; yield d
        for j, (L, _) in enumerate(sc):
            if L > 1:
                d = copy.deepcopy(c); d["scripts"][i][j][0] = L - 1; yield d
    if c["interval"] > 1:
        d = copy.deepcopy(c); d["interval"] -= 1; yield d


def run_sched(case):
    import warnings

    import gymnasium as gym
    from rl_blox.blox.replay_buffer import MultiTaskReplayBuffer, ReplayBuffer

    sched, n = case["sched"], case["n_tasks"]
    budget = case["budget"]
    real = "backbone" in case
    who = case["backbone"] if real else "stub"
    pfx = {"uts": "train_uts", "smt": "train_smt", "amt": "train_active_mt"}[sched] + "." + who
    discrete_actions = real and case["backbone"] in ("train_nature_dqn", "train_ddqn")
    space = gym.spaces.Discrete(3) if discrete_actions else R.box_space()
    cap = (budget + 12) if real else (3 * budget + 60)
    scripts_ = case["scripts"] if case["taskset"] == "vector" else case["scripts"][:1]
    if case["taskset"] == "vector":
        scripts_ = [scripts_[i % len(scripts_)] for i in range(n)]
    ts, log, n_tasks, task_of, envs = R.make_task_set(case["taskset"], scripts_ if case["taskset"] == "vector" else scripts_ * n,
                                                      case["script_seed"], space, cap,
                                                      context_aware=bool(case.get("context_aware")))
    if real:
        if case["backbone"] in ("train_nature_dqn", "train_ddqn"):
            ad = R.NatureDQNBackbone(dict(case["cfg"]))
            if case["backbone"] == "train_ddqn":
                from rl_blox.algorithm.ddqn import train_ddqn
                ad.fn = lambda: train_ddqn
        else:
            ad = R.ADAPTERS[case["backbone"]](dict(case["cfg"]))
        ad.setup(envs[0])
        inner = ad.partial()
    else:
        inner = R.StubBackbone()
    bb = RecordingBackbone(inner, log)
    logger = R.make_logger(case.get("logger"), case.get("logger_pre", 0))
    mtrb = MultiTaskReplayBuffer(ReplayBuffer(200, discrete_actions=discrete_actions), n)
    capped = False
    zero_crash = None
    training_steps = None
    selector = None
    with warnings.catch_warnings():
        warnings.simplefilter("ignore")
        try:
            if sched == "uts":
                from rl_blox.algorithm.uniform_task_sampling import train_uts

                st_fn = bb
                if real:
                    from functools import partial
                    st_fn = partial(bb, replay_buffer=ad.rb)
                train_uts(ts, st_fn, total_timesteps=budget, episodes_per_task=case["interval"],
                          seed=case["seed"], exploring_starts=case["learning_starts"], progress_bar=False,
                          logger=logger)
            elif sched == "smt":
                from rl_blox.algorithm.smt import train_smt

                _, training_steps, _ = train_smt(
                    ts, bb, mtrb, b1=case["b1"], b2=case["b2"], solved_threshold=case["solved"],
                    unsolvable_threshold=case["unsolvable"], scheduling_interval=case["interval"],
                    kappa=case["kappa"], K=case["K"], n_average=case["n_average"],
                    learning_starts=case["learning_starts"], seed=case["seed"], progress_bar=False,
                    logger=logger)
            else:
                from rl_blox.algorithm.active_mt import TASK_SELECTORS, train_active_mt
                from rl_blox.blox.multitask import RoundRobinSelector

                if case["selector"] == "rr-instance":
                    sel_inner = RoundRobinSelector(np.arange(n))
                else:
                    cls, kw = TASK_SELECTORS[case["selector"]]
                    hp = {"upper_bound": case["r_max"], "ducb_gamma": case["ducb_gamma"], "zeta": case["xi"]}
                    hp.update(kw)
                    sel_inner = cls(tasks=np.arange(n), **hp)
                selector = RecordingSelector(sel_inner)
                _, training_steps = train_active_mt(
                    ts, bb, mtrb, r_max=case["r_max"], ducb_gamma=case["ducb_gamma"], xi=case["xi"],
                    task_selector=selector if case["seed"] % 2 or case["selector"] == "rr-instance" else case["selector"],
                    total_timesteps=budget, scheduling_interval=case["interval"],
                    learning_starts=case["learning_starts"], seed=case["seed"], progress_bar=False,
                    logger=logger)
        except R.StepCapExceeded:
            capped = True
        except UnboundLocalError as e:
            # a scheduler whose loop makes no backbone call has no result to return
            if sched == "smt":
                # stage 1 (b1 == 0) or stage 2 (b2 == 0 with tasks left for it) makes no call
                no_call_expected = (case["b1"] == 0 and not bb.calls) or (case["b2"] == 0 and case["b1"] > 0)
                zero_what = "zero_stage1_budget" if case["b1"] == 0 else "zero_stage2_budget"
            else:
                no_call_expected = budget == 0 and not bb.calls
                zero_what = "zero_budget"
            if not no_call_expected:
                raise
            zero_crash = str(e)
    steps = log.steps()
    executed = len(steps)
    labels = {case["taskset"], f"tasks={min(n, 3)}{'+' if n > 3 else ''}"}
    if real:
        labels.add("backbone:" + who)
    if logger is not None:
        labels.add("logger:" + case["logger"])
    if zero_crash:
        report(f"{pfx.split('.')[0]}.{zero_what}.raises_UnboundLocalError",
               f"budget={budget} b1={case.get('b1')}: {zero_crash}")
        return Outcome(labels=sorted(labels | {"zero-budget-crash"}), nontrivial=False)
    check(not log.violations, f"{pfx}.discipline.step_on_finished_episode", f"{log.violations[:2]}")
    n_limited = sum(1 for c in bb.calls if c["total_episodes"] is not None and c.get("ends", 0) >= c["total_episodes"])
    over = executed - budget
    if capped or over > 0:
        labels.add("overrun")
        if real and sched == "uts" and over <= n_limited:
            # consequence of the backbones' off-by-one counters (D12): one step per
            # backbone call that was stopped by its episode limit.  With one-step
            # episodes the counter never advances and the scheduler never finishes.
            key = "never_finishes_overrun_le_one_per_episode_limited_call" if capped else "overrun_le_one_per_episode_limited_call"
            report(f"{pfx}.budget.{key}",
                   f"executed {executed}{'+ (step cap hit, scheduler still running)' if capped else ''} steps with "
                   f"total_timesteps={budget}: overrun {over} <= {n_limited} backbone calls stopped by "
                   f"total_episodes; returned counters {[c.get('ret') for c in bb.calls][:12]}")
        else:
            report(f"{pfx}.budget.overrun",
                   f"executed {executed}{'+ (step cap)' if capped else ''} steps with budget {budget}; "
                   f"{len(bb.calls)} backbone calls, {n_limited} stopped by the episode limit")
    per_task = [0] * n
    for e in steps:
        t = task_of(e)
        check(t is not None and 0 <= int(t) < n, f"{pfx}.invalid_task", f"step attributed to task {t!r}")
        per_task[int(t)] += 1
    if not real:
        # what the scheduler passed to the conforming backbone
        run = 0
        for i, c in enumerate(inner.calls):
            exp_total = budget if sched != "smt" else None
            if sched == "uts":
                check(c["start"] == run, f"{pfx}.global_step_passed",
                      f"call {i}: global_step={c['start']} but {run} steps were executed before")
            if exp_total is not None:
                check(c["total"] == exp_total, f"{pfx}.total_timesteps_passed", f"call {i}: {c['total']} != {exp_total}")
            check(c["total_episodes"] == case["interval"], f"{pfx}.total_episodes_passed",
                  f"call {i}: {c['total_episodes']} != {case['interval']}")
            check(c["learning_starts"] == case["learning_starts"], f"{pfx}.learning_starts_passed",
                  f"call {i}: {c['learning_starts']}")
            run += c["executed"]
    if real:
        # every backbone call, from the env log: it stops exactly when the episodes it was asked for have
        # finished or the step budget it was given is used up -- not earlier, not later
        for i, c in enumerate(bb.calls):
            E, T, g = c["total_episodes"], c["total_timesteps"], c["global_step"]
            if E is None or T is None or g is None or "executed" not in c or (capped and i == len(bb.calls) - 1):
                continue
            if logger is not None and i >= 1:
                labels.add("logger-reused-by-backbone-calls")
            check(c["ends"] >= E or c["executed"] >= T - g, f"{pfx}.backbone_call.stops_early",
                  lambda: f"backbone call {i} (global_step={g}, total_timesteps={T}, total_episodes={E}, logger="
                          f"{case.get('logger')}) stopped after {c['executed']} steps / {c['ends']} finished episodes: "
                          f"neither the episode limit nor the budget was reached; calls so far "
                          f"{[(x.get('executed'), x.get('ends')) for x in bb.calls[:i + 1]]}")
            check(E <= 0 or c["ends"] <= E, f"{pfx}.backbone_call.episodes_after_limit",
                  lambda: f"backbone call {i} finished {c['ends']} episodes with total_episodes={E}")
    if sched in ("uts", "amt"):
        # both schedulers run until the budget is used up (real backbones included)
        check(executed >= budget, f"{pfx}.budget.underrun", f"executed {executed} < budget {budget}")
    if training_steps is not None:
        ts_list = [int(x) for x in np.asarray(training_steps).tolist()]
        check(len(ts_list) == n, f"{pfx}.totals.length", f"{ts_list}")
        check(sum(ts_list) == executed, f"{pfx}.totals.sum_ne_executed",
              f"per-task totals {ts_list} sum to {sum(ts_list)}, env log has {executed} steps ({per_task} per task)")
        check(ts_list == per_task, f"{pfx}.totals.per_task_mismatch",
              f"reported {ts_list}, executed per task {per_task}")
        check(sum(ts_list) <= budget, f"{pfx}.totals.sum_gt_budget", f"{ts_list} sum {sum(ts_list)} > {budget}")
    if selector is not None and selector.ops:
        labels.add("selector-recorded")
        for i, (op, val) in enumerate(selector.ops):
            check(op == ("select" if i % 2 == 0 else "feedback"), f"{pfx}.selector.alternation",
                  f"op {i} is {op}: {[o for o, _ in selector.ops][:10]}")
            if op == "select":
                check(0 <= int(val) < n, f"{pfx}.selector.invalid_task_id", f"{val!r}")
    trained = sum(1 for x in per_task if x > 0)
    mid = executed > 0 and not (steps[-1]["terminated"] or steps[-1]["truncated"])
    if mid:
        labels.add("ends-mid-episode")
    if trained >= 2:
        labels.add("multi-task-trained")
    if sched == "smt":
        labels.add("stage2" if executed > case["b1"] else "stage1-only")
        if executed < budget:
            labels.add("early-stop")
    labels.add(f"calls={min(len(bb.calls), 3)}{'+' if len(bb.calls) > 3 else ''}")
    nt = len(bb.calls) >= 2 and (mid or trained >= 2)
    fp = [sched, who, case["taskset"], n, case["scripts"], budget, case["interval"], case.get("b1"), case.get("selector"),
          case.get("logger")]
    return Outcome(labels=sorted(labels), nontrivial=nt, fp=fp)


def _sched_sub(name, sched, real, quick, thorough, cost, shards):
    return SubCheck(name, (lambda s=sched, r=real: sched_cases(s, r)), run_sched, quick=quick, thorough=thorough,
                    shards=shards, shards_thorough=8, shrink=False, suppress_too_slow=True, simplify=simplify_sched,
                    cost=cost, rule=">= 2 backbone calls and (the budget ends mid-episode or >= 2 tasks were trained)")


SUBCHECKS += [
    _sched_sub("uts_stub", "uts", False, 40, 600, 1.0, 2),
    _sched_sub("smt_stub", "smt", False, 60, 900, 1.0, 2),
    _sched_sub("amt_stub", "amt", False, 60, 900, 1.0, 2),
    # few cases per shard make the fixed first (minimal) example of every shard weigh heavily: few shards
    _sched_sub("uts_real", "uts", True, 12, 180, 12.0, 2),
    _sched_sub("smt_real", "smt", True, 9, 135, 12.0, 1),
    _sched_sub("amt_real", "amt", True, 9, 135, 12.0, 1),
]
