"""C02 Replay buffer is a faithful fixed-capacity FIFO of whole transitions.

A *case* is a buffer configuration plus a JSON list of operations

    ["add", k]            k additions to the (selected task's) buffer
    ["sample", b, seed]   sample_batch(b, np.random.default_rng(seed)), called the way the
                          repository's own callers do (all positional)
    ["sweep"]             one sample_batch call through a StubGenerator that returns every
                          admissible index (per task for the multi-task buffer)
    ["len"]               len(buffer)
    ["select", t]         select_task(t); t may be invalid (multi-task only)
    ["save", how]         pickle.dumps / copy.deepcopy of the buffer (a read: the buffer that keeps
                          running must be unchanged)
    ["reload", how]       the run continues with the pickle round trip / deep copy of the buffer
    ["edge"]              sample_batch through a stub generator that returns the extreme values a
                          generator can return (0.0, the largest double below 1; low, high - 1)

which is interpreted against the real buffer and against an independent list-based
reference model (a python list of the added transitions per task).  Every field of the
i-th addition to task t is an injective function of (i, t) plus a per-case salt (hash of the case), so every
sampled row can be decoded field by field.  The same interpreter (`run_case`) serves
Hypothesis, `--replay` and the optional coverage-guided tier (vlib/fuzz_ops.py).

Oracle clauses are written from the property statement (DESIGN.md §5 C02); the reference
model never looks at insert_idx / current_len.
"""
import numpy as np
from hypothesis import strategies as st

from vlib import gen
from vlib.core import Outcome, SubCheck, check, fingerprint, report
from vlib.instruments import StubGenerator

PROPERTY = "C02"
RULE = (
    "Cases are operation sequences (add bursts / sample with a seeded generator / exhaustive sweep "
    "through a stub generator / draws at the extreme values a generator can return / len / select_task with valid "
    "and invalid ids / taking a pickle or deep copy of the running buffer / continuing with such a copy) drawn by "
    "Hypothesis "
    "over ReplayBuffer, LAP, PrioritizedReplayBuffer and MultiTaskReplayBuffer(inner, 1-4 tasks), "
    "capacities 1-12 (a quarter of the single-buffer cases 13-40), six key/dtype/shape schemas. Non-trivial (single): a sample or sweep is executed "
    "when more transitions were added than the capacity (after wrap-around). Non-trivial (multitask): "
    "additionally at least two tasks held data at that moment. Distinct = distinct (kind, tasks, "
    "capacity, schema, operation list without generator seeds)."
)
ASSUMPTIONS = [
    "values stay inside the range of their storage dtype (int8 fields receive values in -128..127), "
    "as the repository's callers do; out-of-range casts are outside the property",
    "batch sizes >= 1; sampling from a buffer (or multi-task buffer) without data is outside the contract "
    "and is remapped to an addition",
    "sample_batch is called positionally (batch_size, rng), the only form used in rl_blox/algorithm; "
    "MultiTaskReplayBuffer rejects a positional rng combined with keyword arguments (noted in DESIGN §6, not claimed)",
    "priorities are never updated here (C08), so LAP/PER sample uniformly over live slots",
    "x64 disabled (library regime): float64 storage is returned as float32, int64 as int32",
    "slot layout clause (addition i in slot i mod N) follows the ring write documented in the anchors; "
    "the public-API sweep clause is layout independent",
]

KINDS = ("uniform", "lap", "per")

# name -> (constructor kwargs builder, [(key, storage dtype, shape spec)])
# shape spec entries: "d" (obs dim), "a" (action dim) or literal ints
SCHEMAS = {
    "default": (lambda: {}, [
        ("observation", "float64", ("d",)), ("action", "float64", ("a",)), ("reward", "float64", ()),
        ("next_observation", "float64", ("d",)), ("termination", "int64", ())]),
    "discrete": (lambda: {"discrete_actions": True}, [
        ("observation", "float64", ("d",)), ("action", "int64", ()), ("reward", "float64", ()),
        ("next_observation", "float64", ("d",)), ("termination", "int64", ())]),
    "a2c": (lambda: {"keys": ["obs", "actions", "rewards", "terminations", "truncations"],
                     "dtypes": [float, float, float, int, int]}, [
        ("obs", "float64", ("d",)), ("actions", "float64", ("a",)), ("rewards", "float64", ()),
        ("terminations", "int64", ()), ("truncations", "int64", ())]),
    "typed": (lambda: {"keys": ["x", "flag", "y", "idx"],
                       "dtypes": [np.float32, np.int8, np.float64, np.int32]}, [
        ("x", "float32", (2, 2)), ("flag", "int8", ()), ("y", "float64", ("d",)), ("idx", "int32", ("a",))]),
    "single": (lambda: {"keys": ["episode_return"], "dtypes": [float]}, [
        ("episode_return", "float64", ())]),
    "matrix": (lambda: {}, [
        ("observation", "float64", (2, 2)), ("action", "float64", ()), ("reward", "float64", ()),
        ("next_observation", "float64", (2, 2)), ("termination", "int64", ())]),
}
SCHEMA_NAMES = sorted(SCHEMAS)

# documented return dtype of a sampled field under the library's x64-off regime
SAMPLE_DTYPE = {"float64": "float32", "int64": "int32", "float32": "float32", "int32": "int32", "int8": "int8"}


def _shape(spec, d, a):
    return tuple({"d": d, "a": a}.get(s, s) for s in spec)


def field_value(f, dtype, shape, i, t, salt):
    """Value of field number f of the i-th addition to task t (what the caller passes)."""
    n = int(np.prod(shape)) if shape else 1
    e = np.arange(n)
    if dtype.startswith("float"):
        # integer part identifies (i, t); the fraction (< 0.91, not float32 representable)
        # carries the salt, the field and the element position
        frac = ((salt + f * 7 + e * 3 + i * 13) % 9973) / 11003.0
        v = (i + 4096 * t) + frac
        v = v.astype(np.float64)
    elif dtype == "int8":
        v = (((4 * i + t + salt + e) % 256) - 128).astype(np.int64)
    else:
        v = ((i + 4096 * t) + 16384 * ((salt + f + e) % 1000)).astype(np.int64)
    v = v.reshape(shape)
    if shape == ():
        # scalars are passed as python numbers, the way training loops pass reward / termination
        return float(v) if dtype.startswith("float") else int(v)
    return v


class Model:
    """List-based reference: per task the list of everything ever added."""

    def __init__(self, case):
        self.N = case["capacity"]
        self.n_tasks = max(1, case["n_tasks"])
        self.multi = case["n_tasks"] > 0
        self.added = [[] for _ in range(self.n_tasks)]  # rows: {key: (storage array, sampled array)}
        self.selected = 0

    def live(self, t):
        rows = self.added[t]
        return list(range(max(0, len(rows) - self.N), len(rows)))

    def length(self, t):
        return min(len(self.added[t]), self.N)

    def active(self):
        return [t for t in range(self.n_tasks) if self.added[t]]


class Interp:
    def __init__(self, case, sub):
        from rl_blox.blox.replay_buffer import (
            LAP,
            MultiTaskReplayBuffer,
            PrioritizedReplayBuffer,
            ReplayBuffer,
        )

        self.sub = sub
        self.case = case
        self.kind = case["kind"]
        cls = {"uniform": ReplayBuffer, "lap": LAP, "per": PrioritizedReplayBuffer}[self.kind]
        kwargs_fn, fields = SCHEMAS[case["schema"]]
        self.fields = [(k, dt, _shape(sp, case["d"], case["a"])) for k, dt, sp in fields]
        self.keys = [k for k, _, _ in self.fields]
        self.m = Model(case)
        inner = cls(case["capacity"], **kwargs_fn())
        if self.m.multi:
            self.buf = MultiTaskReplayBuffer(inner, case["n_tasks"])
            check(len(self.buf.buffers) == case["n_tasks"], f"{sub}.tasks.n_buffers",
                  lambda: f"{len(self.buf.buffers)} buffers for n_tasks={case['n_tasks']}")
            self.bufs = list(self.buf.buffers)
        else:
            self.buf = inner
            self.bufs = [inner]
        # per-case salt derived from the case content (deterministic; differs between cases, so
        # rows left in uninitialised memory by other cases do not look like this case's rows)
        self.salt = int(fingerprint(case), 16) % 9973
        self.snap = [self._snapshot(t) for t in range(self.m.n_tasks)]
        self.labels = set()
        self.nt = False
        self.n_ops = 0

    # ---------------------------------------------------------------- helpers
    def _snapshot(self, t):
        b = self.bufs[t]
        return (len(b),) + tuple((k, a.dtype, a.shape, a.tobytes()) for k, a in b.buffer.items())

    def _row(self, i, t):
        row = {}
        kw = {}
        for f, (k, dt, shape) in enumerate(self.fields):
            v = field_value(f, dt, shape, i, t, self.salt)
            kw[k] = v
            stored = np.asarray(v).astype(dt)
            row[k] = (stored, stored.astype(SAMPLE_DTYPE[dt]))
        ko = self.case.get("kw_order", 0)
        if ko:
            keys = list(kw)
            keys = keys[::-1] if ko == -1 else keys[ko % len(keys):] + keys[:ko % len(keys)]
            kw = {k: kw[k] for k in keys}
        return kw, row

    def _verify_storage(self, t, where):
        """Clauses: len == min(n, N); slot i mod N holds addition i for the last N additions,
        bytes equal to the value cast to the storage dtype."""
        sub, m = self.sub, self.m
        b = self.bufs[t]
        n = len(m.added[t])
        check(len(b) == m.length(t), f"{sub}.len",
              lambda: f"after {where}: len(task {t})={len(b)}, expected min({n},{m.N})={m.length(t)}")
        if n == 0:
            return
        check(list(b.buffer.keys()) == self.keys, f"{sub}.storage.keys", lambda: f"{list(b.buffer.keys())}")
        for k, dt, shape in self.fields:
            arr = b.buffer[k]
            check(str(arr.dtype) == dt, f"{sub}.storage.dtype", lambda: f"{k}: {arr.dtype} != {dt}")
            check(arr.shape == (m.N,) + shape, f"{sub}.storage.shape",
                  lambda: f"{k}: {arr.shape} != {(m.N,) + shape}")
            for i in m.live(t):
                exp = m.added[t][i][k][0]
                check(arr[i % m.N].tobytes() == exp.tobytes(), f"{sub}.storage.slot_content",
                      lambda: f"after {where}: task {t} field {k} slot {i % m.N} should hold addition {i} "
                              f"= {exp.tolist()}, holds {arr[i % m.N].tolist()}")

    def _after_op(self, changed, where):
        """Storage of `changed` tasks is verified against the model, everything else must be
        byte-identical to what it was before the operation."""
        for t in range(self.m.n_tasks):
            s = self._snapshot(t)
            if t in changed:
                self._verify_storage(t, where)
            else:
                clause = "tasks.other_task_changed" if changed else "storage.changed_by_read"
                check(s == self.snap[t], f"{self.sub}.{clause}",
                      lambda: f"{where} changed the storage of task {t}")
            self.snap[t] = s
        if self.m.multi:
            tot = sum(self.m.length(t) for t in range(self.m.n_tasks))
            check(len(self.buf) == tot, f"{self.sub}.tasks.len", lambda: f"after {where}: {len(self.buf)} != {tot}")

    def _live_table(self, tasks):
        """[(task, i)], {key: stacked expected sampled arrays}"""
        ids = [(t, i) for t in tasks for i in self.m.live(t)]
        tab = {}
        for k, dt, shape in self.fields:
            tab[k] = np.stack([self.m.added[t][i][k][1] for t, i in ids]) if ids else None
        return ids, tab

    def _check_batch(self, batch, n_rows, tasks, where, tag):
        """Every row is one live stored transition, all fields from the same one, of a single task.
        Returns the list of matched (task, i)."""
        sub = self.sub
        check(tuple(getattr(batch, "_fields", ())) == tuple(self.keys), f"{sub}.{tag}.field_order",
              lambda: f"{getattr(batch, '_fields', None)} != {self.keys}")
        ids, tab = self._live_table(tasks)
        per_field = []
        for k, dt, shape in self.fields:
            got = np.asarray(getattr(batch, k))
            check(str(got.dtype) == SAMPLE_DTYPE[dt], f"{sub}.{tag}.dtype",
                  lambda: f"{k}: {got.dtype}, documented storage {dt} -> {SAMPLE_DTYPE[dt]}")
            if n_rows is not None:
                check(got.shape == (n_rows,) + shape, f"{sub}.{tag}.batch_shape",
                      lambda: f"{where}: {k} has shape {got.shape}, requested {(n_rows,) + shape}")
            else:
                check(got.shape[1:] == shape, f"{sub}.{tag}.batch_shape", lambda: f"{k}: {got.shape}")
            eq = got[:, None, ...] == tab[k][None, ...]
            eq = eq.reshape(eq.shape[0], eq.shape[1], -1).all(-1)  # (B, L)
            per_field.append(eq)
        B = per_field[0].shape[0]
        for eq in per_field:
            check(eq.shape[0] == B, f"{sub}.{tag}.batch_shape", "fields of different batch length")
        allf = np.logical_and.reduce(per_field)
        matched = []
        for r in range(B):
            if not allf[r].any():
                each = [bool(eq[r].any()) for eq in per_field]
                vals = {k: np.asarray(getattr(batch, k))[r].tolist() for k in self.keys}
                if all(each):
                    report(f"{sub}.{tag}.field_alignment",
                           f"{where}: row {r} mixes fields of different stored transitions: "
                           f"{ {k: [ids[j] for j in np.nonzero(eq[r])[0]] for k, eq in zip(self.keys, per_field)} }")
                else:
                    report(f"{sub}.{tag}.row_not_live",
                           f"{where}: row {r} = {vals} is none of the live transitions "
                           f"(unwritten, overwritten or modified slot); live ids {ids}")
                matched.append(None)
                continue
            matched.append(ids[int(np.nonzero(allf[r])[0][0])])
        ts = sorted({mt[0] for mt in matched if mt is not None})
        check(len(ts) <= 1, f"{sub}.{tag}.mixed_tasks", lambda: f"{where}: batch contains rows of tasks {ts}")
        return matched

    # -------------------------------------------------------------------- ops
    def apply(self, op):
        self.n_ops += 1
        name = op[0]
        m = self.m
        if name == "select" and not m.multi:
            name, op = "len", ["len"]
        if name in ("sample", "sweep", "edge") and not m.active():
            name, op = "add", ["add", 1]  # precondition by construction
            self.labels.add("remapped-empty-sample")
        getattr(self, "op_" + name)(*op[1:])

    def op_add(self, k):
        m = self.m
        t = m.selected
        for _ in range(int(k)):
            i = len(m.added[t])
            kw, row = self._row(i, t)
            self.buf.add_sample(**kw)
            m.added[t].append(row)
            self._after_op({t}, f"addition {i} to task {t}")
        if len(m.added[t]) > m.N:
            self.labels.add("wrapped")
        if len(m.added[t]) == m.N:
            self.labels.add("exactly-full")

    def op_len(self):
        self._after_op(set(), "len")
        self.labels.add("len")

    def op_save(self, how):
        """Taking a copy of the buffer (pickle.dumps / copy.deepcopy, the way a checkpoint is written or a
        MultiTaskReplayBuffer is built from a buffer in use) is a read: the buffer that keeps running still
        holds exactly what it held."""
        import copy
        import pickle

        if how == "deepcopy":
            copy.deepcopy(self.buf)
        else:
            pickle.dumps(self.buf)
        self._after_op(set(), f"{how} of the buffer")
        self.labels.add("save-" + how)
        if any(len(a) > self.m.N for a in self.m.added):
            self.labels.add("save-after-wrap")

    def op_reload(self, how):
        """The run continues with a copy of the buffer (pickle round trip / copy.deepcopy, the way a run is
        resumed from a checkpoint or a MultiTaskReplayBuffer is built from a buffer in use): the copy holds
        exactly what the buffer held, and every later clause applies to it."""
        import copy
        import pickle

        new = copy.deepcopy(self.buf) if how == "deepcopy" else pickle.loads(pickle.dumps(self.buf))
        self._after_op(set(), f"{how} of the buffer")
        self.buf = new
        self.bufs = list(new.buffers) if self.m.multi else [new]
        for t in range(self.m.n_tasks):
            self._verify_storage(t, f"continuing with the {how} copy")
            self.snap[t] = self._snapshot(t)
        self.labels.add("reload-" + how)
        if any(len(a) > self.m.N and len(a) % self.m.N for a in self.m.added):
            self.labels.add("reload-after-partial-wrap")

    def op_edge(self):
        """One sample_batch call per task with data whose generator returns the extreme values a real generator
        can return (uniform: 0.0 and the largest double below 1; integers: low and high - 1): every row is still a
        live transition."""
        m = self.m
        top = float(np.nextafter(1.0, 0.0))
        for t in m.active():
            L = m.length(t)
            q = {}
            if self.kind == "uniform":
                q["integers"] = [lambda lo, hi, size: np.asarray([lo, hi - 1, hi - 1, lo])]
            else:
                q["uniforms"] = [np.asarray([0.0, top, top, 0.5])]
            if m.multi:
                q["choices"] = [lambda a, size, t=t: np.asarray([t])]
            stub = StubGenerator(seed=0, **q)
            where = f"extreme-value draw from task {t}"
            out = self.buf.sample_batch(4, stub)
            used = {c[0] for c in stub.calls}
            if ("integers" if self.kind == "uniform" else "uniform") not in used or stub.q_int or stub.q_uni:
                self.labels.add("edge-unsupported")
                continue
            batch = self._unpack(out, where)
            self._check_batch(batch, 4, [t], where, "edge")
            self._mark_nt(t)
            self._after_op(set(), where)
        self.labels.add("edge")

    def op_select(self, t):
        m = self.m
        t = int(t)
        if 0 <= t < m.n_tasks:
            self.buf.select_task(t)
            m.selected = t
            self.labels.add("select-valid")
        else:
            try:
                self.buf.select_task(t)
            except ValueError:
                pass
            else:
                report(f"{self.sub}.select.invalid_accepted",
                       f"select_task({t}) with {m.n_tasks} tasks did not raise ValueError")
            self.labels.add("select-invalid")
        self._after_op(set(), f"select_task({t})")

    def _mark_nt(self, task):
        m = self.m
        wrapped = len(m.added[task]) > m.N
        if wrapped:
            self.labels.add("sample-after-wrap")
        if m.multi:
            if len(m.active()) >= 2:
                self.labels.add("sample-with-2+-tasks")
            if wrapped and len(m.active()) >= 2:
                self.nt = True
        elif wrapped:
            self.nt = True

    def _unpack(self, out, where):
        if self.kind == "per":
            check(isinstance(out, tuple) and len(out) == 2 and not hasattr(out, "_fields"),
                  f"{self.sub}.sample.per_return", lambda: f"{where}: expected (batch, importance_ratio)")
            return out[0]
        return out

    def op_sample(self, b, seed):
        m = self.m
        b = int(b)
        rng = np.random.default_rng(int(seed))
        where = f"sample_batch({b}, default_rng({seed}))"
        out = self.buf.sample_batch(b, rng)
        batch = self._unpack(out, where)
        matched = self._check_batch(batch, b, m.active(), where, "sample")
        tasks = sorted({x[0] for x in matched if x is not None})
        if tasks:
            self._mark_nt(tasks[0])
            if m.length(tasks[0]) < m.N:
                self.labels.add("sample-before-full")
            if b > m.length(tasks[0]):
                self.labels.add("batch>len")
        self._after_op(set(), where)
        self.labels.add("sample")

    def op_sweep(self):
        """One sample_batch call that returns every admissible index, per task with data."""
        m = self.m
        for t in m.active():
            L = m.length(t)
            q = {}
            if self.kind == "uniform":
                q["integers"] = [lambda lo, hi, size: np.arange(lo, hi)]
            elif self.kind == "lap":
                q["uniforms"] = [(np.arange(L) + 0.5) / L]  # all priorities are the initial one
            else:
                q["uniforms"] = [np.full(L, 0.5)]  # stratified: the middle of each of the L strata
            if m.multi:
                offered = []
                q["choices"] = [lambda a, size, t=t: (offered.extend(int(x) for x in a), np.asarray([t]))[1]]
            stub = StubGenerator(seed=0, **q)
            where = f"sweep of task {t}"
            out = self.buf.sample_batch(L, stub)
            used = {c[0] for c in stub.calls}
            if ("integers" if self.kind == "uniform" else "uniform") not in used or stub.q_int or stub.q_uni:
                self.labels.add("sweep-unsupported")  # sampler does not draw the way the stub expects
                continue
            if m.multi:
                check(sorted(offered) == m.active(), f"{self.sub}.tasks.candidate_tasks",
                      lambda: f"tasks offered to rng.choice {sorted(offered)}, tasks with data {m.active()}")
            batch = self._unpack(out, where)
            matched = self._check_batch(batch, None, [t], where, "sweep")
            got = sorted(x[1] for x in matched if x is not None)
            if self.kind == "uniform":
                check(got == m.live(t), f"{self.sub}.sweep.exact_contents",
                      lambda: f"{where}: enumerating every admissible index returned additions {got}, "
                              f"the buffer should hold exactly {m.live(t)}")
            else:
                check(sorted(set(got)) == m.live(t), f"{self.sub}.sweep.exact_contents",
                      lambda: f"{where}: returned additions {got}, the buffer should hold {m.live(t)}")
            self._mark_nt(t)
            self._after_op(set(), where)
        self.labels.add("sweep")


def run_case(case, sub):
    it = Interp(case, sub)
    for op in case["ops"]:
        it.apply(op)
    labels = sorted(it.labels) + [f"kind={case['kind']}", f"schema={case['schema']}",
                                  "cap=1" if case["capacity"] == 1 else ("cap<=3" if case["capacity"] <= 3 else "cap>3")]
    if case["n_tasks"]:
        labels.append(f"tasks={case['n_tasks']}")
    fp = [case["kind"], case["n_tasks"], case["capacity"], case["schema"], case["d"], case["a"],
          [op[:2] if op[0] == "sample" else op for op in case["ops"]]]
    return Outcome(labels=labels, nontrivial=it.nt, fp=fp)


def run_single(case):
    return run_case(case, "single")


def run_multi(case):
    return run_case(case, "multitask")


# ------------------------------------------------------------------ generators

def _max_ops():
    return 40 if gen.tier() == "quick" else 200


def _ops(cap, multi, n_tasks):
    add = st.tuples(st.just("add"), st.one_of(st.integers(1, 3), st.integers(1, cap + 2), st.just(cap)))
    sample = st.tuples(st.just("sample"),
                       st.one_of(st.integers(1, 4), st.integers(1, 2 * cap + 2), st.sampled_from([1, 8, 16])),
                       gen.seeds())
    save = st.tuples(st.just("save"), st.sampled_from(["pickle", "deepcopy"]))
    reload_ = st.tuples(st.just("reload"), st.sampled_from(["pickle", "deepcopy"]))
    alts = [add, add, add, sample, sample, st.just(("sweep",)), st.just(("len",)), save, reload_, st.just(("edge",))]
    if multi:
        sel = st.tuples(st.just("select"), st.one_of(st.integers(0, n_tasks - 1), st.integers(0, n_tasks - 1),
                                                      st.integers(-2, n_tasks + 2), st.just(10**6)))
        alts += [sel, sel, sel]
    return st.lists(st.one_of(*alts).map(list), min_size=4, max_size=_max_ops())


@st.composite
def _cases(draw, multi):
    kind = draw(st.sampled_from(["uniform", "uniform", "lap", "per"]))
    cap = draw(st.one_of(st.integers(1, 12), st.sampled_from([1, 2, 3, 4]), st.integers(1, 12), st.integers(13, 40)))
    n_tasks = draw(st.sampled_from([1, 2, 2, 2, 3, 3, 3, 4, 4])) if multi else 0
    if multi and cap > 6:
        cap = 1 + cap % 6  # keep per-task wrap-around frequent
    # Constructed prefix (not filtered): a fill burst per task in a drawn order, with amounts
    # around the capacity, so that most sequences start their free part from a state that is
    # empty / partly filled / exactly full / wrapped, per task.  The prefix is ordinary ops.
    fill = st.one_of(st.integers(0, cap + 3), st.sampled_from([0, cap - 1, cap, cap + 1, 2 * cap + 1]))
    prefix = []
    if multi:
        order = draw(st.permutations(list(range(n_tasks))))
        for t in order:
            k = draw(fill)
            if k > 0:
                prefix += [["select", t], ["add", k]]
    else:
        k = draw(fill)
        if k > 0:
            prefix.append(["add", k])
    case = {
        "kind": kind, "n_tasks": n_tasks, "capacity": cap,
        "schema": draw(st.sampled_from(SCHEMA_NAMES)), "d": draw(st.sampled_from([1, 2, 3])),
        "a": draw(st.sampled_from([1, 2])),
        "ops": prefix + draw(_ops(cap, multi, max(1, n_tasks))),
        # add_sample takes keyword arguments: the order in which a caller writes them is free.
        # "kw_order" is a rotation / reversal of the constructor's key order used for every add.
        "kw_order": draw(st.sampled_from([0, 0, 1, 2, -1])),
    }
    return case


def single_cases():
    return _cases(False)


def multi_cases():
    return _cases(True)


SUBCHECKS = [
    SubCheck("single", single_cases, run_single, quick=800, thorough=10000, cost=1.0, fuzz_runs=40000,
             rule="a sample or exhaustive sweep executed after wrap-around (additions > capacity)"),
    SubCheck("multitask", multi_cases, run_multi, quick=800, thorough=10000, cost=1.5, fuzz_runs=40000,
             rule="a sample or sweep executed after wrap-around of the sampled task while >= 2 tasks hold data"),
]
