"""C13 Policy heads: sampling, log-probability and entropy describe one
distribution; greedy / epsilon-greedy selection; exploration frequency of the
value-based training loops.

Closed-form float64 references (softmax, diagonal Gaussian with
std = exp(clip(0.5*log_var, -20, 2))) are evaluated on the float32 outputs of
the very networks under the heads; sampling is checked through key-determined
standardised noise (identical across different networks), frequencies with
exact binomial / Poisson-binomial tails at 1e-9.  See DESIGN.md §5 C13, §11.
"""
import math

import numpy as np
from hypothesis import strategies as st

from vlib import binomtail, gen
from vlib import policy_nets as pn
from vlib.core import Outcome, SubCheck, check, close

PROPERTY = "C13"
RULE = (
    "Cases are drawn by Hypothesis. Heads: a single unbatched observation or batches of 1,2,3,5,8 rows, "
    "action dims 1-4 (2/3/5 discrete actions), MLP / GaussianMLP (shared and separate heads) with output biases "
    "set to drawn logits (up to +-1e4, ties) / means / log-variances (up to +-100, at and beyond the clip range "
    "[-40, 4]) and output kernels scaled by 0 / 1 / 30. Non-trivial = batch shape other than (2,), or action dim "
    ">= 2, or a clipped log-variance (softmax: batch shape other than (2,) or extreme logits). greedy / eps_freq: Q-tables "
    "with 1, 2 or 3 observation axes (1-5 entries each; a pool of 19 shapes in the quick tier) and 2-5 actions, as "
    "make_q_table builds them for Discrete and Tuple(Discrete, ...) observation spaces, the observation handed over "
    "as the tabular loops do (an int, or a tuple of python / numpy ints indexing all observation axes); greedy: "
    "non-trivial = the queried Q row is not constant. eps_freq: 2000 keys at the drawn epsilon plus 600 keys at "
    "epsilon 1 on a second table per case (legal action indices, uniform over the n_actions); *_freq: every case is a "
    "frequency experiment over >= 2000 draws. "
    "run_<dqn variant>: a history of one or two training calls: a fresh run (1000-1200 steps; 100-120 in the 'early' "
    "pattern), warm-up 0/10/25/40 % of that budget, and in 7 of 8 patterns (dqn: 3 of 4) its documented continuation on "
    "the same objects with global_step = the reported step under an extended total_timesteps, so that the continuing "
    "call starts at 30/40/50/60 % of its budget (beyond the decay phase) or at 5/8 % (inside it); the continuation runs "
    "to the budget (<= 1200 further steps) or is ended by total_episodes after ~300 steps; expected exploration "
    "probabilities are those of linear_schedule(total_timesteps of the call) at the absolute step; non-trivial = at "
    "least 100 executed steps of one call after warm-up and epsilon-decay phase; run_<tabular>: three runs per case (epsilon 0, 1, intermediate). Distinct = distinct canonical case."
)
ASSUMPTIONS = [
    "float32 arithmetic; references in float64 from the float32 network outputs; log-density tolerances scale with "
    "the squared standardised residual (float32 evaluation of ((a-mean)/std)^2)",
    "statistical clauses use exact binomial / Poisson-binomial tails with false-alarm probability <= 1e-9 per "
    "comparison and are deterministic for a given case",
    "DQN-family runs: the documented schedule is epsilon 1.0 -> 0.1 linearly over the first 10% of total_timesteps, "
    "random actions before learning_starts, both counted in absolute steps: a call that continues a run (global_step > 0, "
    "'Global step to start training from') uses epsilon = linear_schedule(total_timesteps)[step] like a call that "
    "reaches that step from 0 (learning_starts never exceeds the continuation point in the generated histories, so its "
    "reading on continuation is not exercised); the API offers no way to configure an epsilon end of 0, so the "
    "'exactly 0 non-greedy actions' clause is checked on the tabular loops (epsilon=0, learning rate 0)",
    "tabular runs use learning rate 0 (Monte Carlo: visit counts 1e30) so that the current estimate is the initial "
    "table at every step; the table returned by the run is compared bytewise to confirm it",
    "random actions of the DQN family come from env.action_space.sample(); the checks seed the action space from the case",
]

_QUICK = lambda: gen.tier() == "quick"  # noqa: E731


def _jnp():
    import jax.numpy as jnp

    return jnp


def _pool(xs, wide=None):
    if _QUICK() or wide is None:
        return st.sampled_from(xs)
    return st.one_of(st.sampled_from(xs), wide)


def _batch():
    """0 = single unbatched observation, else number of rows."""
    return _pool([0, 0, 1, 2, 3, 5, 8], st.integers(1, 12))


def _obs(case):
    shape = (case["obs_dim"],) if case["batch"] == 0 else (case["batch"], case["obs_dim"])
    return gen.rng_array(case["obs_seed"], shape, case.get("obs_scale", 1.0))


def _bshape(case):
    return () if case["batch"] == 0 else (case["batch"],)


# --------------------------------------------------------------------- softmax

LOGIT_POOL = [0.0, 0.0, 1.0, -1.0, 0.5, 3.0, -3.0, 50.0, -50.0, 88.0, -104.0, 1e4, -1e4]


@st.composite
def softmax_cases(draw):
    na = draw(_pool([2, 3, 5], st.integers(2, 9)))
    case = {
        "batch": draw(_batch()), "obs_dim": draw(_pool([1, 3], st.integers(1, 5))), "n_actions": na,
        "hidden": draw(st.sampled_from([[], [4]])), "net_seed": draw(gen.seeds()), "obs_seed": draw(gen.seeds()),
        "kscale": draw(st.sampled_from([0.0, 1.0, 1.0, 30.0])),
        "logits": draw(st.lists(st.one_of(st.sampled_from(LOGIT_POOL), gen.f32(-10.0, 10.0)),
                                min_size=na, max_size=na)),
        "key_seeds": draw(st.lists(gen.seeds(), min_size=2, max_size=2)),
        "act_seed": draw(gen.seeds()),
    }
    # rows of one batch whose logits live at very different levels (softmax is shift-invariant per row, so every
    # row is still the same kind of distribution): a linear head whose first input feature adds the same amount to
    # every action, and observations that carry a per-row level in that feature
    if case["batch"] >= 2 and draw(st.sampled_from([True, False, False])):
        case["hidden"] = []
        case["row_levels"] = draw(st.lists(st.sampled_from(ROW_LEVELS), min_size=case["batch"], max_size=case["batch"]))
    return case


ROW_LEVELS = [-150.0, 0.0, 300.0, -1000.0, 120.0, 0.0]


def _softmax_policy(case):
    from rl_blox.blox.function_approximator.policy_head import SoftmaxPolicy

    net = pn.make_mlp(case["obs_dim"], case["n_actions"], case["hidden"], case["net_seed"])
    pn.scale_output_kernels(net, case["kscale"])
    pn.set_bias(net.output_layer, case["logits"])
    if case.get("row_levels"):
        k = np.array(net.output_layer.kernel.value)
        k[0, :] = 1.0
        net.output_layer.kernel.value = _jnp().asarray(k)
    return SoftmaxPolicy(net)


def _softmax_obs(case):
    obs = _obs(case)
    if case.get("row_levels"):
        obs = np.array(obs)
        obs[:, 0] = np.asarray(case["row_levels"], dtype=np.float32)
    return obs


def run_softmax(case):
    jnp = _jnp()
    import jax

    na, bs = case["n_actions"], _bshape(case)
    policy = _softmax_policy(case)
    obs = jnp.asarray(_softmax_obs(case))
    L = np.asarray(policy.logits(obs))
    assert L.shape == bs + (na,), L.shape
    p_ref, logp_ref, h_ref = pn.softmax_ref(L)
    lmax = float(np.abs(L).max())
    # probabilities
    p = np.asarray(policy(obs))
    check(p.shape == L.shape, "softmax.probs.shape", f"{p.shape} vs {L.shape}")
    check(bool(np.all(np.isfinite(p))), "softmax.probs.finite", lambda: f"logits={L.tolist()}")
    check(bool(np.all(p >= 0.0)), "softmax.probs.nonnegative", lambda: f"min {p.min()}")
    check(bool(np.all(np.abs(p.astype(np.float64).sum(-1) - 1.0) <= 2e-6 * na + 1e-6)), "softmax.probs.sum_to_one",
          lambda: f"sums {p.astype(np.float64).sum(-1).tolist()} logits={L.tolist()}")
    check(close(p, p_ref, rel=3e-5, abs_=2e-7), "softmax.probs.value",
          lambda: f"p={p.tolist()} ref={p_ref.tolist()}")
    # log-probability of every action (and of a drawn action vector)
    r = np.random.default_rng(case["act_seed"])
    drawn = r.integers(0, na, size=bs)
    tol_abs = 4e-6 * (1.0 + lmax)
    for a in [None] + list(range(na)):
        acts = drawn if a is None else np.full(bs, a, dtype=np.int64)
        lp = np.asarray(policy.log_probability(obs, jnp.asarray(acts, dtype=jnp.int32)))
        check(lp.shape == bs, "softmax.log_prob.shape", f"{lp.shape} vs {bs}")
        ref = np.take_along_axis(logp_ref, np.asarray(acts)[..., None], axis=-1)[..., 0]
        check(bool(np.all(np.abs(lp - ref) <= tol_abs + 1e-5 * np.abs(ref))), "softmax.log_prob.value",
              lambda: f"actions={np.asarray(acts).tolist()} lp={lp.tolist()} ref={ref.tolist()} logits={L.tolist()}")
        # ... equals the log of the selected probability entry (where that is a normal float32)
        pa = np.take_along_axis(p.astype(np.float64), np.asarray(acts)[..., None], axis=-1)[..., 0]
        ok = pa > 1e-30
        # (logits of magnitude M are normalised in float32: L - logsumexp(L) carries an error of ~1e-7 * M)
        check(bool(np.all(np.abs(lp[ok] - np.log(pa[ok])) <= tol_abs + 2e-5 * (1.0 + np.abs(lp[ok])))),
              "softmax.log_prob.is_log_of_selected_probability",
              lambda: f"lp={lp.tolist()} log p={np.log(np.maximum(pa, 1e-300)).tolist()}")
    # entropy
    h = np.asarray(policy.entropy(obs))
    check(h.shape == bs, "softmax.entropy.shape", f"{h.shape} vs {bs}")
    check(close(h, h_ref, scale=math.log(na), rel=1e-4, abs_=2e-5), "softmax.entropy.value",
          lambda: f"h={h.tolist()} ref={h_ref.tolist()} logits={L.tolist()}")
    # samples are actions of positive probability; a key determines the sample
    for ks in case["key_seeds"]:
        key = jax.random.key(ks)
        s = np.asarray(policy.sample(obs, key))
        check(s.shape == bs, "softmax.sample.shape", f"{s.shape} vs {bs}")
        check(np.issubdtype(s.dtype, np.integer), "softmax.sample.integer", f"{s.dtype}")
        check(bool(np.all((s >= 0) & (s < na))), "softmax.sample.in_range", f"{s.tolist()}")
        ps = np.take_along_axis(p_ref, s[..., None].astype(np.int64), axis=-1)[..., 0]
        check(bool(np.all(ps >= 1e-12)), "softmax.sample.has_positive_probability",
              lambda: f"sample={s.tolist()} p={ps.tolist()}")
        s2 = np.asarray(policy.sample(obs, key))
        check(np.array_equal(s, s2), "softmax.sample.key_determines_sample", f"{s.tolist()} vs {s2.tolist()}")
    extreme = lmax > 80.0
    labels = ["single" if case["batch"] == 0 else f"batch={case['batch']}", f"A={na}",
              "extreme-logits" if extreme else "moderate-logits",
              "ties" if len(set(case["logits"])) < na else "no-ties"]
    if case.get("row_levels"):
        lv = case["row_levels"]
        labels.append("row-levels-apart>104" if max(lv) - min(lv) > 104.0 else "row-levels-close")
    return Outcome(labels=labels, nontrivial=(case["batch"] != 2 or extreme))


@st.composite
def softmax_freq_cases(draw):
    na = draw(st.sampled_from([2, 3, 5]))
    logits = draw(st.lists(st.one_of(gen.f32(-3.0, 3.0), st.sampled_from([0.0, 0.0, -1e4])), min_size=na, max_size=na))
    if all(l == -1e4 for l in logits):
        logits[0] = 0.0
    return {"n_actions": na, "logits": logits, "obs_dim": 3, "hidden": draw(st.sampled_from([[], [4]])),
            "net_seed": draw(gen.seeds()), "obs_seed": draw(gen.seeds()), "kscale": draw(st.sampled_from([0.0, 1.0])),
            "key_seed": draw(gen.seeds()), "rows": 256, "n_keys": 8}


def run_softmax_freq(case):
    jnp = _jnp()
    import jax

    na = case["n_actions"]
    c = dict(case, batch=0)
    policy = _softmax_policy(c)
    o = _obs(c)
    obs = jnp.asarray(np.tile(o[None, :], (case["rows"], 1)))
    L = np.asarray(policy.logits(jnp.asarray(o)))
    p_ref = pn.softmax_ref(L)[0]
    counts = np.zeros(na, dtype=np.int64)
    keys = jax.random.split(jax.random.key(case["key_seed"]), case["n_keys"])
    for k in keys:
        s = np.asarray(policy.sample(obs, k))
        counts += np.bincount(s.reshape(-1), minlength=na)
    n = case["rows"] * case["n_keys"]
    for a in range(na):
        lo, hi = binomtail.interval([p_ref[a]] * n, 1e-9 / na)
        check(lo <= counts[a] <= hi, "softmax.sample.frequency_matches_probability",
              lambda: f"action {a}: {counts[a]}/{n} sampled, p={p_ref[a]:.6g}, admissible [{lo},{hi}] logits={L.tolist()}")
    return Outcome(labels=[f"A={na}", "has-zero-prob" if p_ref.min() < 1e-30 else "all-positive"], nontrivial=True)


# -------------------------------------------------------------------- Gaussian

MEAN_POOL = [0.0, 0.0, 1.0, -1.0, 0.3, 10.0, -10.0, 1e3]
LV_POOL = [0.0, 0.0, 1.0, -1.0, -5.0, 3.0, 4.0, 3.99, 4.01, 5.0, 50.0, 100.0, -39.0, -40.0, -41.0, -50.0, -100.0]


def _gauss_spec(draw, d):
    return {
        "mean": draw(st.lists(st.one_of(st.sampled_from(MEAN_POOL), gen.f32(-3.0, 3.0)), min_size=d, max_size=d)),
        "lv": draw(st.lists(st.one_of(st.sampled_from(LV_POOL), gen.f32(-8.0, 4.0)), min_size=d, max_size=d)),
        "seed": draw(gen.seeds()), "kscale": draw(st.sampled_from([0.0, 0.0, 1.0, 30.0])),
        "shared": draw(st.booleans()),
    }


@st.composite
def gaussian_cases(draw):
    d = draw(_pool([1, 2, 3, 4], st.integers(1, 6)))
    return {
        "head": draw(st.sampled_from(["gaussian", "gaussian", "tanh_gaussian"])),
        "batch": draw(_batch()), "obs_dim": draw(_pool([1, 3], st.integers(1, 5))), "act_dim": d,
        "hidden": draw(st.sampled_from([[], [4]])), "obs_seed": draw(gen.seeds()),
        "box": draw(st.sampled_from(["unit", "asym", "wide", "tiny"])),
        "net": _gauss_spec(draw, d), "net2": _gauss_spec(draw, d),
        "z_seed": draw(gen.seeds()), "z_scale": draw(st.sampled_from([1.0, 1.0, 4.0, 0.0])),
        "key_seeds": draw(st.lists(gen.seeds(), min_size=2, max_size=2)),
    }


def _gauss_policy(case, spec):
    from rl_blox.blox.function_approximator.policy_head import GaussianPolicy, GaussianTanhPolicy

    d = case["act_dim"]
    net = pn.make_gaussian_mlp(spec["shared"], case["obs_dim"], d, case["hidden"], spec["seed"])
    pn.scale_output_kernels(net, spec["kscale"])
    pn.set_gaussian_output_bias(net, spec["mean"], spec["lv"])
    if case["head"] == "gaussian":
        return GaussianPolicy(net), None
    space = pn.box_for(case["box"], d)
    info = {"scale": (space.high.astype(np.float64) - space.low.astype(np.float64)) / 2.0,
            "bias": (space.high.astype(np.float64) + space.low.astype(np.float64)) / 2.0}
    return GaussianTanhPolicy(net, space), info


def _dist_ref(case, policy, info, obs):
    """(mean32 used by the library, mean_ref64, std_ref64, log_var32)."""
    y, lv = policy.net(obs)
    y, lv = np.asarray(y), np.asarray(lv)
    std = pn.gaussian_std_ref(lv)
    if case["head"] == "gaussian":
        return y, y.astype(np.float64), std, lv
    mean_ref = pn.tanh_mean_ref(y, info["scale"], info["bias"])
    mean_lib, _ = policy(obs)
    return np.asarray(mean_lib), mean_ref, std, lv


def run_gaussian(case):
    jnp = _jnp()
    import jax

    d, bs = case["act_dim"], _bshape(case)
    head = case["head"]
    policy, info = _gauss_policy(case, case["net"])
    obs = jnp.asarray(_obs(case))
    mean32, mean_ref, std_ref, lv = _dist_ref(case, policy, info, obs)
    assert lv.shape == bs + (d,), lv.shape
    sub = head
    # float32 forward-pass allowance (eager here, jit-compiled inside `sample`): a few 1e-7 of the summed
    # term magnitudes of each output; d_mean for the (tanh-scaled) mean, d_lstd for log std
    g_mean, g_lv = pn.output_gross(policy.net, obs)
    d_lstd = 0.5 * 4e-7 * g_lv
    d_mean = 4e-7 * g_mean * (np.abs(info["scale"]) if info else 1.0) + (
        4e-7 * (np.abs(info["scale"]) + np.abs(info["bias"])) if info else 0.0)
    # __call__
    if head == "gaussian":
        out = np.asarray(policy(obs))
        check(out.shape == bs + (d,) and out.tobytes() == mean32.tobytes(), "gaussian.call.returns_network_mean",
              lambda: f"{out.tolist()} vs {mean32.tolist()}")
    else:
        m, s = policy(obs)
        m, s = np.asarray(m), np.asarray(s)
        check(m.shape == bs + (d,) and s.shape == bs + (d,), "tanh_gaussian.call.shape", f"{m.shape} {s.shape}")
        amag = np.abs(info["scale"]) + np.abs(info["bias"])
        check(bool(np.all(np.abs(m - mean_ref) <= d_mean + 4e-7 * amag + 1e-6 * np.abs(mean_ref))),
              "tanh_gaussian.call.mean_is_tanh_scaled_to_box", lambda: f"{m.tolist()} vs {mean_ref.tolist()}")
        check(bool(np.all(np.abs(s - std_ref) <= (1e-5 + d_lstd) * std_ref)),
              "tanh_gaussian.call.std_is_exp_clipped_half_log_var",
              lambda: f"std={s.tolist()} ref={std_ref.tolist()} log_var={lv.tolist()}")
    # log-density at actions mean + std * z
    z = gen.rng_array(case["z_seed"], bs + (d,), case["z_scale"]).astype(np.float64)
    z = np.clip(z, -6.0, 6.0)
    a32 = (mean32.astype(np.float64) + std_ref * z).astype(np.float32)
    lp = np.asarray(policy.log_probability(obs, jnp.asarray(a32)))
    check(lp.shape == bs, sub + ".log_prob.shape", f"{lp.shape} vs {bs}")
    ref, mag = pn.gaussian_logp_ref(mean32.astype(np.float64), std_ref, a32)
    check(bool(np.all(np.isfinite(lp))) and bool(np.all(np.abs(lp - ref) <= 4e-6 * (mag + 1.0) + 1e-5 * np.abs(ref))),
          sub + ".log_prob.value",
          lambda: f"lp={lp.tolist()} ref={ref.tolist()} mean={mean32.tolist()} log_var={lv.tolist()} a={a32.tolist()}")
    # entropy: per dimension, closed form with the clipped std
    h = np.asarray(policy.entropy(obs))
    h_ref = pn.gaussian_entropy_ref(std_ref)
    check(h.shape == bs + (d,), sub + ".entropy.shape", f"{h.shape} vs {bs + (d,)}")
    check(close(h, h_ref, scale=1.0, rel=1e-5, abs_=2e-5), sub + ".entropy.value",
          lambda: f"h={h.tolist()} ref={h_ref.tolist()} log_var={lv.tolist()}")
    # samples
    policy2, info2 = _gauss_policy(case, case["net2"])
    mean32b, _, std_refb, _ = _dist_ref(case, policy2, info2, obs)
    g_mean_b, g_lv_b = pn.output_gross(policy2.net, obs)
    d_lstd_b = 0.5 * 4e-7 * g_lv_b
    d_mean_b = 4e-7 * g_mean_b * (np.abs(info2["scale"]) if info2 else 1.0) + (
        4e-7 * (np.abs(info2["scale"]) + np.abs(info2["bias"])) if info2 else 0.0)
    informative = 0
    for ks in case["key_seeds"]:
        key = jax.random.key(ks)
        s = np.asarray(policy.sample(obs, key))
        check(s.shape == bs + (d,), sub + ".sample.shape", f"{s.shape} vs {bs + (d,)}")
        check(bool(np.all(np.isfinite(s))), sub + ".sample.finite", lambda: f"{s.tolist()}")
        s_again = np.asarray(policy.sample(obs, key))
        check(s.tobytes() == s_again.tobytes(), sub + ".sample.key_determines_sample", "two calls differ")
        if head == "tanh_gaussian":
            nrm = np.asarray(jax.random.normal(key, bs + (d,)))
            std_lib = np.asarray(policy(obs)[1])
            ref_s = mean32.astype(np.float64) + std_lib.astype(np.float64) * nrm.astype(np.float64)
            tol = 3e-7 * (np.abs(mean32) + np.abs(std_lib * nrm)) + d_mean + d_lstd * np.abs(std_lib * nrm) + 1e-37
            check(bool(np.all(np.abs(s - ref_s) <= tol)), "tanh_gaussian.sample.is_mean_plus_std_times_normal_of_key",
                  lambda: f"sample={s.tolist()} ref={ref_s.tolist()}")
        # standardised noise: identical for a different network with the same key and shape
        s_b = np.asarray(policy2.sample(obs, key))
        z1 = (s.astype(np.float64) - mean32) / std_ref
        z2 = (s_b.astype(np.float64) - mean32b) / std_refb
        t1 = (4e-7 * (np.abs(s) + np.abs(mean32)) + d_mean) / std_ref + (2e-6 + d_lstd) * np.abs(z1)
        t2 = (4e-7 * (np.abs(s_b) + np.abs(mean32b)) + d_mean_b) / std_refb + (2e-6 + d_lstd_b) * np.abs(z2)
        check(bool(np.all(np.abs(z1 - z2) <= t1 + t2 + 1e-6)), sub + ".sample.standardised_noise_same_across_networks",
              lambda: f"z1={z1.tolist()} z2={z2.tolist()} tol={(t1 + t2).tolist()} log_var={lv.tolist()} "
                      f"log_var2={_dist_ref(case, policy2, info2, obs)[3].tolist()}")
        inf = (t1 + t2) < 0.05
        informative += int(inf.sum())
        check(bool(np.all(np.abs(z1[t1 < 0.05]) < 7.0)), sub + ".sample.noise_is_standard_scale",
              lambda: f"z={z1.tolist()}")
    clipped = bool(np.any((0.5 * lv.astype(np.float64) < -20.0) | (0.5 * lv.astype(np.float64) > 2.0)))
    labels = [head, "single" if case["batch"] == 0 else f"batch={case['batch']}", f"d={d}",
              "clipped-log-var" if clipped else "unclipped",
              "shared-head" if case["net"]["shared"] else "separate-heads",
              "noise-informative" if informative else "noise-lost-to-rounding"]
    return Outcome(labels=labels, nontrivial=(case["batch"] != 2 or d >= 2 or clipped))


@st.composite
def gaussian_freq_cases(draw):
    d = draw(st.sampled_from([1, 2, 3]))
    return {"head": draw(st.sampled_from(["gaussian", "tanh_gaussian"])), "act_dim": d, "obs_dim": 3, "batch": 512,
            "hidden": [], "obs_seed": draw(gen.seeds()), "box": "wide",
            "net": {"mean": draw(st.lists(gen.f32(-2.0, 2.0), min_size=d, max_size=d)),
                    "lv": draw(st.lists(st.sampled_from([0.0, -2.0, 2.0, -6.0, 4.0, 9.0]), min_size=d, max_size=d)),
                    "seed": draw(gen.seeds()), "kscale": 0.0, "shared": draw(st.booleans())},
            "key_seed": draw(gen.seeds()), "n_keys": 4}


def run_gaussian_freq(case):
    """Moments of the standardised noise over rows x keys: mean 0, variance 1
    (a sampler using a different scale than log_probability / entropy fails)."""
    jnp = _jnp()
    import jax

    policy, info = _gauss_policy(case, case["net"])
    obs = jnp.asarray(_obs(case))
    mean32, _, std_ref, lv = _dist_ref(case, policy, info, obs)
    zs = []
    for k in jax.random.split(jax.random.key(case["key_seed"]), case["n_keys"]):
        s = np.asarray(policy.sample(obs, k), dtype=np.float64)
        zs.append((s - mean32) / std_ref)
    z = np.stack(zs)  # (keys, rows, d)
    n = z.shape[0] * z.shape[1]
    m = z.mean(axis=(0, 1))
    v = z.var(axis=(0, 1))
    # 6.5 sigma: P < 1e-10 per statistic (normal mean exactly; variance of n >= 2048 draws: sd = sqrt(2/n))
    check(bool(np.all(np.abs(m) <= 6.5 / math.sqrt(n) + 1e-4)), case["head"] + ".sample.noise_mean_zero",
          lambda: f"mean of standardised noise {m.tolist()} over {n} draws, log_var={lv[0].tolist()}")
    check(bool(np.all(np.abs(v - 1.0) <= 6.5 * math.sqrt(2.0 / n) + 0.02)), case["head"] + ".sample.noise_variance_one",
          lambda: f"variance of standardised noise {v.tolist()} over {n} draws, log_var={lv[0].tolist()}")
    return Outcome(labels=[case["head"], f"d={case['act_dim']}"], nontrivial=True)


# ------------------------------------------------------ greedy / epsilon-greedy

# Q-table shapes = observation axes + (n_actions,): make_q_table builds one observation axis for Discrete
# observation spaces and one per component for Tuple(Discrete, ...) spaces (Blackjack: (32, 11, 2, 2)); the
# tabular algorithms hand the environment's observation over unchanged: an int or a tuple of ints, so that
# q_table[observation] is the row of action values.  Quick-tier pool (every new shape is a handful of XLA
# compilations); axis sizes mostly differ from n_actions so that a count taken from the wrong axis shows.
TABLE_SHAPES_ND = [
    (3, 2, 4), (2, 5, 3), (2, 3, 2, 4), (5, 1, 2), (3, 5, 2, 2), (1, 4, 5), (4, 3, 2), (2, 2, 5, 3), (3, 3, 3),
    (4, 1, 3, 5), (5, 4, 3, 2), (1, 1, 1, 2), (2, 4, 3),
    (2, 2), (3, 4), (6, 3), (5, 2), (1, 3), (4, 5),
]
OBS_FORMS = ["tuple", "np_tuple", "int"]  # python ints (Blackjack) / numpy integers (Tuple.sample()) / plain int


@st.composite
def table_cases(draw):
    """{"shape": observation axes + [n_actions], "state": one index per observation axis, "obs_form"}."""
    if _QUICK():
        shape = list(draw(st.sampled_from(TABLE_SHAPES_ND)))
    else:
        # 1-3 observation axes of 1-5 entries, 2-5 actions (two of three cases), or a pool shape
        n_axes = draw(st.sampled_from([2, 3, 1]))
        free = [draw(st.sampled_from([3, 5, 1, 2, 4])) for _ in range(n_axes)] + [draw(st.sampled_from([4, 2, 3, 5]))]
        pooled = list(draw(st.sampled_from(TABLE_SHAPES_ND)))
        shape = free if draw(st.sampled_from([True, True, False])) else pooled
    state = [draw(st.sampled_from(list(range(n))[::-1])) for n in shape[:-1]]
    form = draw(st.sampled_from(OBS_FORMS if len(shape) == 2 else OBS_FORMS[:2]))
    return {"shape": shape, "state": state, "obs_form": form}


def _table_obs(case):
    """(index tuple for the numpy reference, observation as the tabular algorithms pass it)."""
    state = case["state"]
    idx = tuple(state) if isinstance(state, list) else (int(state),)
    form = case.get("obs_form", "int")
    if form == "int":
        assert len(idx) == 1
        return idx, int(idx[0])
    if form == "np_tuple":
        return idx, tuple(np.int64(i) for i in idx)
    return idx, tuple(int(i) for i in idx)


def _table(shape, seed, scale, levels):
    """Integer-level table (ties are likely for few levels) times scale."""
    r = np.random.default_rng(seed)
    return (r.integers(-levels, levels + 1, size=shape) * scale).astype(np.float32)


def _table_labels(case):
    shape = case["shape"]
    return [f"obs-axes={len(shape) - 1}", "obs=" + case.get("obs_form", "int")] + (
        ["shape=" + "x".join(str(n) for n in shape)] if _QUICK() else []) + [
            "an-obs-axis-longer-than-A" if max(shape[:-1]) > shape[-1] else "no-obs-axis-longer-than-A",
            "axis1-is-A" if len(shape) == 2 else ("axis1=A" if shape[1] == shape[-1] else "axis1!=A")]


@st.composite
def greedy_cases(draw):
    na = draw(st.sampled_from([2, 3, 5]))
    case = draw(table_cases())
    case.update({
        "t_seed": draw(gen.seeds()), "t2_seed": draw(gen.seeds()),
        "scale": draw(st.sampled_from([1.0, 100.0, 1e-3])), "levels": draw(st.sampled_from([1, 2, 50])),
        "key_seeds": draw(st.lists(gen.seeds(), min_size=4, max_size=4)),
        "q_obs_dim": draw(st.sampled_from([1, 3])), "q_actions": na, "q_hidden": draw(st.sampled_from([[], [4]])),
        "q_seed": draw(gen.seeds()), "q_kscale": draw(st.sampled_from([0.0, 1.0, 30.0])),
        "q_bias": draw(st.lists(st.sampled_from([0.0, 1.0, -1.0, 2.0, 1e4, -1e4]), min_size=na, max_size=na)),
        "obs_seed": draw(gen.seeds()),
    })
    return case


def run_greedy(case):
    jnp = _jnp()
    import jax
    from rl_blox.blox import q_policy, value_policy

    shape = tuple(case["shape"])
    n_act = shape[-1]
    table = _table(shape, case["t_seed"], case["scale"], case["levels"])
    table2 = _table(shape, case["t2_seed"], case["scale"] * 3.0, 50)
    idx, s = _table_obs(case)
    row = table[idx]
    assert row.shape == (n_act,)
    jt, jt2 = jnp.asarray(table), jnp.asarray(table2)

    def is_max(a):
        return 0 <= a < n_act and row[a] == row.max()

    g = value_policy.greedy_policy(jt, s)
    check(np.shape(g) == () and np.issubdtype(np.asarray(g).dtype, np.integer), "greedy.table.scalar_index",
          f"{np.shape(g)} {np.asarray(g).dtype} (table {shape}, observation {s!r})")
    check(is_max(int(g)), "greedy.table.returns_maximiser",
          lambda: f"table {shape}, observation {s!r}: row={row.tolist()} action={int(g)}")
    for ks in case["key_seeds"]:
        key = jax.random.key(ks)
        a0 = value_policy.epsilon_greedy_policy(jt, s, 0.0, key)
        check(np.shape(a0) == (), "eps_greedy.scalar_index", f"epsilon=0: {np.shape(a0)} (table {shape}, observation {s!r})")
        a0 = int(a0)
        check(is_max(a0) and a0 == int(g), "eps_greedy.epsilon0_is_greedy",
              lambda: f"table {shape}, observation {s!r}: row={row.tolist()} action={a0} greedy={int(g)}")
        a1 = value_policy.epsilon_greedy_policy(jt, s, 1.0, key)
        check(np.shape(a1) == (), "eps_greedy.scalar_index", f"epsilon=1: {np.shape(a1)} (table {shape}, observation {s!r})")
        a1 = int(a1)
        a1b = int(value_policy.epsilon_greedy_policy(jt2, s, 1.0, key))
        check(0 <= a1 < n_act, "eps_greedy.epsilon1.in_range",
              f"action {a1} of {n_act} (table {shape}, observation {s!r})")
        check(a1 == a1b, "eps_greedy.epsilon1_ignores_values",
              lambda: f"same key, tables {row.tolist()} / {table2[idx].tolist()}: actions {a1} vs {a1b}")
    # network greedy policy
    na = case["q_actions"]
    q_net = pn.make_mlp(case["q_obs_dim"], na, case["q_hidden"], case["q_seed"])
    pn.scale_output_kernels(q_net, case["q_kscale"])
    pn.set_bias(q_net.output_layer, case["q_bias"])
    obs = gen.rng_array(case["obs_seed"], (case["q_obs_dim"],), 1.0)
    qv = np.asarray(q_net(jnp.asarray(obs)[None]))[0]
    a = q_policy.greedy_policy(q_net, jnp.asarray(obs))
    check(np.shape(a) == (), "greedy.q_net.scalar_index", f"{np.shape(a)}")
    a = int(a)
    check(0 <= a < na and qv[a] == qv.max(), "greedy.q_net.returns_maximiser",
          lambda: f"q={qv.tolist()} action={a}")
    a_np = int(q_policy.greedy_policy(q_net, obs))  # numpy observation, as the training loops pass it
    check(0 <= a_np < na and qv[a_np] == qv.max(), "greedy.q_net.returns_maximiser",
          lambda: f"q={qv.tolist()} action={a_np} (numpy observation)")
    nonconst = bool(row.min() < row.max())
    labels = ["row-tie" if (row == row.max()).sum() > 1 else "row-unique-max",
              "q-tie" if (qv == qv.max()).sum() > 1 else "q-unique-max"] + _table_labels(case)
    return Outcome(labels=labels, nontrivial=nonconst)


EPS1_KEYS = 600  # draws with epsilon = 1 on a second table in every eps_freq case


@st.composite
def eps_freq_cases(draw):
    case = draw(table_cases())
    case.update({"t_seed": draw(gen.seeds()), "t2_seed": draw(gen.seeds()), "levels": draw(st.sampled_from([1, 50])),
                 "epsilon": draw(st.one_of(st.sampled_from([0.3, 1.0, 0.05, 0.1, 0.5, 0.9]), gen.f32(0.01, 0.99))),
                 "key_seed": draw(gen.seeds()), "n_keys": 2000})
    return case


def run_eps_freq(case):
    jnp = _jnp()
    import jax
    from rl_blox.blox import value_policy

    shape = tuple(case["shape"])
    na = shape[-1]
    table = _table(shape, case["t_seed"], 1.0, case["levels"])
    idx, s = _table_obs(case)
    eps, K = float(np.float32(case["epsilon"])), case["n_keys"]
    row = table[idx]
    n_max = int((row == row.max()).sum())
    jt = jnp.asarray(table)
    where = f"table {shape}, observation {s!r}"
    keys = jax.random.split(jax.random.key(case["key_seed"]), K + EPS1_KEYS)
    acts = np.array([int(value_policy.epsilon_greedy_policy(jt, s, eps, keys[i])) for i in range(K)])
    check(bool(np.all((acts >= 0) & (acts < na))), "eps_greedy.action_in_range",
          lambda: f"{where}: actions {sorted(set(acts.tolist()))} with {na} legal actions")
    legal = acts[(acts >= 0) & (acts < na)]
    nongreedy = int((row[legal] < row.max()).sum())
    p = eps * (1.0 - n_max / na)
    lo, hi = binomtail.interval([p] * K, 1e-9)
    check(lo <= nongreedy <= hi, "eps_greedy.nongreedy_frequency",
          lambda: f"{where}: epsilon={eps} row={row.tolist()}: {nongreedy}/{K} non-greedy, expected p={p:.4f}, admissible [{lo},{hi}]")
    # every non-maximal action is explored equally often (random action is uniform); with epsilon = 1
    # every action is
    for a in range(na):
        if row[a] < row.max() or eps == 1.0:
            lo_a, hi_a = binomtail.interval([eps / na] * K, 1e-9 / na)
            ca = int((acts == a).sum())
            check(lo_a <= ca <= hi_a, "eps_greedy.random_action_uniform",
                  lambda: f"{where}: epsilon={eps} action {a}: {ca}/{K}, expected p={eps / na:.4f}, admissible [{lo_a},{hi_a}]")
    # epsilon = 1 on a second table (other values, other maximisers), fresh keys: every action is a legal
    # action index and the actions are uniform over the n_actions, whatever the values
    table2 = _table(shape, case.get("t2_seed", case["t_seed"] + 1), 3.0, 50)
    jt2 = jnp.asarray(table2)
    acts1 = np.array([int(value_policy.epsilon_greedy_policy(jt2, s, 1.0, keys[K + i])) for i in range(EPS1_KEYS)])
    check(bool(np.all((acts1 >= 0) & (acts1 < na))), "eps_greedy.epsilon1.in_range",
          lambda: f"{where}: actions {sorted(set(acts1.tolist()))} with {na} legal actions")
    for a in range(na):
        lo_a, hi_a = binomtail.interval([1.0 / na] * EPS1_KEYS, 1e-9 / na)
        ca = int((acts1 == a).sum())
        check(lo_a <= ca <= hi_a, "eps_greedy.epsilon1.uniform_over_actions",
              lambda: f"{where}: epsilon=1 action {a}: {ca}/{EPS1_KEYS}, expected p={1.0 / na:.4f}, admissible [{lo_a},{hi_a}]")
    return Outcome(labels=[f"A={na}", "eps=1" if eps == 1.0 else "eps<1", f"maximisers={n_max}"] + _table_labels(case),
                   nontrivial=n_max < na)


# ------------------------------------------------- exploration in training loops

def _script(draw):
    return [[draw(st.integers(1, 12)), draw(st.sampled_from(["term", "trunc"]))] for _ in range(draw(st.integers(1, 4)))]


# Continuation patterns of the run-level cases.  A case is a *history* of one or two training calls on the same
# network / optimiser / buffer / environment: a fresh run of ``total`` steps and, optionally, the documented
# continuation (same objects handed back in, ``global_step`` = the step the first call reported) under an extended
# budget.  start_permille = global_step of the continuing call in thousandths of its own total_timesteps; cap = the
# continuing call is ended through ``total_episodes`` after about that many steps (0: it runs to the extended budget).
#   ("extend", 500, 0)    1000 -> 2000 steps, continuation beyond the decay phase, run to the end
#   ("extend", s, 300)    continuation at 30-60 % of the budget, ~300 steps of it
#   ("extend", 50|80, 300) continuation INSIDE the decay phase of the extended budget (budget x20 / x12.5)
#   ("early", 0, 0)       100 fresh steps, continued to 1300: continuation inside the decay phase, run to the end
CONT_PATTERNS = [["extend", 500, 0], ["extend", 300, 300], ["extend", 400, 300], ["extend", 600, 300],
                 ["extend", 50, 300], ["extend", 80, 300], ["early", 0, 0], ["none", 0, 0]]
# train_dqn has no episode limit: only the patterns that run to the end of the budget
CONT_PATTERNS_DQN = [["extend", 500, 0], ["extend", 500, 0], ["early", 0, 0], ["none", 0, 0]]


def _calls(case):
    """[(total_timesteps, cap_steps)] of the training calls of a case (pure function of the case)."""
    kind, permille, cap = case.get("cont", ["none", 0, 0])
    total = case["total"]
    if kind == "none":
        return [(total, 0)]
    if kind == "early":
        return [(total // 10, 0), (total + 3 * (total // 10), 0)]
    return [(total, 0), (int(round(total * 1000.0 / permille)), cap)]


def dqn_run_cases(algo):
    @st.composite
    def cases(draw):
        if algo == "dqn":
            cont = draw(st.sampled_from(CONT_PATTERNS_DQN))
        elif _QUICK():
            cont = draw(st.sampled_from(CONT_PATTERNS))
        else:
            cont = draw(st.one_of(st.sampled_from(CONT_PATTERNS),
                                  st.tuples(st.just("extend"), st.integers(20, 700), st.sampled_from([200, 300, 400]))
                                  .map(list)))
        return {
            "algo": algo, "n_actions": draw(st.sampled_from([2, 3])),
            # 1000+ steps: the documented decay phase (10 %) and the window of the same length that
            # follows the warm-up hold >= 100 steps each, so a shifted / restarted / mis-scaled schedule
            # is many sigma away from the exact tails
            "total": draw(st.sampled_from([1000, 1200])), "seed": draw(st.integers(0, 1000)),
            "cont": cont,
            "script": _script(draw), "env_seed": draw(gen.seeds()), "space_seed": draw(gen.seeds()),
            # warm-up of 0 / 10 / 25 / 40 % of the (first) budget (in thousandths of that budget)
            "learning_starts_permille": 0 if algo == "dqn" else draw(st.sampled_from([250, 100, 400, 0])),
            "lr": draw(st.sampled_from([0.0, 0.05, 0.05, 0.05])), "q_seed": draw(gen.seeds()),
            "update_frequency": draw(st.sampled_from([1, 1, 4])),
            "target_update_frequency": draw(st.sampled_from([1000, 1000, 5])),
            # "other": a target network that differs from the online one is handed in (continuation of
            # earlier training, as the API documents), so "greedy" is visibly about the online network
            "target_init": draw(st.sampled_from(["other", "other", "clone"])),
        }
    return cases


def _simplify_dqn(case):
    cont = case.get("cont", ["none", 0, 0])
    if cont[0] != "none":
        yield dict(case, cont=["none", 0, 0])
        if cont[0] == "extend" and cont[2] == 0 and case["algo"] != "dqn":
            yield dict(case, cont=[cont[0], cont[1], 300])
    if case["lr"] != 0.0:
        yield dict(case, lr=0.0)
    if case["learning_starts_permille"] not in (0, 100):
        yield dict(case, learning_starts_permille=100)
    if len(case["script"]) > 1:
        yield dict(case, script=case["script"][:1])
    if case["total"] > 1000:
        yield dict(case, total=1000)


def documented_epsilon(total, learning_starts):
    """Exploration probability per step: 1.0 -> 0.1 linearly over the first 10 %
    of total_timesteps, 0.1 afterwards; 1 before learning_starts."""
    k = int(total * 0.1)
    eps = np.full(total, 0.1)
    if k >= 1:
        eps[:k] = np.linspace(1.0, 0.1, k)
    eps[:learning_starts] = 1.0
    return eps, max(k, learning_starts)


def run_dqn_runs(case):
    jnp = _jnp()
    import gymnasium as gym
    import optax
    from flax import nnx
    from rl_blox.blox.replay_buffer import PrioritizedReplayBuffer, ReplayBuffer
    from vlib.envs import ScriptedEnv

    na, algo = case["n_actions"], case["algo"]
    calls = _calls(case)
    L = (case["learning_starts_permille"] * calls[0][0]) // 1000  # <= 40 % of the first budget
    q_net = pn.make_mlp(3, na, [4], case["q_seed"], "tanh")  # tanh: no dead units, ties are improbable
    if algo == "dqn":
        q_target = None
    elif case["target_init"] == "clone":
        q_target = nnx.clone(q_net)
    else:
        q_target = pn.make_mlp(3, na, [4], case["q_seed"] + 1, "tanh", pscale=3.0)
    tgt = {"net": q_target}  # the target network in use (the one the last call returned)

    class RecordingDiscrete(gym.spaces.Discrete):
        """The env's action space, counting the random actions the loop asks for."""

        n_sampled = 0

        def sample(self, *a, **k):
            self.n_sampled += 1
            return super().sample(*a, **k)

    space = RecordingDiscrete(na)
    space.seed(case["space_seed"])
    flags, disagree, n_max, explored = [], [], [], []
    seen = [0]

    def on_step(env, ev):
        # the estimate the agent acted on: the live online network, evaluated at the observation it
        # was given (the previous reset / step result), at the moment of the env.step call
        prev = env.log.events[-2]
        assert prev["kind"] in ("reset", "step")
        o = jnp.asarray(prev["obs"])[None]
        qv = np.asarray(q_net(o))[0]
        a = int(ev["action"])
        flags.append(bool(qv[a] < qv.max()))
        n_max.append(int((qv == qv.max()).sum()))
        explored.append(space.n_sampled - seen[0])  # random actions requested since the previous step
        seen[0] = space.n_sampled
        if tgt["net"] is not None:
            qt = np.asarray(tgt["net"](o))[0]
            disagree.append(bool(set(np.flatnonzero(qt == qt.max())) != set(np.flatnonzero(qv == qv.max()))))

    env = ScriptedEnv(case["script"], seed=case["env_seed"], obs_dim=3, action_space=space, on_step=on_step)
    opt = nnx.Optimizer(q_net, optax.sgd(case["lr"]), wrt=nnx.Param)
    if algo == "dqn":
        from rl_blox.algorithm.dqn import train_dqn as train

        buffer = ReplayBuffer(50, discrete_actions=True)
    elif algo == "nature_dqn":
        from rl_blox.algorithm.nature_dqn import train_nature_dqn as train

        buffer = ReplayBuffer(50, discrete_actions=True)
    elif algo == "ddqn":
        from rl_blox.algorithm.ddqn import train_ddqn as train

        buffer = ReplayBuffer(50, discrete_actions=True)
    else:
        from rl_blox.algorithm.per import train_ddqn_per as train

        buffer = PrioritizedReplayBuffer(50, discrete_actions=True)
    # the history: a fresh call and, possibly, its documented continuation (same network, optimiser, buffer,
    # environment and the returned target network; global_step = the step the previous call reported, a larger
    # total_timesteps; the multi-task schedulers' way: seed + global_step, an episode limit ends the interval)
    spans = []  # (first absolute step, one past the last executed step, total_timesteps, capped) per call
    g = 0
    for j, (total_j, cap) in enumerate(calls):
        kw = dict(batch_size=4, total_timesteps=total_j, gamma=0.9, seed=case["seed"] + g, progress_bar=False)
        if algo != "dqn":
            kw.update(update_frequency=case["update_frequency"], target_update_frequency=case["target_update_frequency"],
                      learning_starts=L, q_target_net=tgt["net"])
        if j > 0:
            kw["global_step"] = g
        scripted = None
        if cap:
            # end the interval after the first episodes that hold >= cap steps (episode e + 1 is the first one
            # of the call: every call resets the environment once more)
            lens = [ln for ln, _ in env.script]
            n_ep, scripted = 0, 0
            while scripted < cap:
                n_ep += 1
                scripted += lens[(env.episode + n_ep) % len(lens)]
            kw["total_episodes"] = n_ep
        before = len(flags)
        res = train(q_net, env, buffer, opt, **kw)
        n_j = len(flags) - before
        reported = getattr(res, "global_step", None)  # train_ddqn_per reports none
        # step accounting is C11's subject; the exploration oracle needs the absolute step index of every action
        if not cap and n_j != total_j - g:
            return Outcome(labels=[algo, "excluded-step-count-differs"], nontrivial=False)
        if cap and not (0 < n_j <= total_j - g):
            return Outcome(labels=[algo, "excluded-step-count-differs"], nontrivial=False)
        if reported is not None and int(reported) != g + n_j:
            return Outcome(labels=[algo, "excluded-reported-step-differs"], nontrivial=False)
        spans.append((g, g + n_j, total_j, bool(cap), scripted))
        g += n_j
        if algo != "dqn":
            tgt["net"] = res.q_target_net
    n = len(flags)
    explored_a = np.asarray(explored)
    flags_a = np.asarray(flags)
    # (a) per step: unless the loop asked the action space for a random action, the executed action
    #     maximises the live Q-network at the observation the agent was given
    bad = np.flatnonzero((explored_a == 0) & flags_a)
    check(bad.size == 0, f"{algo}.exploration.non_random_action_is_greedy_on_current_estimate",
          lambda: f"steps {bad[:8].tolist()} executed a non-maximising action without drawing a random one "
                  f"(lr={case['lr']}, target_update_frequency={case['target_update_frequency']}, calls={spans})")
    check(bool(np.all(explored_a <= 1)), f"{algo}.exploration.at_most_one_random_draw_per_step",
          lambda: f"{explored_a.max()} random draws in one step")
    # (b) number of exploration decisions against the documented schedule -- epsilon = linear_schedule(
    #     total_timesteps) of the call at the ABSOLUTE step -- window by window (exact Poisson-binomial tails,
    #     1e-9 split over the windows): the warm-up, the rest of the decay phase, the stretch of the same length
    #     that follows warm-up and decay (where a restarted or shifted decay would show), the constant tail; in a
    #     continuing call also the first 25 / 50 / 100 / 200 steps after the continuation point
    eps = np.zeros(n)
    windows = []  # (a, b, call index, clause)
    tails = []
    for j, (a0, b0, total_j, capped, _) in enumerate(spans):
        eps_j, tail_j = documented_epsilon(total_j, L)
        eps[a0:b0] = eps_j[a0:b0]
        k_dec = int(total_j * 0.1)
        after = max(k_dec, L, a0)
        cuts = sorted({min(max(c, a0), b0) for c in (a0, L, max(k_dec, L), after + k_dec, b0)})
        clause = "random_action_count_matches_schedule" if j == 0 else \
            "continued_run.random_action_count_matches_absolute_step_schedule"
        w_j = [(a, b) for a, b in zip(cuts[:-1], cuts[1:]) if b > a] + [(a0, b0)]
        if j > 0:
            w_j += [(a0, min(a0 + w, b0)) for w in (25, 50, 100, 200)]
        for a, b in dict.fromkeys(w_j):
            windows.append((a, b, j, "warmup_steps_are_all_random" if b <= L else clause))
        tails.append((max(tail_j, a0), b0))
    for a, b, j, clause in windows:
        lo_e, hi_e = binomtail.interval(eps[a:b], 1e-9 / len(windows))
        k_e = int((explored_a[a:b] > 0).sum())
        a0, b0, total_j = spans[j][:3]
        check(lo_e <= k_e <= hi_e, f"{algo}.exploration.{clause}",
              lambda: f"{k_e} random actions in steps [{a},{b}) of a call with total_timesteps={total_j}, global_step={a0} "
                      f"(executed [{a0},{b0}), learning_starts={L}, decay over the first {int(total_j * 0.1)} steps): "
                      f"the documented schedule admits [{lo_e},{hi_e}], expected {eps[a:b].sum():.1f}; calls={calls}")
    # a uniformly random action is non-greedy with probability 1 - (number of maximisers) / n_actions
    ps = eps * (1.0 - np.asarray(n_max, dtype=np.float64) / na)
    for a, b in tails:
        if b <= a:
            continue
        k_tail = int(flags_a[a:b].sum())
        hi_tail = binomtail.upper_bound(ps[a:b], 1e-9 / len(tails))
        check(k_tail <= hi_tail, f"{algo}.exploration.nongreedy_after_decay_within_schedule",
              lambda: f"{k_tail} non-greedy actions in the steps [{a},{b}) after the epsilon-decay phase "
                      f"(epsilon 0.1 there, {na} actions): admissible at most {hi_tail}; calls={calls}")
    lo_all, hi_all = binomtail.interval(ps, 1e-9)
    k_all = int(flags_a.sum())
    check(k_all <= hi_all, f"{algo}.exploration.nongreedy_total_within_schedule",
          lambda: f"{k_all} non-greedy actions in {n} steps, admissible at most {hi_all}; calls={calls}")
    check(k_all >= lo_all, f"{algo}.exploration.nongreedy_total_not_below_schedule",
          lambda: f"{k_all} non-greedy actions in {n} steps, admissible at least {lo_all}; calls={calls}")
    labels = [algo, "lr=0" if case["lr"] == 0 else "lr>0", f"lower-bound={'>0' if lo_all > 0 else '0'}",
              f"warmup={case['learning_starts_permille'] // 10}%"]
    labels.append("ties-seen" if max(n_max) > 1 else "unique-maximiser")
    if disagree:
        labels.append("target-greedy-differs-somewhere" if any(any(disagree[a:b]) for a, b in tails) else "target-greedy-same")
    if len(spans) == 1:
        labels.append("fresh-run-only")
    else:
        a0, b0, total_j, capped, scripted = spans[1]
        labels.append("continued")
        labels.append("continued-inside-decay-phase" if a0 < int(total_j * 0.1) else "continued-beyond-decay-phase")
        labels.append(f"continued-at={round(100.0 * a0 / total_j)}%-of-budget")
        labels.append("continuation-ended-by-episode-limit" if capped else "continuation-runs-to-budget")
        if capped and b0 - a0 != scripted:
            labels.append("episode-limit-step-count-differs-from-script")
    return Outcome(labels=labels, nontrivial=any(b - a >= 100 for a, b in tails), fp=case)


EPS_TOTALS = {"zero": 40, "one": 40, "mid": 300}


def tabular_run_cases(algo):
    @st.composite
    def cases(draw):
        return {
            "algo": algo, "n_states": draw(st.sampled_from([4, 6])), "n_actions": draw(st.sampled_from([2, 3])),
            "eps_mid": draw(st.sampled_from([0.1, 0.3, 0.5])),
            "seed": draw(st.integers(0, 1000)), "script": _script(draw), "env_seed": draw(gen.seeds()),
            "t_seed": draw(gen.seeds()), "levels": draw(st.sampled_from([1, 3])),
        }
    return cases


def _simplify_tabular(case):
    if len(case["script"]) > 1:
        yield dict(case, script=case["script"][:1])


def _tabular_run(case, eps, total):
    """One run with step size zero; returns (flags, ps) or None if the table moved."""
    jnp = _jnp()
    from vlib.envs import ScriptedTabularEnv

    ns, na, algo = case["n_states"], case["n_actions"], case["algo"]
    # levels shifted away from zero so that a vanishing Monte-Carlo step (1/1e30) cannot alter any entry
    table = (_table((ns, na), case["t_seed"], 1.0, case["levels"]) + np.float32(10.0)).astype(np.float32)
    env = ScriptedTabularEnv(case["script"], n_states=ns, n_actions=na, seed=case["env_seed"])
    kw = dict(epsilon=eps, gamma=0.9, total_timesteps=total, seed=case["seed"], progress_bar=False)
    if algo == "q_learning":
        from rl_blox.algorithm.q_learning import train_q_learning

        out = train_q_learning(env, jnp.asarray(table), learning_rate=0.0, **kw)
        final, eff = np.asarray(out), table
    elif algo == "sarsa":
        from rl_blox.algorithm.sarsa import train_sarsa

        out = train_sarsa(env, jnp.asarray(table), learning_rate=0.0, **kw)
        final, eff = np.asarray(out), table
    elif algo == "double_q":
        from rl_blox.algorithm.double_q_learning import train_double_q_learning

        t2 = (_table((ns, na), case["t_seed"] + 1, 1.0, 3) + np.float32(10.0)).astype(np.float32)
        o1, o2 = train_double_q_learning(env, jnp.asarray(table), jnp.asarray(t2), learning_rate=0.0, **kw)
        final, eff = np.asarray(o1) + np.asarray(o2), table + t2
    elif algo == "dynaq":
        from rl_blox.algorithm.dynaq import train_dynaq

        out = train_dynaq(env, jnp.asarray(table), learning_rate=0.0, n_planning_steps=1, buffer_size=20, **kw)
        final, eff = np.asarray(out), table
    else:
        from rl_blox.algorithm.monte_carlo import train_monte_carlo

        out, _ = train_monte_carlo(env, jnp.asarray(table), n_visits=jnp.full((ns, na), 1e30, dtype=jnp.float32), **kw)
        final, eff = np.asarray(out), table
    if final.tobytes() != eff.astype(np.float32).tobytes():
        return None
    flags, ps = [], []
    cur = None
    for e in env.log.events:
        if e["kind"] == "reset":
            cur = e["obs"]
            continue
        row = eff[cur]
        flags.append(bool(row[e["action"]] < row.max()))
        ps.append(1.0 - float((row == row.max()).sum()) / na)
        cur = e["obs"]
    return flags, np.asarray(ps)


def run_tabular_runs(case):
    algo = case["algo"]
    labels = [algo]
    informative = True
    for mode, total in EPS_TOTALS.items():
        eps = {"zero": 0.0, "one": 1.0, "mid": case["eps_mid"]}[mode]
        res = _tabular_run(case, eps, total)
        if res is None:
            # the estimate moved although the step size is zero: the oracle's premise does not hold (C14's subject)
            return Outcome(labels=labels + ["excluded-table-changed"], nontrivial=False)
        flags, frac = res
        k = int(np.sum(flags))
        informative = informative and frac.max() > 0
        if mode == "zero":
            check(k == 0, f"{algo}.exploration.epsilon0_run_is_greedy",
                  lambda: f"{k} non-greedy actions in {len(flags)} steps with epsilon=0 (first at step {flags.index(True)})")
        else:
            lo, hi = binomtail.interval(eps * frac, 1e-9)
            check(lo <= k <= hi, f"{algo}.exploration.nongreedy_frequency_matches_epsilon",
                  lambda: f"{k} non-greedy actions in {len(flags)} steps with epsilon={eps}: admissible [{lo},{hi}]")
    return Outcome(labels=labels + [f"eps_mid={case['eps_mid']:g}", "informative" if informative else "some-rows-constant"],
                   nontrivial=True, fp=case)


def _run_subchecks():
    out = []
    for algo in ["dqn", "nature_dqn", "ddqn", "ddqn_per"]:
        out.append(SubCheck("run_" + algo, dqn_run_cases(algo), run_dqn_runs, quick=4, thorough=60, cost=10.0,
                            shards=2, shards_thorough=4, shrink=False, suppress_too_slow=True, simplify=_simplify_dqn,
                            rule=">= 100 executed steps of one call after warm-up and epsilon-decay phase; 7 of 8 case patterns "
                                 "(dqn: 3 of 4) continue the run with global_step > 0"))
    for algo in ["q_learning", "sarsa", "double_q", "dynaq", "monte_carlo"]:
        out.append(SubCheck("run_" + algo, tabular_run_cases(algo), run_tabular_runs, quick=3, thorough=60, cost=9.0,
                            shards=1, shards_thorough=4, shrink=False, suppress_too_slow=True,
                            simplify=_simplify_tabular,
                            rule="three runs per case: epsilon 0 (40 steps), 1 (40 steps), intermediate (300 steps)"))
    return out


SUBCHECKS = [
    SubCheck("softmax", softmax_cases, run_softmax, quick=150, thorough=3000, cost=2.0,
             rule="batch shape other than (2,), or extreme logits"),
    SubCheck("gaussian", gaussian_cases, run_gaussian, quick=300, thorough=6000, cost=3.0, shards=6,
             rule="batch shape other than (2,), or action dim >= 2, or clipped log-variance"),
    SubCheck("greedy", greedy_cases, run_greedy, quick=150, thorough=3000, cost=1.5,
             rule="queried Q row not constant (tables with 1-3 observation axes, tuple observations)"),
    SubCheck("softmax_freq", softmax_freq_cases, run_softmax_freq, quick=16, thorough=300, cost=1.0, shards=2,
             rule="2048 draws per case"),
    SubCheck("gaussian_freq", gaussian_freq_cases, run_gaussian_freq, quick=16, thorough=300, cost=1.0, shards=2,
             rule="2048 x d draws per case"),
    SubCheck("eps_freq", eps_freq_cases, run_eps_freq, quick=12, thorough=200, cost=8.0, shards=4,
             shrink=False, suppress_too_slow=True,
             rule="2000 keys per case at the drawn epsilon + 600 at epsilon 1 (tables with 1-3 observation axes); row not constant"),
] + _run_subchecks()
