"""Routine adapters: build the state of a training routine and run it on a
scripted, recording environment from a plain config dict.

Shared by the history-level properties (C01 stored experience, C06 targets,
C09 determinism, C10 bounds, C11 accounting ...).  Everything here is on the
test side: environments, spaces, buffers, loggers and networks are objects we
construct and pass in; module-level callables of rl_blox are wrapped (never
edited) to observe their arguments.

Typical use::

    env, space = make_env("td3", {"script": [[3, "term"], [5, "trunc"]], "script_seed": 7})
    run = run_routine("td3", env, {"total_timesteps": 40, "learning_starts": 10,
                                   "batch_size": 2, "buffer_size": 16, "seed": 1,
                                   "probe": True})
    run.result      # whatever the routine returned
    run.log         # EnvLog (reset/step events with arguments and results)
    run.buffer      # BufferProxy (adds / samples / priority updates) or None
    run.logger      # the logger that was passed (or None)
    run.state       # dict of the modules / optimizers given to the routine
    run.space       # recording action space (space.sample_calls = env step
                    # indices at which the routine drew a random action)
    run.extras      # observations made by wrapping module-level callables

Config keys (all optional unless noted; unknown keys are ignored):
  total_timesteps (required for train_* routines), learning_starts, batch_size,
  buffer_size, seed, net_seed, hidden (default [4]), probe (bool: probe
  networks + zero learning rate + no exploration noise), lr, global_step,
  total_episodes, gradient_steps, policy_delay, target_delay,
  update_frequency, target_update_frequency, tau, exploration_noise, gamma,
  plus routine specific ones documented at each adapter.
"""
from __future__ import annotations

import contextlib
import dataclasses

import gymnasium as gym
import numpy as np

from .envs import EnvLog, ScriptedEnv, ScriptedTabularEnv, make_box
from .instruments import BufferProxy

DQN_FAMILY = ("dqn", "nature_dqn", "ddqn", "ddqn_per")
CONTINUOUS_OFF_POLICY = ("ddpg", "td3", "td3_lap", "sac", "td7", "mrq", "pets")
OFF_POLICY = DQN_FAMILY + CONTINUOUS_OFF_POLICY
EPISODIC_ON_POLICY = ("sample_trajectories", "reinforce", "actor_critic")
VECTOR_ON_POLICY = ("a2c_collect", "a2c", "ppo_collect", "ppo")
TABULAR = ("q_learning", "sarsa", "double_q_learning", "monte_carlo", "dynaq")
ALL_ROUTINES = OFF_POLICY + EPISODIC_ON_POLICY + VECTOR_ON_POLICY + TABULAR

# ---------------------------------------------------------------------------
# tags: what a probe network reveals about the observation it was given

TAG_BASE = 13  # t <= 12 in every generated script
TAG_DELTA = 1e-3  # spacing of the pre-activation of continuous probes


def obs_tag(obs) -> int:
    """Integer tag (episode, t) of a ScriptedEnv observation."""
    o = np.asarray(obs, dtype=np.float64)
    return int(round(float(o[..., 0]))) * TAG_BASE + int(round(float(o[..., 1])))


def obs_dtag(obs, n: int) -> int:
    """Discrete tag in range(n) of a ScriptedEnv observation (what the
    discrete probes select)."""
    o = np.asarray(obs, dtype=np.float64)
    return int((3 * round(float(o[..., 0])) + round(float(o[..., 1])) + round(float(o[..., 2]) * 4096.0)) % n)


def decode_tanh_action(action, low, high) -> list:
    """Tags encoded in each dimension of an action produced by a tanh probe."""
    a = np.asarray(action, dtype=np.float64).reshape(-1)
    low = np.asarray(low, dtype=np.float64).reshape(-1)
    high = np.asarray(high, dtype=np.float64).reshape(-1)
    x = (a - 0.5 * (high + low)) / (0.5 * (high - low))
    x = np.clip(x, -1 + 1e-12, 1 - 1e-12)
    return [int(round(v)) for v in np.arctanh(x) / TAG_DELTA]


def decode_linear_action(action) -> list:
    a = np.asarray(action, dtype=np.float64).reshape(-1)
    return [int(round(v)) for v in a / TAG_DELTA]


def tabular_probe_action(state: int, n_actions: int) -> int:
    return int((2 * int(state) + 1) % n_actions)


# ---------------------------------------------------------------------------
# recording spaces / environments

class RecordingDiscrete(gym.spaces.Discrete):
    """Discrete space that records at which env step index ``sample`` was called."""

    def __init__(self, n, seed=None):
        super().__init__(n, seed=seed)
        self.sample_calls = []
        self.clock = None

    def sample(self, *args, **kwargs):
        self.sample_calls.append(self.clock() if self.clock is not None else None)
        return super().sample(*args, **kwargs)


class RecordingBox(gym.spaces.Box):
    def __init__(self, low, high, seed=None, dtype=np.float32):
        low = np.asarray(low, dtype=dtype)
        high = np.asarray(high, dtype=dtype)
        super().__init__(low, high, low.shape, dtype=dtype, seed=seed)
        self.sample_calls = []
        self.clock = None

    def sample(self, *args, **kwargs):
        self.sample_calls.append(self.clock() if self.clock is not None else None)
        return super().sample(*args, **kwargs)


def make_env(name, env_cfg, log=None, on_step=None):
    """Scripted single environment suitable for routine ``name``.

    env_cfg: {"script": [[length, "term"|"trunc"], ...], "script_seed": int,
              "obs_dim": 3, "n_actions": 3,               (discrete actions)
              "act_low": [...], "act_high": [...],          (Box actions)
              "n_states": 6, "space_seed": 0}
    Returns (env, recording_action_space).  The action space is seeded
    (several routines draw warm-up actions from it without seeding it)."""
    script = env_cfg["script"]
    sseed = int(env_cfg.get("script_seed", 0))
    space_seed = int(env_cfg.get("space_seed", sseed))
    if name in TABULAR:
        env = ScriptedTabularEnv(script, n_states=int(env_cfg.get("n_states", 6)),
                                 n_actions=int(env_cfg.get("n_actions", 3)), seed=sseed, log=log,
                                 on_step=on_step)
        env.action_space.seed(space_seed)
        return env, env.action_space
    discrete = name in DQN_FAMILY or env_cfg.get("discrete", False)
    if discrete:
        space = RecordingDiscrete(int(env_cfg.get("n_actions", 3)), seed=space_seed)
    else:
        space = RecordingBox(env_cfg.get("act_low", [-1.0]), env_cfg.get("act_high", [1.0]), seed=space_seed,
                             dtype=np.float64 if env_cfg.get("act64") else np.float32)
    env = ScriptedEnv(script, seed=sseed, obs_dim=int(env_cfg.get("obs_dim", 3)), action_space=space,
                      log=log, on_step=on_step, obs_dtype="float64" if env_cfg.get("obs64") else "float32")
    space.clock = lambda: env.n_steps
    return env, space


class VectorRecorder(gym.vector.VectorWrapper):
    """Logs vector-level inputs and outputs of reset/step."""

    def __init__(self, env):
        super().__init__(env)
        self.vlog = []

    def reset(self, *, seed=None, options=None):
        obs, info = self.env.reset(seed=seed, options=options)
        self.vlog.append({"kind": "reset", "seed": seed, "obs": np.array(obs)})
        return obs, info

    def step(self, actions):
        a = np.array(actions)
        obs, reward, terminated, truncated, info = self.env.step(actions)
        ev = {"kind": "step", "action": a, "obs": np.array(obs), "reward": np.array(reward),
              "terminated": np.array(terminated), "truncated": np.array(truncated)}
        if "final_obs" in info:
            ev["final_obs"] = [None if o is None else np.array(o) for o in info["final_obs"]]
        self.vlog.append(ev)
        return obs, reward, terminated, truncated, info


def make_vector_env(env_cfg, autoreset):
    """Recording SyncVectorEnv over scripted envs.

    env_cfg: {"scripts": [script per env], "script_seed", "obs_dim", and either
    "n_actions" (discrete) or "act_low"/"act_high"}.  Returns (venv, sublog, subs);
    ``venv.vlog`` is the vector-level log."""
    from gymnasium.vector import AutoresetMode, SyncVectorEnv

    log = EnvLog()
    subs = []
    sseed = int(env_cfg.get("script_seed", 0))

    def mk(i):
        def f():
            if "n_actions" in env_cfg:
                sp = gym.spaces.Discrete(int(env_cfg["n_actions"]))
            else:
                sp = make_box(env_cfg.get("act_low", [-1.0]), env_cfg.get("act_high", [1.0]))
            e = ScriptedEnv(env_cfg["scripts"][i], seed=sseed, obs_dim=int(env_cfg.get("obs_dim", 3)),
                            action_space=sp, log=log, env_id=i)
            subs.append(e)
            return e
        return f

    mode = {"same_step": AutoresetMode.SAME_STEP, "next_step": AutoresetMode.NEXT_STEP}[autoreset]
    venv = SyncVectorEnv([mk(i) for i in range(len(env_cfg["scripts"]))], autoreset_mode=mode)
    return VectorRecorder(venv), log, subs


# ---------------------------------------------------------------------------
# probe networks (DESIGN §3): output reveals the input; trained with sgd(0.0)

def _nnx():
    import jax.numpy as jnp
    from flax import nnx

    return nnx, jnp


def make_probe_q(n_actions, sharp=1.0):
    """Q-network / logit network whose argmax is ``obs_dtag(obs, n_actions)``."""
    nnx, jnp = _nnx()

    class ProbeQNet(nnx.Module):
        def __init__(self):
            self.dummy = nnx.Param(jnp.zeros(()))
            self.n = int(n_actions)
            self.sharp = float(sharp)

        def __call__(self, x):
            h = jnp.mod(3.0 * x[..., 0] + x[..., 1] + jnp.round(x[..., 2] * 4096.0), float(self.n))
            d = jnp.arange(self.n, dtype=jnp.float32) - h[..., None]
            return -self.sharp * d * d + 0.0 * self.dummy.value

    return ProbeQNet()


def _set_linear_probe(layer, n_out):
    """Hand-set an nnx.Linear so that output_j = (13*obs[0] + obs[1]) * TAG_DELTA."""
    _, jnp = _nnx()
    k = np.zeros(layer.kernel.value.shape, dtype=np.float32)
    k[0, :n_out] = TAG_BASE * TAG_DELTA
    k[1, :n_out] = TAG_DELTA
    layer.kernel.value = jnp.asarray(k)
    layer.bias.value = jnp.zeros_like(layer.bias.value)


def make_probe_mlp(obs_dim, act_dim):
    """Real rl_blox MLP without hidden layers, hand-set weights."""
    nnx, _ = _nnx()
    from rl_blox.blox.function_approximator.mlp import MLP

    net = MLP(obs_dim, act_dim, [], "relu", nnx.Rngs(0))
    _set_linear_probe(net.output_layer, act_dim)
    return net


def make_probe_gaussian_mlp(obs_dim, act_dim):
    """Real GaussianMLP (separate heads): mean = tag * TAG_DELTA, log_var = -100
    (standard deviation at the lower clip exp(-20))."""
    nnx, jnp = _nnx()
    from rl_blox.blox.function_approximator.gaussian_mlp import GaussianMLP

    net = GaussianMLP(False, obs_dim, act_dim, [], "tanh", nnx.Rngs(0))
    _set_linear_probe(net.output_layers[0], act_dim)
    lv = net.output_layers[1]
    lv.kernel.value = jnp.zeros_like(lv.kernel.value)
    lv.bias.value = jnp.full_like(lv.bias.value, -100.0)
    return net


def make_probe_actor_sale(obs_dim, action_space):
    """ActorSALE stand-in: pi(state, zs) = tanh-scaled tag of ``state`` (ignores zs)."""
    nnx, jnp = _nnx()

    class ProbeActorSALE(nnx.Module):
        def __init__(self):
            w = np.zeros((obs_dim, action_space.shape[0]), dtype=np.float32)
            w[0, :] = TAG_BASE * TAG_DELTA
            w[1, :] = TAG_DELTA
            self.w = nnx.Param(jnp.asarray(w))
            self.action_scale = nnx.Variable(jnp.array((action_space.high - action_space.low) / 2.0))
            self.action_bias = nnx.Variable(jnp.array((action_space.high + action_space.low) / 2.0))

        def __call__(self, state, zs):
            y = state @ self.w.value + 0.0 * jnp.sum(zs, axis=-1, keepdims=True)
            return nnx.tanh(y) * self.action_scale.value + self.action_bias.value

    return ProbeActorSALE()


def make_probe_policy_with_encoder(real, obs_dim, action_space):
    """DeterministicPolicyWithEncoder whose acting path is a tanh probe; encoder
    and policy (the trained parts) are the real modules of ``real``."""
    nnx, jnp = _nnx()
    from rl_blox.blox.embedding.model_based_encoder import DeterministicPolicyWithEncoder
    from rl_blox.blox.function_approximator.policy_head import DeterministicTanhPolicy

    class ProbePolicyWithEncoder(DeterministicPolicyWithEncoder):
        def __init__(self, encoder, policy):
            super().__init__(encoder, policy)
            self.probe = DeterministicTanhPolicy(make_probe_mlp(obs_dim, action_space.shape[0]), action_space)

        def __call__(self, observation):
            return self.probe(observation)

    return ProbePolicyWithEncoder(real.encoder, real.policy)


def _opt(module, cfg, default_lr=1e-3):
    import optax

    nnx, _ = _nnx()
    if cfg.get("probe") or cfg.get("zero_lr"):
        tx = optax.sgd(0.0)
    else:
        tx = optax.adam(float(cfg.get("lr", default_lr)))
    return nnx.Optimizer(module, tx, wrt=nnx.Param)


# ---------------------------------------------------------------------------
# state builders

def _hidden(cfg):
    return list(cfg.get("hidden", [4]))


def build_state(name, env, cfg) -> dict:
    """Modules / optimizers for ``name`` (dict; keys are the routine's argument names)."""
    nnx, jnp = _nnx()
    import optax

    probe = bool(cfg.get("probe"))
    ns = int(cfg.get("net_seed", 0))
    h = _hidden(cfg)
    if name in DQN_FAMILY:
        from rl_blox.blox.function_approximator.mlp import MLP

        od = env.observation_space.shape[0]
        na = int(env.action_space.n)
        q = make_probe_q(na) if probe else MLP(od, na, h, "relu", nnx.Rngs(ns))
        return {"q_net": q, "optimizer": _opt(q, cfg)}
    if name in ("ddpg", "td3", "td3_lap"):
        from rl_blox.blox.function_approximator.policy_head import DeterministicTanhPolicy

        if name == "ddpg":
            from rl_blox.algorithm.ddpg import create_ddpg_state as create
        else:
            from rl_blox.algorithm.td3 import create_td3_state as create
        sp_state = _space_rng_state(env.action_space)
        s = create(env, policy_hidden_nodes=h, q_hidden_nodes=h, seed=ns,
                   policy_learning_rate=float(cfg.get("lr", 1e-3)), q_learning_rate=float(cfg.get("lr", 1e-3)))
        _restore_space_rng(env.action_space, sp_state)
        st = {"policy": s.policy, "policy_optimizer": s.policy_optimizer, "q": s.q, "q_optimizer": s.q_optimizer}
        if probe:
            od, ad = env.observation_space.shape[0], env.action_space.shape[0]
            st["policy"] = DeterministicTanhPolicy(make_probe_mlp(od, ad), env.action_space)
            st["policy_optimizer"] = _opt(st["policy"], cfg)
            st["q_optimizer"] = _opt(st["q"], cfg)
        return st
    if name == "sac":
        from rl_blox.algorithm.sac import create_sac_state
        from rl_blox.blox.function_approximator.policy_head import GaussianTanhPolicy

        sp_state = _space_rng_state(env.action_space)
        s = create_sac_state(env, policy_hidden_nodes=h, q_hidden_nodes=h, seed=ns,
                             policy_learning_rate=float(cfg.get("lr", 1e-3)),
                             q_learning_rate=float(cfg.get("lr", 1e-3)))
        _restore_space_rng(env.action_space, sp_state)
        st = {"policy": s.policy, "policy_optimizer": s.policy_optimizer, "q": s.q, "q_optimizer": s.q_optimizer}
        if probe:
            od, ad = env.observation_space.shape[0], env.action_space.shape[0]
            st["policy"] = GaussianTanhPolicy(make_probe_gaussian_mlp(od, ad), env.action_space)
            st["policy_optimizer"] = _opt(st["policy"], cfg)
            st["q_optimizer"] = _opt(st["q"], cfg)
        return st
    if name == "td7":
        from rl_blox.algorithm.td7 import create_td7_state

        sp_state = _space_rng_state(env.action_space)
        s = create_td7_state(env, n_embedding_dimensions=int(cfg.get("n_embedding_dimensions", 4)),
                             state_embedding_hidden_nodes=h, state_action_embedding_hidden_nodes=h,
                             policy_sa_encoding_nodes=4, policy_hidden_nodes=h, q_sa_encoding_nodes=4,
                             q_hidden_nodes=h, seed=ns)
        _restore_space_rng(env.action_space, sp_state)
        st = {"embedding": s.embedding, "embedding_optimizer": s.embedding_optimizer, "actor": s.actor,
              "actor_optimizer": s.actor_optimizer, "critic": s.critic, "critic_optimizer": s.critic_optimizer}
        if probe:
            st["actor"] = make_probe_actor_sale(env.observation_space.shape[0], env.action_space)
            st["actor_optimizer"] = _opt(st["actor"], cfg)
            st["embedding_optimizer"] = _opt(st["embedding"], cfg)
            st["critic_optimizer"] = _opt(st["critic"], cfg)
        return st
    if name == "mrq":
        from rl_blox.algorithm.mrq import create_mrq_state

        sp_state = _space_rng_state(env.action_space)
        s = create_mrq_state(env, policy_hidden_nodes=h, q_hidden_nodes=h,
                             encoder_n_bins=int(cfg.get("encoder_n_bins", 9)), encoder_zs_dim=4,
                             encoder_za_dim=3, encoder_zsa_dim=4, encoder_hidden_nodes=h, seed=ns)
        _restore_space_rng(env.action_space, sp_state)
        st = {"policy_with_encoder": s.policy_with_encoder, "encoder_optimizer": s.encoder_optimizer,
              "policy_optimizer": s.policy_optimizer, "q": s.q, "q_optimizer": s.q_optimizer,
              "the_bins": s.the_bins}
        if probe:
            pwe = make_probe_policy_with_encoder(s.policy_with_encoder, env.observation_space.shape[0],
                                                 env.action_space)
            st["policy_with_encoder"] = pwe
            st["encoder_optimizer"] = _opt(pwe.encoder, cfg)
            st["policy_optimizer"] = _opt(pwe.policy, cfg)
            st["q_optimizer"] = _opt(st["q"], cfg)
        return st
    if name == "pets":
        from rl_blox.algorithm.pets import create_pets_state

        dm = create_pets_state(env, seed=ns, n_ensemble=int(cfg.get("n_ensemble", 2)), hidden_nodes=h,
                               batch_size=int(cfg.get("model_batch_size", 4)),
                               train_size=float(cfg.get("train_size", 0.7)))
        return {"dynamics_model": dm}
    if name in EPISODIC_ON_POLICY or name in VECTOR_ON_POLICY:
        return _build_policy_gradient_state(name, env, cfg)
    if name in TABULAR:
        ns_, na = int(env.observation_space.n), int(env.action_space.n)
        if probe:
            # greedy action = tabular_probe_action(s); the other entries are far
            # below anything an update can produce
            t = np.full((ns_, na), -1e6, dtype=np.float32)
            for s_ in range(ns_):
                t[s_, tabular_probe_action(s_, na)] = 0.0
            if name == "double_q_learning":
                return {"q_table1": jnp.asarray(t), "q_table2": jnp.asarray(t)}
            return {"q_table": jnp.asarray(t)}
        r = np.random.default_rng(ns)
        if name == "double_q_learning":
            return {"q_table1": jnp.asarray(r.standard_normal((ns_, na)).astype(np.float32)),
                    "q_table2": jnp.asarray(r.standard_normal((ns_, na)).astype(np.float32))}
        return {"q_table": jnp.asarray(r.standard_normal((ns_, na)).astype(np.float32))}
    raise KeyError(name)


def _space_rng_state(space):
    try:
        return space.np_random.bit_generator.state
    except Exception:  # noqa: BLE001
        return None


def _restore_space_rng(space, state):
    # create_*_state reseeds env.action_space; the env config decides the seed
    if state is not None:
        space.np_random.bit_generator.state = state


def _build_policy_gradient_state(name, env, cfg) -> dict:
    nnx, jnp = _nnx()
    from rl_blox.blox.function_approximator.gaussian_mlp import GaussianMLP
    from rl_blox.blox.function_approximator.mlp import MLP
    from rl_blox.blox.function_approximator.policy_head import GaussianPolicy, SoftmaxPolicy

    probe = bool(cfg.get("probe"))
    ns = int(cfg.get("net_seed", 0))
    h = _hidden(cfg)
    osp = getattr(env, "single_observation_space", env.observation_space)
    asp = getattr(env, "single_action_space", env.action_space)
    od = osp.shape[0]
    if isinstance(asp, gym.spaces.Discrete):
        na = int(asp.n)
        net = make_probe_q(na, sharp=1000.0) if probe else MLP(od, na, h, "swish", nnx.Rngs(ns))
        policy = SoftmaxPolicy(net)
    else:
        ad = asp.shape[0]
        net = make_probe_gaussian_mlp(od, ad) if probe else GaussianMLP(True, od, ad, h, "swish", nnx.Rngs(ns))
        policy = GaussianPolicy(net)
    vf = MLP(od, 1, h, "swish", nnx.Rngs(ns + 1))
    return {"policy": policy, "policy_optimizer": _opt(policy, cfg), "value_function": vf,
            "value_function_optimizer": _opt(vf, cfg)}


def make_buffer(name, cfg):
    from rl_blox.blox import replay_buffer as rb

    cap = int(cfg.get("buffer_size", 1000))
    if name in ("dqn", "nature_dqn", "ddqn"):
        return rb.ReplayBuffer(cap, discrete_actions=True)
    if name == "ddqn_per":
        return rb.PrioritizedReplayBuffer(cap, discrete_actions=True)
    if name in ("ddpg", "td3", "sac", "pets"):
        return rb.ReplayBuffer(cap)
    if name in ("td3_lap", "td7"):
        return rb.LAP(cap)
    if name == "mrq":
        return rb.SubtrajectoryReplayBufferPER(
            cap, horizon=max(int(cfg.get("encoder_horizon", 2)), int(cfg.get("q_horizon", 2))))
    return None


# ---------------------------------------------------------------------------
# running

@dataclasses.dataclass
class Run:
    name: str
    result: object
    env: object
    log: object
    buffer: object
    logger: object
    state: dict
    space: object
    extras: dict
    cfg: dict


@contextlib.contextmanager
def patched(module, attr, make_wrapper):
    """Temporarily replace ``module.attr`` by ``make_wrapper(original)``."""
    orig = getattr(module, attr)
    setattr(module, attr, make_wrapper(orig))
    try:
        yield orig
    finally:
        setattr(module, attr, orig)


def _pick(cfg, keys, **rename):
    out = {}
    for k in keys:
        if k in cfg and cfg[k] is not None:
            out[rename.get(k, k)] = cfg[k]
    return out


def run_routine(name, env, cfg, buffer=None, logger=None, state=None, capture=True, wrap_buffer=True):
    """Run routine ``name`` on ``env`` with config ``cfg``.

    buffer: a replay buffer (or BufferProxy) to pass in; default: a fresh buffer
    of the routine's documented type with capacity cfg["buffer_size"], wrapped
    in a BufferProxy (``wrap_buffer=False`` passes the raw buffer).
    state: result of ``build_state`` (default: built here).
    capture: wrap module-level callables to record what the routine does
    (``Run.extras``).  Returns :class:`Run`."""
    cfg = dict(cfg)
    if state is None:
        state = build_state(name, env, cfg)
    extras = {}
    if name in OFF_POLICY:
        if buffer is None:
            buffer = make_buffer(name, cfg)
            if wrap_buffer:
                buffer = BufferProxy(buffer, record_batches=bool(cfg.get("record_batches", False)))
        result = _RUNNERS[name](env, state, cfg, buffer, logger, extras, capture)
    else:
        result = _RUNNERS[name](env, state, cfg, logger, extras, capture)
    log = getattr(env, "log", None)
    space = getattr(env, "action_space", None)
    return Run(name, result, env, log, buffer, logger, state, space, extras, cfg)


def _common_off_policy(cfg):
    kw = {"total_timesteps": int(cfg["total_timesteps"]), "seed": int(cfg.get("seed", 1)),
          "progress_bar": False}
    kw.update(_pick(cfg, ["batch_size", "learning_starts", "gamma", "global_step", "total_episodes"]))
    return kw


def _run_dqn_family(name):
    def run(env, st, cfg, buffer, logger, extras, capture):
        import importlib

        modname = {"dqn": "dqn", "nature_dqn": "nature_dqn", "ddqn": "ddqn", "ddqn_per": "per"}[name]
        mod = importlib.import_module("rl_blox.algorithm." + modname)
        fn = getattr(mod, "train_" + name)
        kw = _common_off_policy(cfg)
        if name == "dqn":
            kw.pop("learning_starts", None)
            kw.pop("total_episodes", None)
        else:
            kw.update(_pick(cfg, ["update_frequency", "target_update_frequency", "q_target_net"]))
        if name == "ddqn_per":
            kw.update(_pick(cfg, ["per_alpha", "per_beta"]))
        calls = extras.setdefault("policy_calls", [])

        def wrap(orig):
            def greedy_policy(q_net, obs):
                out = orig(q_net, obs)
                calls.append({"step": env.n_steps, "obs": np.array(obs), "out": int(out)})
                return out
            return greedy_policy

        ctx = patched(mod, "greedy_policy", wrap) if capture else contextlib.nullcontext()
        with ctx:
            return fn(st["q_net"], env, buffer, st["optimizer"], logger=logger, **kw)
    return run


def _noise(cfg, default):
    if "exploration_noise" in cfg:
        return float(cfg["exploration_noise"])
    return 0.0 if cfg.get("probe") else default


def _run_ddpg(env, st, cfg, buffer, logger, extras, capture):
    from rl_blox.algorithm.ddpg import train_ddpg

    kw = _common_off_policy(cfg)
    kw.update(_pick(cfg, ["tau", "gradient_steps", "policy_target", "q_target"]))
    return train_ddpg(env, st["policy"], st["policy_optimizer"], st["q"], st["q_optimizer"],
                      exploration_noise=_noise(cfg, 0.1), replay_buffer=buffer, logger=logger, **kw)


def _run_td3(env, st, cfg, buffer, logger, extras, capture):
    from rl_blox.algorithm.td3 import train_td3

    kw = _common_off_policy(cfg)
    kw.update(_pick(cfg, ["tau", "gradient_steps", "policy_delay", "noise_clip", "policy_target", "q_target"]))
    return train_td3(env, st["policy"], st["policy_optimizer"], st["q"], st["q_optimizer"],
                     exploration_noise=_noise(cfg, 0.2), replay_buffer=buffer, logger=logger, **kw)


def _run_td3_lap(env, st, cfg, buffer, logger, extras, capture):
    from rl_blox.algorithm.td3_lap import train_td3_lap

    kw = _common_off_policy(cfg)
    kw.pop("total_episodes", None)
    kw.update(_pick(cfg, ["tau", "gradient_steps", "policy_delay", "noise_clip", "policy_target", "q_target",
                          "lap_alpha", "lap_min_priority", "target_policy_noise"]))
    return train_td3_lap(env, st["policy"], st["policy_optimizer"], st["q"], st["q_optimizer"],
                         exploration_noise=_noise(cfg, 0.1), replay_buffer=buffer, logger=logger, **kw)


def _run_sac(env, st, cfg, buffer, logger, extras, capture):
    from rl_blox.algorithm.sac import train_sac

    kw = _common_off_policy(cfg)
    kw.update(_pick(cfg, ["tau", "policy_delay", "target_network_delay", "alpha", "autotune", "q_target",
                          "entropy_control", "entropy_learning_rate"]))
    if cfg.get("probe"):
        kw.setdefault("autotune", False)
    return train_sac(env, st["policy"], st["policy_optimizer"], st["q"], st["q_optimizer"],
                     replay_buffer=buffer, logger=logger, **kw)


def _run_td7(env, st, cfg, buffer, logger, extras, capture):
    from rl_blox.algorithm.td7 import train_td7

    kw = _common_off_policy(cfg)
    kw.update(_pick(cfg, ["policy_delay", "target_delay", "use_checkpoints", "max_episodes_when_checkpointing",
                          "steps_before_checkpointing", "reset_weight", "actor_target", "critic_target",
                          "lap_alpha", "lap_min_priority", "noise_clip", "target_policy_noise"]))
    kw.setdefault("target_delay", 5)
    return train_td7(env, embedding=st["embedding"], embedding_optimizer=st["embedding_optimizer"],
                     actor=st["actor"], actor_optimizer=st["actor_optimizer"], critic=st["critic"],
                     critic_optimizer=st["critic_optimizer"], exploration_noise=_noise(cfg, 0.1),
                     replay_buffer=buffer, logger=logger, **kw)


def _run_mrq(env, st, cfg, buffer, logger, extras, capture):
    from rl_blox.algorithm.mrq import train_mrq

    kw = _common_off_policy(cfg)
    kw.update(_pick(cfg, ["target_delay", "encoder_horizon", "q_horizon", "policy_with_encoder_target",
                          "q_target", "lap_alpha", "lap_min_priority", "noise_clip", "target_policy_noise",
                          "normalize_targets"]))
    kw.setdefault("target_delay", 3)
    kw.setdefault("encoder_horizon", 2)
    kw.setdefault("q_horizon", 2)
    return train_mrq(env, st["policy_with_encoder"], st["encoder_optimizer"], st["policy_optimizer"], st["q"],
                     st["q_optimizer"], st["the_bins"], exploration_noise=_noise(cfg, 0.2),
                     replay_buffer=buffer, logger=logger, **kw)


def scripted_reward_model(act, obs):
    """JIT-compilable reward model for PETS on scripted envs (values are irrelevant)."""
    import jax.numpy as jnp

    return -jnp.sum(obs[..., 2:] ** 2, axis=-1) - 0.01 * jnp.sum(act ** 2, axis=-1)


def _run_pets(env, st, cfg, buffer, logger, extras, capture):
    from rl_blox.algorithm import pets

    calls = extras.setdefault("policy_calls", [])

    def wrap(orig):
        def mpc_action(config, state, optimize_fn, obs):
            rec = {"step": env.n_steps, "obs": np.array(obs)}
            out = orig(config, state, optimize_fn, obs)
            rec["out"] = np.array(out)
            calls.append(rec)
            return out
        return mpc_action

    kw = {"total_timesteps": int(cfg["total_timesteps"]), "seed": int(cfg.get("seed", 1)), "progress_bar": False}
    kw.update(_pick(cfg, ["learning_starts", "n_steps_per_iteration", "gradient_steps",
                          "learning_starts_gradient_steps", "n_opt_iter", "init_with_previous_plan"]))
    kw.setdefault("learning_starts_gradient_steps", 1)
    kw.setdefault("gradient_steps", 1)
    kw.setdefault("n_steps_per_iteration", 7)
    kw.setdefault("n_opt_iter", 1)
    ctx = patched(pets, "mpc_action", wrap) if capture else contextlib.nullcontext()
    with ctx:
        return pets.train_pets(env, cfg.get("reward_model", scripted_reward_model), st["dynamics_model"],
                               plan_horizon=int(cfg.get("plan_horizon", 2)),
                               n_particles=int(cfg.get("n_particles", 2)),
                               n_samples=int(cfg.get("n_samples", 10)), replay_buffer=buffer, logger=logger, **kw)


# -- on-policy, single env ---------------------------------------------------

def _run_sample_trajectories(env, st, cfg, logger, extras, capture):
    """cfg: total_steps, train_after_episode, seed (key), n_calls (consecutive collections).

    extras["datasets"]: the returned EpisodeDatasets; extras["dataset_steps"]: [first, last + 1) env step
    indices of each collection (read from the env's own step counter, not from the dataset)."""
    import jax

    from rl_blox.algorithm.reinforce import sample_trajectories

    key = jax.random.key(int(cfg.get("seed", 0)))
    out = []
    spans = extras.setdefault("dataset_steps", [])
    for _ in range(int(cfg.get("n_calls", 1))):
        key, sk = jax.random.split(key)
        lo = int(env.n_steps)
        out.append(sample_trajectories(env, st["policy"], sk, logger, bool(cfg.get("train_after_episode", False)),
                                       int(cfg["total_steps"])))
        spans.append([lo, int(env.n_steps)])
    extras["datasets"] = out
    return out


# positional parameter names of the module-level update callables of train_reinforce / train_ac
_PG_UPDATE_FIELDS = {
    "train_policy_reinforce": ("policy", "policy_optimizer", "policy_gradient_steps", "value_function",
                               "observations", "actions", "returns", "gamma_discount"),
    "train_policy_actor_critic": ("policy", "policy_optimizer", "policy_gradient_steps", "value_function",
                                  "observations", "actions", "next_observations", "rewards", "gamma_discount",
                                  "gamma"),
    "train_value_function": ("value_function", "value_function_optimizer", "value_gradient_steps",
                             "observations", "returns"),
}
_PG_UPDATE_ARRAYS = ("observations", "actions", "next_observations", "rewards", "returns", "gamma_discount")


def _run_reinforce_like(name):
    def run(env, st, cfg, logger, extras, capture):
        """extras["datasets"] / extras["dataset_steps"] as for sample_trajectories;
        extras["update_calls"]: what the routine handed to its module-level update callables
        ({"fn", "n_steps" (env steps executed when called), "gamma" (if passed), arrays as numpy copies})."""
        import importlib

        mod = importlib.import_module("rl_blox.algorithm." + name)
        fn = getattr(mod, {"reinforce": "train_reinforce", "actor_critic": "train_ac"}[name])
        datasets = extras.setdefault("datasets", [])
        spans = extras.setdefault("dataset_steps", [])
        updates = extras.setdefault("update_calls", [])

        def wrap(orig):
            def sample_trajectories(*a, **k):
                lo = int(env.n_steps)
                d = orig(*a, **k)
                datasets.append(d)
                spans.append([lo, int(env.n_steps)])
                return d
            return sample_trajectories

        def wrap_update(fname):
            fields = _PG_UPDATE_FIELDS[fname]

            def make(orig):
                def update(*a, **k):
                    named = dict(zip(fields, a, strict=False))
                    named.update(k)
                    rec = {"fn": fname, "n_steps": int(env.n_steps)}
                    for f in _PG_UPDATE_ARRAYS:
                        if f in named and named[f] is not None:
                            rec[f] = np.array(named[f])
                    if "gamma" in named:
                        rec["gamma"] = float(named["gamma"])
                    updates.append(rec)
                    return orig(*a, **k)
                return update
            return make

        kw = {"total_timesteps": int(cfg["total_timesteps"]), "seed": int(cfg.get("seed", 0)),
              "progress_bar": False}
        kw.update(_pick(cfg, ["steps_per_update", "train_after_episode", "gamma", "policy_gradient_steps",
                              "value_gradient_steps"]))
        policy_update = {"reinforce": "train_policy_reinforce", "actor_critic": "train_policy_actor_critic"}[name]
        with contextlib.ExitStack() as es:
            if capture:
                es.enter_context(patched(mod, "sample_trajectories", wrap))
                es.enter_context(patched(mod, policy_update, wrap_update(policy_update)))
                es.enter_context(patched(mod, "train_value_function", wrap_update("train_value_function")))
            return fn(env, st["policy"], st["policy_optimizer"], st["value_function"],
                      st["value_function_optimizer"], logger=logger, **kw)
    return run


# -- on-policy, vector env ---------------------------------------------------

def _copy_rollout(buf):
    return {k: np.array(v) for k, v in buf.buffer.items()}, int(len(buf))


def _run_a2c_collect(envs, st, cfg, logger, extras, capture):
    """cfg: steps_per_update, n_calls, seed.  Resets once, then calls
    a2c.collect_trajectories n_calls times, feeding last_observation through."""
    import jax
    import jax.numpy as jnp

    from rl_blox.algorithm.a2c import collect_trajectories

    key = jax.random.key(int(cfg.get("seed", 0)))
    obs, _ = envs.reset(seed=int(cfg.get("seed", 0)))
    obs = jnp.array(obs)
    gs = 0
    rollouts = extras.setdefault("rollouts", [])
    for _ in range(int(cfg.get("n_calls", 1))):
        key, sk = jax.random.split(key)
        buf, obs, gs, _ = collect_trajectories(envs, st["policy"], sk, obs, int(cfg["steps_per_update"]), logger, gs)
        arrays, n = _copy_rollout(buf)
        rollouts.append({"arrays": arrays, "len": n, "last_observation": np.array(obs)})
    return rollouts


def _run_a2c(envs, st, cfg, logger, extras, capture):
    from rl_blox.algorithm import a2c

    rollouts = extras.setdefault("rollouts", [])

    def wrap(orig):
        def collect_trajectories(*a, **k):
            out = orig(*a, **k)
            arrays, n = _copy_rollout(out[0])
            rollouts.append({"arrays": arrays, "len": n, "last_observation": np.array(out[1])})
            return out
        return collect_trajectories

    kw = {"total_timesteps": int(cfg["total_timesteps"]), "seed": int(cfg.get("seed", 0)), "progress_bar": False,
          "log_frequency": None}
    kw.update(_pick(cfg, ["steps_per_update", "gamma", "gae_lambda", "policy_gradient_steps",
                          "value_gradient_steps"]))
    ctx = patched(a2c, "collect_trajectories", wrap) if capture else contextlib.nullcontext()
    with ctx:
        return a2c.train_a2c(envs, st["policy"], st["policy_optimizer"], st["value_function"],
                             st["value_function_optimizer"], logger=logger, **kw)


def _traj_to_np(t):
    return {"observation": np.array(t.observation), "action": np.array(t.action), "reward": np.array(t.reward),
            "terminated": np.array(t.terminated), "next_value": np.array(t.next_value),
            "last_observation": np.array(t.last_observation)}


def _run_ppo_collect(envs, st, cfg, logger, extras, capture):
    """cfg: batch_size (vector steps per call), n_calls, seed, episode_stats (wrap
    with RecordEpisodeStatistics as train_ppo does)."""
    import jax

    from rl_blox.algorithm.ppo import collect_trajectories

    key = jax.random.key(int(cfg.get("seed", 0)))
    last, _ = envs.reset(seed=int(cfg.get("seed", 0)))
    e = gym.wrappers.vector.RecordEpisodeStatistics(envs) if cfg.get("episode_stats") else envs
    gs = 0
    rollouts = extras.setdefault("rollouts", [])
    for _ in range(int(cfg.get("n_calls", 1))):
        key, sk = jax.random.split(key)
        t = collect_trajectories(e, st["policy"], st["value_function"], sk, int(cfg["batch_size"]), logger, last, gs)
        last, gs = t.last_observation, t.global_step
        rollouts.append(_traj_to_np(t))
    return rollouts


def _run_ppo(envs, st, cfg, logger, extras, capture):
    from rl_blox.algorithm import ppo

    rollouts = extras.setdefault("rollouts", [])

    def wrap(orig):
        def update_ppo(actor, critic, oa, oc, observation, action, reward, terminated, next_value, *a, **k):
            rollouts.append({"observation": np.array(observation), "action": np.array(action),
                             "reward": np.array(reward), "terminated": np.array(terminated),
                             "next_value": np.array(next_value)})
            return orig(actor, critic, oa, oc, observation, action, reward, terminated, next_value, *a, **k)
        return update_ppo

    kw = {"iterations": int(cfg["iterations"]), "batch_size": int(cfg["batch_size"]),
          "seed": int(cfg.get("seed", 1)), "progress_bar": False}
    kw.update(_pick(cfg, ["epochs"]))
    ctx = patched(ppo, "update_ppo", wrap) if capture else contextlib.nullcontext()
    with ctx:
        return ppo.train_ppo(envs, st["policy"], st["value_function"], st["policy_optimizer"],
                             st["value_function_optimizer"], logger=logger, **kw)


# -- tabular -----------------------------------------------------------------

def _tab_kw(cfg, with_lr=True):
    kw = {"total_timesteps": int(cfg["total_timesteps"]), "seed": int(cfg.get("seed", 1)), "progress_bar": False}
    kw.update(_pick(cfg, ["epsilon", "gamma"]))
    if with_lr:
        kw.update(_pick(cfg, ["learning_rate"]))
        if cfg.get("probe"):
            kw["learning_rate"] = 0.0
    if cfg.get("probe"):
        kw["epsilon"] = 0.0
    return kw


def _scalar(x):
    a = np.asarray(x)
    return a.item() if a.shape == () else a.copy()


def _run_td_tabular(name):
    def run(env, st, cfg, logger, extras, capture):
        import importlib

        mod = importlib.import_module("rl_blox.algorithm." + name)
        updates = extras.setdefault("updates", [])
        if name == "double_q_learning":
            target, fields = "_dql_update", ("key", "q_table1", "q_table2", "observation", "action", "reward",
                                             "next_observation", "gamma", "learning_rate", "terminated")
        elif name == "q_learning":
            target, fields = "_update_policy", ("q_table", "observation", "action", "reward", "next_observation",
                                                "next_action", "gamma", "terminated", "learning_rate")
        else:
            target, fields = "_update_policy", ("q_table", "observation", "action", "reward", "next_observation",
                                                "next_action", "gamma", "learning_rate", "terminated")

        def wrap(orig):
            def update(*a, **k):
                named = dict(zip(fields, a, strict=False))
                named.update(k)
                updates.append({"step": env.n_steps,
                                **{f: _scalar(named[f]) for f in ("observation", "action", "reward",
                                                                  "next_observation", "terminated")}})
                return orig(*a, **k)
            return update

        ctx = patched(mod, target, wrap) if capture else contextlib.nullcontext()
        with ctx:
            if name == "double_q_learning":
                return mod.train_double_q_learning(env, st["q_table1"], st["q_table2"], logger=logger, **_tab_kw(cfg))
            fn = getattr(mod, "train_" + name)
            return fn(env, st["q_table"], logger=logger, **_tab_kw(cfg))
    return run


def _run_monte_carlo(env, st, cfg, logger, extras, capture):
    from rl_blox.algorithm import monte_carlo as mod

    updates = extras.setdefault("updates", [])

    def wrap(orig):
        def update(q_table, n_visits, rewards, observations, actions, gamma):
            updates.append({"step": env.n_steps, "rewards": np.array(rewards), "observations": np.array(observations),
                            "actions": np.array(actions)})
            return orig(q_table, n_visits, rewards, observations, actions, gamma)
        return update

    ctx = patched(mod, "update", wrap) if capture else contextlib.nullcontext()
    kw = _tab_kw(cfg, with_lr=False)
    with ctx:
        return mod.train_monte_carlo(env, st["q_table"], logger=logger, **kw)


def _run_dynaq(env, st, cfg, logger, extras, capture):
    from rl_blox.algorithm import dynaq as mod

    updates = extras.setdefault("updates", [])  # first q_learning_update after each env step
    counters = extras.setdefault("counter_updates", [])
    plans = extras.setdefault("planning_calls", [])
    seen = {"step": -1}

    def wrap_q(orig):
        def q_learning_update(obs, act, reward, next_obs, gamma, learning_rate, q_table):
            if env.n_steps != seen["step"]:
                seen["step"] = env.n_steps
                updates.append({"step": env.n_steps, "observation": _scalar(obs), "action": _scalar(act),
                                "reward": _scalar(reward), "next_observation": _scalar(next_obs)})
            return orig(obs, act, reward, next_obs, gamma, learning_rate, q_table)
        return q_learning_update

    def wrap_c(orig):
        def counter_update(counter, obs, act, reward, next_obs):
            counters.append({"step": env.n_steps, "observation": _scalar(obs), "action": _scalar(act),
                             "reward": _scalar(reward), "next_observation": _scalar(next_obs)})
            return orig(counter, obs, act, reward, next_obs)
        return counter_update

    def wrap_p(orig):
        def planning(model_transition, model_reward, obs_buffer, act_buffer, *a, **k):
            plans.append({"step": env.n_steps, "obs_buffer": np.array(obs_buffer), "act_buffer": np.array(act_buffer)})
            return orig(model_transition, model_reward, obs_buffer, act_buffer, *a, **k)
        return planning

    kw = _tab_kw(cfg)
    kw.update(_pick(cfg, ["n_planning_steps", "buffer_size"]))
    with contextlib.ExitStack() as es:
        if capture:
            es.enter_context(patched(mod, "q_learning_update", wrap_q))
            es.enter_context(patched(mod, "counter_update", wrap_c))
            es.enter_context(patched(mod, "planning", wrap_p))
        return mod.train_dynaq(env, st["q_table"], logger=logger, **kw)


_RUNNERS = {
    **{n: _run_dqn_family(n) for n in DQN_FAMILY},
    "ddpg": _run_ddpg, "td3": _run_td3, "td3_lap": _run_td3_lap, "sac": _run_sac, "td7": _run_td7,
    "mrq": _run_mrq, "pets": _run_pets,
    "sample_trajectories": _run_sample_trajectories,
    "reinforce": _run_reinforce_like("reinforce"), "actor_critic": _run_reinforce_like("actor_critic"),
    "a2c_collect": _run_a2c_collect, "a2c": _run_a2c, "ppo_collect": _run_ppo_collect, "ppo": _run_ppo,
    "q_learning": _run_td_tabular("q_learning"), "sarsa": _run_td_tabular("sarsa"),
    "double_q_learning": _run_td_tabular("double_q_learning"), "monte_carlo": _run_monte_carlo,
    "dynaq": _run_dynaq,
}
