"""Builders for small policy / critic networks with controlled parameters and
float64 closed-form references for the policy heads (used by C12 and C13).

Nothing here copies rl_blox formulas: the references are written from the
property statements (softmax / diagonal Gaussian with
``std = exp(clip(0.5 * log_var, -20, 2))``) and the docstrings.
"""
from __future__ import annotations

import math

import numpy as np

LOG_2PI = math.log(2.0 * math.pi)


# ------------------------------------------------------------------ builders

def scale_params(module, factor):
    """Multiply every nnx.Param of ``module`` by ``factor`` (in place)."""
    import jax
    from flax import nnx

    if factor == 1.0:
        return module
    st = nnx.state(module, nnx.Param)
    st = jax.tree_util.tree_map(lambda x: x * np.float32(factor), st)
    nnx.update(module, st)
    return module


def set_bias(layer, values):
    import jax.numpy as jnp

    v = np.asarray(values, dtype=np.float32)
    assert v.shape == tuple(layer.bias.value.shape), (v.shape, layer.bias.value.shape)
    layer.bias.value = jnp.asarray(v)


def make_mlp(n_in, n_out, hidden, seed, activation="tanh", pscale=1.0):
    from flax import nnx
    from rl_blox.blox.function_approximator.mlp import MLP

    return scale_params(MLP(n_in, n_out, list(hidden), activation, nnx.Rngs(int(seed))), pscale)


def make_gaussian_mlp(shared, n_in, n_out, hidden, seed, activation="tanh", pscale=1.0):
    from flax import nnx
    from rl_blox.blox.function_approximator.gaussian_mlp import GaussianMLP

    return scale_params(
        GaussianMLP(bool(shared), n_in, n_out, list(hidden), activation, nnx.Rngs(int(seed))), pscale)


def set_gaussian_output_bias(net, mean_bias, log_var_bias):
    """Set the output biases of a GaussianMLP so that, with zero output
    kernels, it predicts exactly (mean_bias, log_var_bias)."""
    mb = np.asarray(mean_bias, dtype=np.float32)
    lb = np.asarray(log_var_bias, dtype=np.float32)
    if net.shared_head:
        set_bias(net.output_layers[0], np.concatenate([mb, lb]))
    else:
        set_bias(net.output_layers[0], mb)
        set_bias(net.output_layers[1], lb)


def scale_output_kernels(net, factor):
    """Scale only the output-layer kernels (MLP or GaussianMLP)."""
    layers = net.output_layers if hasattr(net, "output_layers") else [net.output_layer]
    for l in layers:
        l.kernel.value = l.kernel.value * np.float32(factor)


def make_box(low, high):
    import gymnasium as gym

    low = np.asarray(low, dtype=np.float32)
    high = np.asarray(high, dtype=np.float32)
    return gym.spaces.Box(low, high, low.shape, dtype=np.float32)


BOXES = {
    # name -> (low, high) generators by action dimension: asymmetric,
    # per-dimension different
    "unit": lambda d: (-np.ones(d), np.ones(d)),
    "asym": lambda d: (-0.5 - np.arange(d), 2.0 + 0.5 * np.arange(d)),
    "wide": lambda d: (-10.0 * (1 + np.arange(d)), 30.0 + np.arange(d)),
    "tiny": lambda d: (0.25 + 0.0 * np.arange(d), 0.375 + 0.125 * np.arange(d)),
}


def box_for(name, d):
    lo, hi = BOXES[name](d)
    return make_box(lo, hi)


def make_policy(head, n_obs, n_act, hidden, seed, pscale=1.0, shared=True, box="asym"):
    """head in softmax | gaussian | tanh_gaussian.  Returns (policy, info)."""
    from rl_blox.blox.function_approximator.policy_head import (
        GaussianPolicy,
        GaussianTanhPolicy,
        SoftmaxPolicy,
    )

    if head == "softmax":
        net = make_mlp(n_obs, n_act, hidden, seed, pscale=pscale)
        return SoftmaxPolicy(net), {"head": head, "net": net}
    net = make_gaussian_mlp(shared, n_obs, n_act, hidden, seed, pscale=pscale)
    if head == "gaussian":
        return GaussianPolicy(net), {"head": head, "net": net}
    space = box_for(box, n_act)
    return GaussianTanhPolicy(net, space), {
        "head": head, "net": net,
        "scale": (space.high.astype(np.float64) - space.low.astype(np.float64)) / 2.0,
        "bias": (space.high.astype(np.float64) + space.low.astype(np.float64)) / 2.0,
    }


def output_gross(net, obs):
    """Sum of absolute term magnitudes entering each output of an MLP /
    GaussianMLP: |b_i| + sum_j |W_ji| |h_j|.  A fused (jit-compiled) and an
    eager float32 forward pass of the same network can differ by a few
    1e-7 * gross, which matters wherever the output is the result of
    cancellation.  Returns one array per output group (logits) or
    (mean, log_var)."""
    import jax.numpy as jnp

    x = np.asarray(obs, dtype=np.float64)
    for layer in net.hidden_layers:
        pre = x @ np.asarray(layer.kernel.value, dtype=np.float64) + np.asarray(layer.bias.value, dtype=np.float64)
        x = np.asarray(net.activation(jnp.asarray(pre, dtype=jnp.float32)), dtype=np.float64)
    layers = net.output_layers if hasattr(net, "output_layers") else [net.output_layer]
    outs = [np.abs(x) @ np.abs(np.asarray(l.kernel.value, dtype=np.float64)) + np.abs(
        np.asarray(l.bias.value, dtype=np.float64)) for l in layers]
    if hasattr(net, "output_layers"):
        if len(outs) == 1:
            d = outs[0].shape[-1] // 2
            return outs[0][..., :d], outs[0][..., d:]
        return outs[0], outs[1]
    return outs[0]


# ------------------------------------------------- float64 closed-form heads

def softmax_ref(logits):
    """(probabilities, log-probabilities, entropy) in float64, rows = last axis."""
    l = np.asarray(logits, dtype=np.float64)
    m = l.max(-1, keepdims=True)
    z = l - m
    lse = np.log(np.exp(z).sum(-1, keepdims=True))
    logp = z - lse
    p = np.exp(logp)
    with np.errstate(invalid="ignore"):
        plogp = np.where(p > 0.0, p * logp, 0.0)
    return p, logp, -plogp.sum(-1)


def gaussian_std_ref(log_var):
    lv = np.asarray(log_var, dtype=np.float64)
    return np.exp(np.clip(0.5 * lv, -20.0, 2.0))


def tanh_mean_ref(y, scale, bias):
    return np.tanh(np.asarray(y, dtype=np.float64)) * scale + bias


def gaussian_logp_ref(mean, std, action):
    """Diagonal Gaussian log-density, summed over the last axis; also returns
    the sum of absolute term magnitudes (tolerance scale)."""
    mean = np.asarray(mean, dtype=np.float64)
    std = np.asarray(std, dtype=np.float64)
    a = np.asarray(action, dtype=np.float64)
    z = (a - mean) / std
    terms = -np.log(std) - 0.5 * LOG_2PI - 0.5 * z * z
    return terms.sum(-1), np.abs(np.log(std)).sum(-1) + 0.5 * LOG_2PI * mean.shape[-1] + (0.5 * z * z).sum(-1)


def gaussian_entropy_ref(std):
    std = np.asarray(std, dtype=np.float64)
    return 0.5 * (1.0 + LOG_2PI) + np.log(std)


# ------------------------------------------------ jax formulas for gradients
# (independently written objectives: used inside jax.grad / jax.jacrev)

def jax_logp(head, net_out, actions, info):
    import jax
    import jax.numpy as jnp

    if head == "softmax":
        logits = net_out
        lp = logits - jax.scipy.special.logsumexp(logits, axis=-1, keepdims=True)
        return jnp.take_along_axis(lp, actions[..., None].astype(jnp.int32), axis=-1)[..., 0]
    y, log_var = net_out
    std = jnp.exp(jnp.clip(0.5 * log_var, -20.0, 2.0))
    if head == "tanh_gaussian":
        mean = jnp.tanh(y) * jnp.asarray(info["scale"], dtype=jnp.float32) + jnp.asarray(
            info["bias"], dtype=jnp.float32)
    else:
        mean = y
    z = (actions - mean) / std
    return jnp.sum(-jnp.log(std) - 0.5 * LOG_2PI - 0.5 * z * z, axis=-1)


def jax_mean_std(head, net_out, info):
    import jax.numpy as jnp

    y, log_var = net_out
    std = jnp.exp(jnp.clip(0.5 * log_var, -20.0, 2.0))
    if head == "tanh_gaussian":
        mean = jnp.tanh(y) * jnp.asarray(info["scale"], dtype=jnp.float32) + jnp.asarray(
            info["bias"], dtype=jnp.float32)
    else:
        mean = y
    return mean, std


def jax_entropy_mean(head, net_out):
    """Mean over every element of the per-row (softmax) / per-dimension
    (Gaussian) entropy."""
    import jax
    import jax.numpy as jnp

    if head == "softmax":
        lp = net_out - jax.scipy.special.logsumexp(net_out, axis=-1, keepdims=True)
        p = jnp.exp(lp)
        return jnp.mean(-jnp.sum(p * lp, axis=-1))
    _, log_var = net_out
    log_std = jnp.clip(0.5 * log_var, -20.0, 2.0)
    return jnp.mean(0.5 * (1.0 + LOG_2PI) + log_std)


def ref_logp64(head, policy, info, obs, actions):
    """Float64 closed-form log pi(a|o) from the float32 network outputs."""
    if head == "softmax":
        logits = np.asarray(policy.net(obs), dtype=np.float64)
        _, logp, _ = softmax_ref(logits)
        a = np.asarray(actions).astype(np.int64)
        return np.take_along_axis(logp, a[..., None], axis=-1)[..., 0]
    y, lv = policy.net(obs)
    std = gaussian_std_ref(np.asarray(lv))
    if head == "tanh_gaussian":
        mean = tanh_mean_ref(np.asarray(y), info["scale"], info["bias"])
    else:
        mean = np.asarray(y, dtype=np.float64)
    return gaussian_logp_ref(mean, std, np.asarray(actions))[0]


def ref_entropy_mean64(head, policy, obs):
    if head == "softmax":
        return float(softmax_ref(np.asarray(policy.net(obs)))[2].mean())
    _, lv = policy.net(obs)
    return float(gaussian_entropy_ref(gaussian_std_ref(np.asarray(lv))).mean())


# ----------------------------------------------------------- gradient helpers

def flat_params(state_or_module):
    """{path: float64 array} of the nnx.Param leaves of a State / module."""
    import jax
    from flax import nnx

    st = state_or_module
    if isinstance(st, nnx.Module):
        st = nnx.state(st, nnx.Param)
    out = {}
    for path, leaf in jax.tree_util.tree_leaves_with_path(st):
        out[jax.tree_util.keystr(path)] = np.asarray(leaf, dtype=np.float64)
    return out


def split_params(module):
    """(graphdef, params, rest) with params = nnx.Param state."""
    from flax import nnx

    return nnx.split(module, nnx.Param, ...)


def per_sample_jacobian(module, fn, n, consts=()):
    """Per-sample Jacobian of ``fn(merged_module, *merged_consts) -> (n,)``
    w.r.t. the module's Params: {path: float64 array (n, *param.shape)}."""
    import jax
    from flax import nnx

    graphdef, params, rest = split_params(module)
    cs = _const_split(consts)
    cdefs, cstates = [g for g, _ in cs], [s for _, s in cs]

    def f(p, r, cst):  # every state enters as an argument: fresh Variables at this trace level
        return fn(nnx.merge(graphdef, p, r), *[nnx.merge(g, s) for g, s in zip(cdefs, cst)])

    # the const states are differentiated too (and dropped): rl_blox's nnx.jit-ed MLP.__call__
    # can only be entered inside a jax transform when the module's values are tracers of it
    jac = jax.jacrev(f, argnums=(0, 2))(params, rest, cstates)[0]
    out = {}
    for path, leaf in jax.tree_util.tree_leaves_with_path(jac):
        a = np.asarray(leaf, dtype=np.float64)
        assert a.shape[0] == n, (a.shape, n)
        out[jax.tree_util.keystr(path)] = a
    return out


def _const_split(consts):
    from flax import nnx

    return [nnx.split(c) for c in consts]


def grad_of(module, fn, consts=()):
    """{path: float64} gradient of scalar ``fn(merged_module, *merged_consts)``
    wrt the Params of ``module``.  Other modules used by ``fn`` must be passed
    as ``consts`` (they are re-merged inside the trace: rl_blox's MLP has an
    nnx.jit-ed ``__call__`` that cannot be entered with an outer-level module)."""
    import jax
    from flax import nnx

    graphdef, params, rest = split_params(module)
    cs = _const_split(consts)
    cdefs, cstates = [g for g, _ in cs], [s for _, s in cs]

    def f(p, r, cst):
        return fn(nnx.merge(graphdef, p, r), *[nnx.merge(g, s) for g, s in zip(cdefs, cst)])

    return flat_params(jax.grad(f, argnums=(0, 2))(params, rest, cstates)[0])


def grad_sensitivity(module, fn, consts, gref, reps=4):
    """Per-leaf allowance for ill-conditioned float32 gradients (LayerNorm / avg-L1 normalisation on
    nearly constant inputs): re-evaluate the reference gradient with every parameter of ``module``
    perturbed by a relative 2^-21 (a few float32 ulps) and allow 4x the observed movement.
    Well-conditioned cases get ~1e-6 of the gradient scale, i.e. nothing."""
    import jax
    from flax import nnx

    extra = {k: np.zeros_like(v, dtype=np.float64) for k, v in gref.items()}
    for rep in range(reps):
        r = np.random.default_rng(1000 + rep)
        m2 = nnx.clone(module)
        st = nnx.state(m2, nnx.Param)
        lv, td = jax.tree_util.tree_flatten(st)
        new = [l * (1.0 + np.float32(2.0 ** -21) * r.choice([-1.0, 1.0], size=l.shape).astype(np.float32)) for l in lv]
        nnx.update(m2, jax.tree_util.tree_unflatten(td, new))
        c2 = []
        for c in consts:  # the modules the gradient flows through (critic, encoder) matter as much
            c2m = nnx.clone(c)
            stc = nnx.state(c2m, nnx.Param)
            lvc, tdc = jax.tree_util.tree_flatten(stc)
            newc = [l * (1.0 + np.float32(2.0 ** -21) * r.choice([-1.0, 1.0], size=l.shape).astype(np.float32))
                    for l in lvc]
            nnx.update(c2m, jax.tree_util.tree_unflatten(tdc, newc))
            c2.append(c2m)
        g2 = grad_of(m2, fn, tuple(c2))
        for k in extra:
            extra[k] = np.maximum(extra[k], 4.0 * np.abs(g2[k] - gref[k]))
    return extra


def logp_conditioning(head, policy, info, obs, actions):
    """Float32 conditioning of log pi(a|o): (per-sample bound on the float32
    evaluation error of the log-density, kappa = max (|mean|+|a|+|scale|)/std).
    The standardised residual z = (a-mean)/std amplifies the rounding of mean
    and a by 1/std; its square enters the density."""
    if head == "softmax":
        logits = np.asarray(policy.net(obs), dtype=np.float64)
        return 2e-6 * (1.0 + np.abs(logits).max(-1)), 0.0
    y, lv = policy.net(obs)
    std = gaussian_std_ref(np.asarray(lv))
    if head == "tanh_gaussian":
        mean = tanh_mean_ref(np.asarray(y), info["scale"], info["bias"])
        mag = np.abs(mean) + np.abs(info["scale"]) + np.abs(info["bias"])
    else:
        mean = np.asarray(y, dtype=np.float64)
        mag = np.abs(mean)
    a = np.asarray(actions, dtype=np.float64)
    z = (a - mean) / std
    k = (mag + np.abs(a)) / std
    err = 4e-7 * ((np.abs(z) + 1.0) * k).sum(-1) + 2e-6 * (np.abs(np.log(std)).sum(-1) + (0.5 * z * z).sum(-1) + 1.0)
    return err, float(k.max())


def contract(jac, coeff):
    """sum_i coeff_i * J_i and sum_i |coeff_i| |J_i| per leaf (float64)."""
    c = np.asarray(coeff, dtype=np.float64)
    g, gross = {}, {}
    for k, J in jac.items():
        cc = c.reshape((-1,) + (1,) * (J.ndim - 1))
        g[k] = (cc * J).sum(0)
        gross[k] = (np.abs(cc) * np.abs(J)).sum(0)
    return g, gross


def compare_grads(g, gref, gross=None, rel=1e-3, abs_gross=1e-4, abs_floor=1e-6, kappa=0.0, extra=None):
    """Largest violation of |g-gref| <= abs_gross*gross + rel*|gref| + abs_floor*(1+G)
    over all leaves; returns (ok, description).  G = global max |gref|.
    ``kappa`` (see logp_conditioning) widens the gross-relative allowance by
    4e-7*kappa: both sides evaluate z = (a-mean)/std in float32."""
    abs_gross = abs_gross + 4e-7 * kappa
    if set(g) != set(gref):
        return False, f"parameter paths differ: {sorted(set(g) ^ set(gref))}"
    G = max([float(np.max(np.abs(v))) if v.size else 0.0 for v in gref.values()] + [0.0])
    worst, where = 0.0, None
    for k in sorted(gref):
        a, b = g[k], gref[k]
        if a.shape != b.shape:
            return False, f"{k}: shape {a.shape} != {b.shape}"
        if not np.all(np.isfinite(a)):
            return False, f"{k}: non-finite gradient"
        gr = gross[k] if gross is not None else np.full_like(b, G)
        tol = abs_gross * np.maximum(gr, G) + rel * np.abs(b) + abs_floor * (1.0 + G)
        if extra is not None:  # explicit additional allowance per leaf (e.g. float32 rounding of the weights)
            tol = tol + extra[k]
        ex = np.max(np.abs(a - b) / tol) if a.size else 0.0
        if ex > worst:
            worst, where = float(ex), k
    if worst > 1.0:
        k = where
        return False, (f"{k}: max|g-gref|={np.max(np.abs(g[k] - gref[k])):.6g} "
                       f"|gref|max={np.max(np.abs(gref[k])):.6g} G={G:.6g} excess x{worst:.3g}")
    return True, ""


def grad_norm(g):
    return float(np.sqrt(sum(float((v * v).sum()) for v in g.values())))
