"""Core types shared by every property module.

A *case* is a JSON-serialisable value (dict of ints / floats / strings / lists)
that completely describes one generated input, operation sequence or history.
``SubCheck.run(case)`` executes it against the real code and an explicit
oracle.  It returns an :class:`Outcome` when the property held and raises
:class:`Violation` when an oracle clause is broken.
"""
from __future__ import annotations

import dataclasses
import hashlib
import json
import math
from typing import Any, Callable


class Violation(Exception):
    """An oracle clause of the property is broken by the code under test.

    ``key`` is the stable *signature* of the failure: sub-check, oracle clause
    and call site (e.g. ``"train_a2c.budget.overshoot_lt_one_collection"``).
    It is what KNOWN_FINDINGS.txt entries are matched against, so an oracle
    must encode in the key every distinction that separates a recorded finding
    from a different violation of the same property.
    """

    def __init__(self, key: str, detail: str = ""):
        super().__init__(f"{key}: {detail}")
        self.key = key
        self.detail = detail


class HarnessError(Exception):
    """The check itself is broken (generator, import, oracle bug): exit 2."""


@dataclasses.dataclass
class Outcome:
    """What one executed case covered.

    labels      -- classification labels of this case (for the histogram)
    nontrivial  -- whether the case satisfies the property's stated
                   non-triviality rule
    fp          -- the part of the case that identifies it for the purpose of
                   counting *distinct* non-trivial cases (any JSON value);
                   default: the whole case
    known       -- keys of known findings that this case hit (the oracle
                   excluded them and continued)
    """

    labels: list = dataclasses.field(default_factory=list)
    nontrivial: bool = True
    fp: Any = None
    known: list = dataclasses.field(default_factory=list)


@dataclasses.dataclass
class SubCheck:
    name: str
    strategy: Any  # hypothesis strategy, or a zero-arg callable returning one
    run: Callable[[Any], Outcome]
    quick: int = 100  # number of generated cases, quick tier
    thorough: int = 2000
    shards: int = 4  # max number of parallel seed shards (quick)
    shards_thorough: int = 16
    shrink: bool = True  # keep Hypothesis' shrink phase (cheap cases only)
    min_nontrivial_frac: float = 0.3
    cost: float = 1.0  # relative cost hint for scheduling (bigger = first)
    suppress_too_slow: bool = False
    # optional greedy minimiser for expensive cases: case -> iterable of
    # smaller candidate cases
    simplify: Callable[[Any], Any] | None = None
    rule: str = ""
    # thorough tier: additional coverage-guided atheris campaign through the
    # same strategy/oracle (tools/fuzz.py); number of libFuzzer runs in total
    fuzz_runs: int = 0
    fuzz_shards: int = 4
    # A violation that Hypothesis cannot reproduce on re-execution ("Flaky") is normally a harness
    # error (exit 2).  For properties that are themselves about reproducibility (C09) the observed
    # violation stands: the case that failed once is reported.
    flaky_is_violation: bool = False

    def get_strategy(self):
        s = self.strategy
        if callable(s) and not hasattr(s, "example"):
            s = s()
        return s


def canonical(obj) -> str:
    return json.dumps(obj, sort_keys=True, separators=(",", ":"), default=_json_default)


def _json_default(o):
    import numpy as np

    if isinstance(o, (np.integer,)):
        return int(o)
    if isinstance(o, (np.floating,)):
        return float(o)
    if isinstance(o, np.ndarray):
        return o.tolist()
    if isinstance(o, (set, frozenset)):
        return sorted(o)
    if isinstance(o, bytes):
        return o.hex()
    raise TypeError(f"not JSON serialisable: {type(o)}")


def fingerprint(obj) -> str:
    return hashlib.sha1(canonical(obj).encode()).hexdigest()[:16]


def derive_seed(seed: int, *names) -> int:
    h = hashlib.sha256(("%d|" % seed + "|".join(str(n) for n in names)).encode())
    return int.from_bytes(h.digest()[:4], "big")


# ---------------------------------------------------------------------------
# Known findings: raised through this helper so the search continues behind a
# recorded defect.

class KnownFindings:
    def __init__(self, path):
        self.open = {}  # (property, key) -> text
        self.fixed = []
        try:
            with open(path) as f:
                lines = f.read().splitlines()
        except FileNotFoundError:
            lines = []
        for line in lines:
            line = line.strip()
            if not line or line.startswith("#"):
                continue
            if line.startswith("finding:"):
                head, _, text = line[len("finding:"):].partition("::")
                kv = dict(tok.split("=", 1) for tok in head.split() if "=" in tok)
                self.open[(kv["property"], kv["key"])] = text.strip()
            elif line.startswith("fixed:"):
                self.fixed.append(line)

    def is_known(self, prop, key):
        return (prop, key) in self.open

    def text(self, prop, key):
        return self.open[(prop, key)]


# ---------------------------------------------------------------------------
# Tolerance helpers (DESIGN §3, tolerance policy)

def close(a, b, scale=1.0, rel=2e-4, abs_=1e-5):
    """|a-b| <= abs_*scale + rel*|b| elementwise, NaN never close."""
    import numpy as np

    a = np.asarray(a, dtype=np.float64)
    b = np.asarray(b, dtype=np.float64)
    if a.shape != b.shape:
        return False
    if np.isnan(a).any() or np.isnan(b).any():
        return bool(np.array_equal(np.isnan(a), np.isnan(b)) and close(
            np.nan_to_num(a, nan=0.0), np.nan_to_num(b, nan=0.0), scale, rel, abs_))
    with np.errstate(invalid="ignore"):
        d = np.abs(a - b)
        d = np.where(a == b, 0.0, d)  # equal infinities
    return bool(np.all(d <= abs_ * scale + rel * np.abs(b)))


def maxdiff(a, b):
    import numpy as np

    a = np.asarray(a, dtype=np.float64)
    b = np.asarray(b, dtype=np.float64)
    if a.shape != b.shape:
        return math.inf
    if a.size == 0:
        return 0.0
    with np.errstate(invalid="ignore"):
        d = np.abs(a - b)
        d = np.where(a == b, 0.0, d)
    return float(np.nanmax(d)) if not np.isnan(d).all() else math.nan


def bytes_equal(a, b):
    import numpy as np

    a = np.asarray(a)
    b = np.asarray(b)
    return a.shape == b.shape and a.dtype == b.dtype and a.tobytes() == b.tobytes()


# ---------------------------------------------------------------------------
# Reporting from inside an oracle.  ``report`` raises Violation unless the
# (property, key) pair is an open entry of KNOWN_FINDINGS.txt, in which case
# the hit is counted and the oracle continues with its remaining clauses.

_STATE = {"kf": None, "prop": None, "hits": []}


def configure(prop, kf):
    _STATE["prop"] = prop
    _STATE["kf"] = kf
    _STATE["hits"] = []


def reset_hits():
    _STATE["hits"] = []


def hits():
    return list(_STATE["hits"])


def report(key: str, detail: str = ""):
    kf = _STATE["kf"]
    prop = _STATE["prop"]
    if kf is not None and kf.is_known(prop, key):
        _STATE["hits"].append(key)
        return
    raise Violation(key, detail)


def check(cond, key: str, detail=""):
    """Oracle clause: report a violation of ``key`` unless ``cond``."""
    if not cond:
        report(key, detail() if callable(detail) else detail)
