"""Routine adapters for C06 (target-network histories).

``run_history(algo, cfg, supply_targets, observe)`` builds tiny networks from
the seeds in ``cfg``, a ScriptedEnv driven by ``cfg["script"]`` and runs the
real training routine.  With ``observe`` it records a *timeline* of parameter
snapshots of every watched module at

* every ``env.step`` call (``on_step`` callback: state left behind by the
  previous step),
* every ``record_stat`` / ``record_epoch`` call of the logger (live modules
  right after an update),
* right before every call of the routine (``init``: the caller's networks as
  they are handed over) and after the routine returned.

Supplied targets are clones of the online networks or, with
``cfg["target_offset"]``, clones whose every ``nnx.Param`` leaf was changed
(``0.5 * x + c``): targets as a caller holds them after earlier training.
``cfg["supply_only"]`` ("first" / "second", routines with two targets): only the
policy target / only the critic target is supplied, the other argument stays
None.  ``cfg["split"]`` (MR.Q) runs the history as two calls, the second continuing
at ``global_step = split`` with everything the first call returned.

Modules that only the routine knows (TD7 fixed embeddings / checkpoints) are
added to the watch list when the logger is first shown them.

No state leaks between calls: everything is constructed here from the case.
"""
from __future__ import annotations

import numpy as np

ALGOS = ["nature_dqn", "ddqn", "per", "ddpg", "td3", "td3_lap", "sac", "td7", "mrq"]
HIDDEN = [4]
OBS_DIM = 3
N_ACTIONS = 3
GAMMA = 0.99  # static jit argument of every train step: keep fixed


class Recorder:
    """Timeline of snapshots.  obs[i] = dict(kind, key, log_step, t, owner,
    snap={name: {path: array}})."""

    def __init__(self, global_step=0, enabled=True):
        self.mods = {}
        self.obs = []
        self.n_env = 0
        self.global_step = int(global_step)
        self.enabled = enabled
        self.logger = None

    def watch(self, name, module):
        self.mods[name] = module

    @property
    def t(self):
        """Index of the environment step in progress (absolute)."""
        return self.global_step + self.n_env - 1

    def snap(self, kind, key=None, log_step=None):
        if not self.enabled:
            return
        from .instruments import state_arrays

        t = self.t
        owner = t - 1 if kind == "env" else t
        self.obs.append({"kind": kind, "key": key, "log_step": log_step, "t": t, "owner": owner,
                         "snap": {n: state_arrays(m) for n, m in self.mods.items()}})

    # env callback (inside env.step, before the routine sees the result)
    def on_step(self, env, ev):
        self.n_env += 1
        self.snap("env")

    def make_logger(self):
        from .instruments import make_snapshot_logger

        logger = make_snapshot_logger(snapshot=False)
        rec = self

        def _snap():
            kind, key, _, _, step = logger.calls[-1]
            if kind == "epoch":
                m = logger.modules[key]
                if key not in rec.mods:
                    rec.mods[key] = m
            rec.snap(kind, key, step)

        logger._snap = _snap
        self.logger = logger
        return logger


def _env(cfg, rec, discrete):
    import gymnasium as gym

    from .envs import ScriptedEnv

    if discrete:
        space = gym.spaces.Discrete(N_ACTIONS)
    else:
        space = gym.spaces.Box(np.array([-1.0], dtype=np.float32), np.array([1.0], dtype=np.float32))
    env = ScriptedEnv(cfg["script"], seed=cfg["env_seed"], obs_dim=OBS_DIM, action_space=space,
                      on_step=rec.on_step if rec is not None else None, reward_scale=0.1)
    env.action_space.seed(cfg["seed"])
    return env


def _clone(m):
    from flax import nnx

    return nnx.clone(m)


def _supplied(m, cfg, idx=0):
    """The target network handed to the routine: a clone of ``m``; with
    ``cfg["target_offset"]`` every nnx.Param leaf x becomes 0.5 * x + c
    (c a dyadic constant chosen by the case), so that the supplied target
    differs from the online network in every parameter leaf.  Other variables
    (action scale / bias) keep their values."""
    import jax
    from flax import nnx

    t = nnx.clone(m)
    if cfg.get("target_offset"):
        c = np.float32((1 + (int(cfg["net_seed"]) + idx) % 5) / 64.0)
        state = nnx.state(t, nnx.Param)
        nnx.update(t, jax.tree_util.tree_map(lambda x: (x * np.float32(0.5) + c).astype(x.dtype), state))
    return t


def run_history(algo, cfg, supply_targets=True, observe=True):
    """Returns (rec, out) with out = {"online": {...}, "targets": {...},
    "extra": {...}, "result": namedtuple} (modules by canonical name)."""
    rec = Recorder(cfg.get("global_step", 0), enabled=observe)
    logger = rec.make_logger() if observe else None
    fn = globals()["_run_" + algo]
    out = fn(cfg, rec, logger, supply_targets)
    if observe:
        # final observation: the returned modules
        for n, m in out.get("final_watch", {}).items():
            rec.mods[n] = m
        rec.snap("final")
    return rec, out


# ------------------------------------------------------------------ DQN family

def _dqn_common(cfg, rec, logger, supply, which):
    import optax
    from flax import nnx

    from rl_blox.blox.function_approximator.mlp import MLP
    from rl_blox.blox.replay_buffer import PrioritizedReplayBuffer, ReplayBuffer

    env = _env(cfg, rec, discrete=True)
    q = MLP(OBS_DIM, N_ACTIONS, HIDDEN, "relu", nnx.Rngs(cfg["net_seed"]))
    opt = nnx.Optimizer(q, optax.adam(cfg["lr"]), wrt=nnx.Param)
    tgt = _supplied(q, cfg) if supply else None
    rec.watch("q", q)
    if tgt is not None:
        rec.watch("q_target", tgt)
    kw = dict(batch_size=cfg["batch_size"], total_timesteps=cfg["total_timesteps"], gamma=GAMMA,
              update_frequency=cfg["update_frequency"], target_update_frequency=cfg["target_delay"],
              learning_starts=cfg["learning_starts"], q_target_net=tgt, seed=cfg["seed"], logger=logger,
              global_step=cfg.get("global_step", 0), progress_bar=False)
    rec.snap("init")
    if which == "per":
        from rl_blox.algorithm.per import train_ddqn_per

        rb = PrioritizedReplayBuffer(cfg["buffer_size"], discrete_actions=True)
        res = train_ddqn_per(q, env, rb, opt, **kw)
    else:
        rb = ReplayBuffer(cfg["buffer_size"], discrete_actions=True)
        if which == "nature_dqn":
            from rl_blox.algorithm.nature_dqn import train_nature_dqn as f
        else:
            from rl_blox.algorithm.ddqn import train_ddqn as f
        res = f(q, env, rb, opt, **kw)
    return {"pairs_final": {"q_target": (res.q_target_net, res.q_net)}, "supplied": {"q_target": tgt},
            "given_online": {"q": q}, "result": res, "env": env,
            "final_watch": {"q_target": res.q_target_net}}


def _run_nature_dqn(cfg, rec, logger, supply):
    return _dqn_common(cfg, rec, logger, supply, "nature_dqn")


def _run_ddqn(cfg, rec, logger, supply):
    return _dqn_common(cfg, rec, logger, supply, "ddqn")


def _run_per(cfg, rec, logger, supply):
    return _dqn_common(cfg, rec, logger, supply, "per")


# ------------------------------------------------------------- DDPG / TD3 / SAC

def _actor_critic_states(cfg, env, double_q):
    import optax
    from flax import nnx

    from rl_blox.blox.double_qnet import ContinuousClippedDoubleQNet
    from rl_blox.blox.function_approximator.mlp import MLP
    from rl_blox.blox.function_approximator.policy_head import DeterministicTanhPolicy

    s = cfg["net_seed"]
    policy = DeterministicTanhPolicy(MLP(OBS_DIM, 1, HIDDEN, "relu", nnx.Rngs(s)), env.action_space)
    popt = nnx.Optimizer(policy, optax.adam(cfg["lr"]), wrt=nnx.Param)
    if double_q:
        q = ContinuousClippedDoubleQNet(MLP(OBS_DIM + 1, 1, HIDDEN, "relu", nnx.Rngs(s + 1)),
                                        MLP(OBS_DIM + 1, 1, HIDDEN, "relu", nnx.Rngs(s + 2)))
    else:
        q = MLP(OBS_DIM + 1, 1, HIDDEN, "relu", nnx.Rngs(s + 1))
    qopt = nnx.Optimizer(q, optax.adam(cfg["lr"]), wrt=nnx.Param)
    return policy, popt, q, qopt


def _run_ddpg(cfg, rec, logger, supply):
    from rl_blox.algorithm.ddpg import train_ddpg
    from rl_blox.blox.replay_buffer import ReplayBuffer

    env = _env(cfg, rec, discrete=False)
    policy, popt, q, qopt = _actor_critic_states(cfg, env, double_q=False)
    pt = _supplied(policy, cfg, 0) if supply and cfg.get("supply_only") != "second" else None
    qt = _supplied(q, cfg, 1) if supply and cfg.get("supply_only") != "first" else None
    rec.watch("policy", policy)
    rec.watch("q", q)
    if pt is not None:
        rec.watch("policy_target", pt)
    if qt is not None:
        rec.watch("q_target", qt)
    rec.snap("init")
    res = train_ddpg(env, policy, popt, q, qopt, seed=cfg["seed"], total_timesteps=cfg["total_timesteps"],
                     gamma=GAMMA, tau=cfg["tau"], batch_size=cfg["batch_size"],
                     gradient_steps=cfg["gradient_steps"], learning_starts=cfg["learning_starts"],
                     replay_buffer=ReplayBuffer(cfg["buffer_size"]), policy_target=pt, q_target=qt,
                     logger=logger, global_step=cfg.get("global_step", 0), progress_bar=False)
    return {"pairs_final": {"policy_target": (res.policy_target, res.policy), "q_target": (res.q_target, res.q)},
            "supplied": {"policy_target": pt, "q_target": qt}, "result": res, "env": env,
            "given_online": {"policy": policy, "q": q},
            "final_watch": {"policy_target": res.policy_target, "q_target": res.q_target}}


def _run_td3(cfg, rec, logger, supply, lap=False):
    from rl_blox.blox.replay_buffer import LAP, ReplayBuffer

    env = _env(cfg, rec, discrete=False)
    policy, popt, q, qopt = _actor_critic_states(cfg, env, double_q=True)
    pt = _supplied(policy, cfg, 0) if supply and cfg.get("supply_only") != "second" else None
    qt = _supplied(q, cfg, 1) if supply and cfg.get("supply_only") != "first" else None
    rec.watch("policy", policy)
    rec.watch("q", q)
    if pt is not None:
        rec.watch("policy_target", pt)
    if qt is not None:
        rec.watch("q_target", qt)
    rec.snap("init")
    kw = dict(seed=cfg["seed"], total_timesteps=cfg["total_timesteps"], gamma=GAMMA, tau=cfg["tau"],
              policy_delay=cfg["target_delay"], batch_size=cfg["batch_size"],
              gradient_steps=cfg["gradient_steps"], learning_starts=cfg["learning_starts"],
              policy_target=pt, q_target=qt, logger=logger, global_step=cfg.get("global_step", 0),
              progress_bar=False)
    if lap:
        from rl_blox.algorithm.td3_lap import train_td3_lap

        res = train_td3_lap(env, policy, popt, q, qopt, replay_buffer=LAP(cfg["buffer_size"]), **kw)
    else:
        from rl_blox.algorithm.td3 import train_td3

        res = train_td3(env, policy, popt, q, qopt, replay_buffer=ReplayBuffer(cfg["buffer_size"]), **kw)
    return {"pairs_final": {"policy_target": (res.policy_target, res.policy), "q_target": (res.q_target, res.q)},
            "supplied": {"policy_target": pt, "q_target": qt}, "result": res, "env": env,
            "given_online": {"policy": policy, "q": q},
            "final_watch": {"policy_target": res.policy_target, "q_target": res.q_target}}


def _run_td3_lap(cfg, rec, logger, supply):
    return _run_td3(cfg, rec, logger, supply, lap=True)


def _run_sac(cfg, rec, logger, supply):
    import optax
    from flax import nnx

    from rl_blox.algorithm.sac import train_sac
    from rl_blox.blox.double_qnet import ContinuousClippedDoubleQNet
    from rl_blox.blox.function_approximator.gaussian_mlp import GaussianMLP
    from rl_blox.blox.function_approximator.mlp import MLP
    from rl_blox.blox.function_approximator.policy_head import GaussianTanhPolicy
    from rl_blox.blox.replay_buffer import ReplayBuffer

    env = _env(cfg, rec, discrete=False)
    s = cfg["net_seed"]
    policy = GaussianTanhPolicy(GaussianMLP(False, OBS_DIM, 1, HIDDEN, "swish", nnx.Rngs(s)), env.action_space)
    popt = nnx.Optimizer(policy, optax.adam(cfg["lr"]), wrt=nnx.Param)
    q = ContinuousClippedDoubleQNet(MLP(OBS_DIM + 1, 1, HIDDEN, "relu", nnx.Rngs(s + 1)),
                                    MLP(OBS_DIM + 1, 1, HIDDEN, "relu", nnx.Rngs(s + 2)))
    qopt = nnx.Optimizer(q, optax.adam(cfg["lr"]), wrt=nnx.Param)
    qt = _supplied(q, cfg) if supply else None
    rec.watch("q", q)
    if supply:
        rec.watch("q_target", qt)
    rec.snap("init")
    res = train_sac(env, policy, popt, q, qopt, seed=cfg["seed"], total_timesteps=cfg["total_timesteps"],
                    gamma=GAMMA, tau=cfg["tau"], batch_size=cfg["batch_size"],
                    learning_starts=cfg["learning_starts"], policy_delay=cfg["policy_delay"],
                    target_network_delay=cfg["target_delay"], replay_buffer=ReplayBuffer(cfg["buffer_size"]),
                    q_target=qt, logger=logger, global_step=cfg.get("global_step", 0), progress_bar=False)
    return {"pairs_final": {"q_target": (res.q_target, res.q)}, "supplied": {"q_target": qt}, "result": res,
            "env": env, "given_online": {"q": q}, "final_watch": {"q_target": res.q_target}}


# ------------------------------------------------------------------------- TD7

def td7_states(cfg, env):
    from rl_blox.algorithm.td7 import create_td7_state

    return create_td7_state(
        env, n_embedding_dimensions=3, state_embedding_hidden_nodes=HIDDEN,
        state_action_embedding_hidden_nodes=HIDDEN, embedding_learning_rate=cfg["lr"],
        policy_sa_encoding_nodes=3, policy_hidden_nodes=HIDDEN, policy_learning_rate=cfg["lr"],
        q_sa_encoding_nodes=3, q_hidden_nodes=HIDDEN, q_learning_rate=cfg["lr"], seed=cfg["net_seed"])


def _run_td7(cfg, rec, logger, supply):
    from rl_blox.algorithm.td7 import train_td7
    from rl_blox.blox.replay_buffer import LAP

    env = _env(cfg, rec, discrete=False)
    st = td7_states(cfg, env)
    env.action_space.seed(cfg["seed"])
    at = _supplied(st.actor, cfg, 0) if supply and cfg.get("supply_only") != "second" else None
    ct = _supplied(st.critic, cfg, 1) if supply and cfg.get("supply_only") != "first" else None
    # names follow the logger's documented epoch names
    rec.watch("embedding", st.embedding)
    rec.watch("policy", st.actor)
    rec.watch("q", st.critic)
    if at is not None:
        rec.watch("policy_target", at)
    if ct is not None:
        rec.watch("q_target", ct)
    from .instruments import state_arrays

    initial = {"embedding": state_arrays(st.embedding), "policy": state_arrays(st.actor)}
    rec.snap("init")
    res = train_td7(env, st.embedding, st.embedding_optimizer, st.actor, st.actor_optimizer, st.critic,
                    st.critic_optimizer, seed=cfg["seed"], total_timesteps=cfg["total_timesteps"],
                    gamma=GAMMA, target_delay=cfg["target_delay"], policy_delay=cfg["policy_delay"],
                    use_checkpoints=cfg["use_checkpoints"],
                    max_episodes_when_checkpointing=cfg.get("max_episodes_when_checkpointing", 20),
                    steps_before_checkpointing=cfg.get("steps_before_checkpointing", 750_000),
                    batch_size=cfg["batch_size"], learning_starts=cfg["learning_starts"],
                    replay_buffer=LAP(cfg["buffer_size"]), actor_target=at, critic_target=ct, logger=logger,
                    global_step=cfg.get("global_step", 0), progress_bar=False)
    fw = {"policy_target": res.actor_target, "q_target": res.critic_target,
          "fixed_embedding_target": res.fixed_embedding_target}
    if cfg["use_checkpoints"]:
        fw["fixed_embedding_checkpoint"] = res.fixed_embedding
        fw["actor_checkpoint"] = res.actor
    else:
        fw["fixed_embedding"] = res.fixed_embedding
    return {"pairs_final": {"policy_target": (res.actor_target, st.actor),
                            "q_target": (res.critic_target, res.critic),
                            "fixed_embedding_target": (res.fixed_embedding_target, res.embedding),
                            "fixed_embedding(returned)": (res.fixed_embedding, res.embedding),
                            "actor(returned)": (res.actor, st.actor) if cfg["use_checkpoints"] else None,
                            "fixed_embedding_target~fixed_embedding": (res.fixed_embedding_target, res.fixed_embedding)},
            "supplied": {"policy_target": at, "q_target": ct}, "result": res, "env": env, "initial": initial,
            "given_online": {"embedding": st.embedding, "policy": st.actor, "q": st.critic},
            "final_watch": fw}


# ------------------------------------------------------------------------ MR.Q

MRQ_ENC_H = 2
MRQ_Q_H = 1


def _run_mrq(cfg, rec, logger, supply):
    from rl_blox.algorithm.mrq import create_mrq_state, train_mrq
    from rl_blox.blox.replay_buffer import SubtrajectoryReplayBufferPER

    env = _env(cfg, rec, discrete=False)
    st = create_mrq_state(env, policy_hidden_nodes=HIDDEN, policy_learning_rate=cfg["lr"],
                          q_hidden_nodes=HIDDEN, q_learning_rate=cfg["lr"], encoder_n_bins=5,
                          encoder_zs_dim=3, encoder_za_dim=2, encoder_zsa_dim=3, encoder_hidden_nodes=HIDDEN,
                          encoder_learning_rate=cfg["lr"], seed=cfg["net_seed"])
    env.action_space.seed(cfg["seed"])
    pt = _supplied(st.policy_with_encoder, cfg, 0) if supply and cfg.get("supply_only") != "second" else None
    qt = _supplied(st.q, cfg, 1) if supply and cfg.get("supply_only") != "first" else None
    rec.watch("policy_with_encoder", st.policy_with_encoder)
    rec.watch("q", st.q)
    if pt is not None:
        rec.watch("policy_with_encoder_target", pt)
    if qt is not None:
        rec.watch("q_target", qt)
    rb = SubtrajectoryReplayBufferPER(cfg["buffer_size"], horizon=max(MRQ_ENC_H, MRQ_Q_H))
    pt0, qt0 = pt, qt
    g0 = cfg.get("global_step", 0)
    split = cfg.get("split")
    # one call, or a first call up to ``split`` and a continuation call that is given what the first returned
    segments = [(g0, cfg["total_timesteps"])] if not split else [(g0, split), (split, cfg["total_timesteps"])]
    pwe, eopt, popt, q, qopt = st.policy_with_encoder, st.encoder_optimizer, st.policy_optimizer, st.q, st.q_optimizer
    for a, b in segments:
        rec.snap("init")
        res = train_mrq(env, pwe, eopt, popt, q, qopt, st.the_bins, seed=cfg["seed"], total_timesteps=b,
                        gamma=GAMMA, target_delay=cfg["target_delay"], batch_size=cfg["batch_size"],
                        learning_starts=cfg["learning_starts"], encoder_horizon=MRQ_ENC_H, q_horizon=MRQ_Q_H,
                        replay_buffer=rb, policy_with_encoder_target=pt, q_target=qt, logger=logger,
                        global_step=a, progress_bar=False)
        if split:
            assert res.global_step == b, ("harness: call ended early, timeline would be discontinuous", res.global_step, b)
        pwe, eopt, popt, q, qopt = (res.policy_with_encoder, res.encoder_optimizer, res.policy_optimizer, res.q,
                                    res.q_optimizer)
        rb = res.replay_buffer
        # the continuation is given the targets the first call returned (also in the target=None twin)
        pt, qt = res.policy_with_encoder_target, res.q_target
    return {"pairs_final": {"policy_with_encoder_target": (res.policy_with_encoder_target, res.policy_with_encoder),
                            "q_target": (res.q_target, res.q)},
            "supplied": {"policy_with_encoder_target": pt0, "q_target": qt0}, "result": res, "env": env,
            "given_online": {"policy_with_encoder": st.policy_with_encoder, "q": st.q},
            "final_watch": {"policy_with_encoder_target": res.policy_with_encoder_target,
                            "q_target": res.q_target}}
