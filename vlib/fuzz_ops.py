#!/venv/bin/python
"""Optional coverage-guided tier for the operation-sequence properties (C02, C04).

atheris (libFuzzer) mutates a byte string; `decode_<prop>` turns it into the SAME
JSON case format that the Hypothesis strategies of props/c02_replay_fifo.py and
props/c04_subtrajectories.py produce, and the case is executed by the SAME
interpreter (`SubCheck.run`) through `runner.execute`.  Coverage feedback comes
from `rl_blox.blox.replay_buffer` only (instrumented at import).  A violation is
written as an ordinary replay file under replays/found/ and is reproduced with

    /venv/bin/python check.py C04 --replay replays/found/<file>.json

usage:  /venv/bin/python vlib/fuzz_ops.py C04 [--runs 20000] [--max-len 256]
exit 0  no violation in N runs        (evidence/<Cxx>.atheris.json written)
exit 1  VIOLATION property=<id> replay=<path>
exit 2  harness error / atheris unavailable (never a violation)

This tier is not part of check.py (the runner has no hook for it); see the
builder's report.  Deterministic for a given VERIF_SEED, -runs and tree.
"""
import json
import os
import re
import subprocess
import sys
import time

HERE = os.path.dirname(os.path.dirname(os.path.abspath(__file__)))
sys.path.insert(0, HERE)

SUBCHECK = {"C02": None, "C04": "windows"}  # C02: chosen by the first input byte


# ------------------------------------------------------------------ decoders

def decode_c02(fdp):
    from props import c02_replay_fifo as m

    multi = fdp.ConsumeBool()
    cap = fdp.ConsumeIntInRange(1, 6 if multi else 12)
    n_tasks = fdp.ConsumeIntInRange(1, 4) if multi else 0
    case = {
        "kind": m.KINDS[fdp.ConsumeIntInRange(0, 2)], "n_tasks": n_tasks, "capacity": cap,
        "schema": m.SCHEMA_NAMES[fdp.ConsumeIntInRange(0, len(m.SCHEMA_NAMES) - 1)],
        "d": fdp.ConsumeIntInRange(1, 3), "a": fdp.ConsumeIntInRange(1, 2), "ops": [],
    }
    ops = case["ops"]
    while fdp.remaining_bytes() > 0 and len(ops) < 300:
        c = fdp.ConsumeIntInRange(0, 9)
        if c <= 3:
            ops.append(["add", fdp.ConsumeIntInRange(1, cap + 2)])
        elif c <= 5:
            ops.append(["sample", fdp.ConsumeIntInRange(1, 2 * cap + 2), fdp.ConsumeIntInRange(0, 255)])
        elif c == 6:
            ops.append(["sweep"])
        elif c == 7:
            ops.append(["len"])
        else:
            ops.append(["select", fdp.ConsumeIntInRange(-1, 5)])
    return ("multitask" if multi else "single"), case


def decode_c04(fdp):
    H = fdp.ConsumeIntInRange(1, 5)
    case = {
        "variant": "per" if fdp.ConsumeBool() else "uniform", "H": H,
        "capacity": H + fdp.ConsumeIntInRange(1, 10), "act_dim": fdp.ConsumeIntInRange(1, 2),
        "dense": 1 if fdp.ConsumeIntInRange(0, 3) == 0 else 0, "ops": [],
    }
    ops, steps = case["ops"], 0
    ends = ("none", "term", "trunc", "both")
    while fdp.remaining_bytes() > 0 and len(ops) < 300:
        c = fdp.ConsumeIntInRange(0, 11)
        if c <= 6:
            k = fdp.ConsumeIntInRange(0, H + 3)
            end = ends[min(3, fdp.ConsumeIntInRange(0, 6) // 2)]
            n = k + (end != "none")
            if n == 0:
                k, n = 1, 1
            if steps + n > 400:
                break
            steps += n
            ops.append(["run", k, end])
        elif c <= 8:
            ops.append(["check", fdp.ConsumeIntInRange(1, 5), fdp.ConsumeIntInRange(0, 1)])
        elif c == 9:
            ops.append(["sample", fdp.ConsumeIntInRange(1, 5), fdp.ConsumeIntInRange(0, 1),
                        fdp.ConsumeIntInRange(1, 8), fdp.ConsumeIntInRange(0, 255), fdp.ConsumeIntInRange(0, 1)])
        elif c == 10:
            ops.append(["prio", fdp.ConsumeIntInRange(0, 255)])
        else:
            ops.append(["reset_max"])
    return "windows", case


DECODERS = {"C02": decode_c02, "C04": decode_c04}

# three short valid traces per property seed the corpus (DESIGN §4); an empty input is always tried too
SEED_INPUTS = {
    "C02": [bytes([0, 3, 0, 0, 1, 1, 0, 4, 4, 5, 1, 6, 0, 2, 7]),
            bytes([1, 2, 3, 1, 2, 2, 1, 8, 2, 0, 3, 8, 1, 0, 3, 4, 3, 9, 6]),
            bytes([0, 1, 2, 5, 1, 1, 0, 1, 0, 1, 6, 4, 1, 3])],
    "C04": [bytes([2, 0, 3, 1, 0, 0, 3, 2, 7, 2, 0, 0, 4, 0, 7, 2, 1]),
            bytes([1, 1, 1, 1, 0, 0, 0, 4, 0, 1, 4, 0, 0, 2, 10, 9, 7, 1, 0]),
            bytes([3, 0, 2, 2, 1, 0, 2, 2, 0, 6, 1, 6, 9, 3, 0, 2, 5, 0])],
}


# --------------------------------------------------------------------- child

def child(prop, runs, max_len, seed, corpus):
    sys.path.insert(0, os.path.join(HERE, ".deps"))
    try:
        import atheris
    except ImportError as e:
        print("HARNESS-ERROR atheris unavailable:", e)
        os._exit(2)
    from vlib import core, runner

    runner.prepare_env()
    with atheris.instrument_imports(include=["rl_blox.blox.replay_buffer"]):
        import rl_blox.blox.replay_buffer  # noqa: F401
    runner.assert_tree()
    mod = runner.load_module(prop)
    core.configure(prop, core.KnownFindings(os.path.join(HERE, "KNOWN_FINDINGS.txt")))
    decode = DECODERS[prop]
    stats = {"evals": 0, "nontrivial": 0, "known": 0}

    def one_input(data):
        fdp = atheris.FuzzedDataProvider(data)
        sub_name, case = decode(fdp)
        if not case["ops"]:
            return
        sub = runner.find_sub(mod, sub_name)
        stats["evals"] += 1
        try:
            out, known = runner.execute(sub, case)
        except core.Violation as v:
            path = runner.write_replay(prop, sub_name, {"key": v.key, "detail": v.detail, "case": case})
            print(f"violation in {sub_name}: {v.key}: {v.detail[:500]}")
            print(f"VIOLATION property={prop} replay={path}")
            sys.stdout.flush()
            os._exit(1)
        except BaseException as e:  # noqa: BLE001
            import traceback

            traceback.print_exc()
            print("HARNESS-ERROR", type(e).__name__, e, json.dumps(case))
            sys.stdout.flush()
            os._exit(2)
        stats["nontrivial"] += bool(out.nontrivial)
        stats["known"] += len(known)
        if stats["evals"] % 250 == 0:
            print("FUZZ-STATS", json.dumps(stats))
            sys.stdout.flush()

    import atexit

    atexit.register(lambda: print("FUZZ-STATS", json.dumps(stats), flush=True))
    args = [sys.argv[0], corpus, f"-runs={runs}", f"-max_len={max_len}", f"-seed={seed}", "-print_final_stats=1",
            "-timeout=120", "-rss_limit_mb=4096"]
    atheris.Setup(args, one_input)
    atheris.Fuzz()


# -------------------------------------------------------------------- parent

def main():
    import argparse
    import shutil
    import tempfile

    ap = argparse.ArgumentParser()
    ap.add_argument("prop")
    ap.add_argument("--runs", type=int, default=20000)
    ap.add_argument("--max-len", type=int, default=256)
    ap.add_argument("--child", default=None)
    a = ap.parse_args()
    prop = a.prop.upper()
    if prop not in DECODERS:
        print("HARNESS-ERROR no decoder for", prop)
        return 2
    from vlib import core

    seed = core.derive_seed(int(os.environ.get("VERIF_SEED", "1")), prop, "atheris") % (2**31 - 1) + 1
    if a.child:
        child(prop, a.runs, a.max_len, seed, a.child)
        return 0
    corpus = tempfile.mkdtemp(prefix="verif_fuzz_", dir=os.environ.get("VERIF_SCRATCH", "/tmp"))  # fresh corpus
    try:
        for i, b in enumerate(SEED_INPUTS[prop]):
            with open(os.path.join(corpus, f"seed{i}"), "wb") as f:
                f.write(b)
        t0 = time.time()
        env = dict(os.environ, PYTHONHASHSEED="0", JAX_PLATFORMS="cpu")
        r = subprocess.run([sys.executable, os.path.abspath(__file__), prop, "--runs", str(a.runs),
                            "--max-len", str(a.max_len), "--child", corpus],
                           cwd=HERE, env=env, capture_output=True, text=True)
        wall = time.time() - t0
        out = r.stdout + r.stderr
        stats = [json.loads(l[len("FUZZ-STATS "):]) for l in out.splitlines() if l.startswith("FUZZ-STATS ")]
        for line in out.splitlines():
            if line.startswith(("violation", "VIOLATION", "HARNESS-ERROR")):
                print(line)
        if r.returncode == 1 and "VIOLATION" in out:
            return 1
        done = re.search(r"Done (\d+) runs", out)
        cov = re.findall(r"cov: (\d+) ft: (\d+)", out)
        if r.returncode != 0 or not done:
            print(out[-3000:])
            print("HARNESS-ERROR atheris child exited with", r.returncode)
            return 2
        st = stats[-1] if stats else {}
        ev = {"property_id": prop, "engine": "atheris", "level": "exploration", "seed": seed, "runs": int(done.group(1)),
              "cases_executed_at_least": st.get("evals"), "nontrivial": st.get("nontrivial"),
              "known_finding_hits": st.get("known"), "coverage_edges": int(cov[-1][0]) if cov else None,
              "features": int(cov[-1][1]) if cov else None, "violations": 0, "wall_s": round(wall, 1),
              "note": "byte strings decoded to the JSON case format of props/%s*.py and executed by the same run(case)" % prop.lower()}
        with open(os.path.join(HERE, "evidence", prop + ".atheris.json"), "w") as f:
            json.dump(ev, f, indent=1)
        print(f"{prop} atheris seed={seed}: {ev['runs']} runs, >= {ev["cases_executed_at_least"]} cases executed, "
              f"{ev['nontrivial']} non-trivial, cov={ev['coverage_edges']}, 0 violations, {wall:.1f}s")
        return 0
    finally:
        shutil.rmtree(corpus, ignore_errors=True)


if __name__ == "__main__":
    sys.exit(main())
