"""Exact tail intervals for counts of independent Bernoulli events.

Used by statistical oracle clauses (DESIGN §7.4: false-alarm probability
<= 1e-9 per comparison, deterministic for a given case).
"""
from __future__ import annotations

import numpy as np


def poisson_binomial_pmf(ps):
    """pmf of the number of successes of independent Bernoulli(p_t) trials
    (dynamic programme in float64; len(ps) up to a few thousand is fine)."""
    pmf = np.zeros(len(ps) + 1, dtype=np.float64)
    pmf[0] = 1.0
    n = 0
    for p in ps:
        p = float(p)
        n += 1
        pmf[1:n + 1] = pmf[1:n + 1] * (1.0 - p) + pmf[0:n] * p
        pmf[0] *= (1.0 - p)
    return pmf


def interval(ps, alpha=1e-9):
    """[lo, hi] such that P(K < lo) <= alpha and P(K > hi) <= alpha for
    K ~ PoissonBinomial(ps).  Conservative: float64 summation error of the
    pmf (~1e-15) is far below alpha."""
    ps = np.clip(np.asarray(ps, dtype=np.float64), 0.0, 1.0)
    n = len(ps)
    if n == 0:
        return 0, 0
    if np.all(ps == ps[0]):
        from scipy import stats

        p = float(ps[0])
        # largest lo with cdf(lo-1) <= alpha ; smallest hi with sf(hi) <= alpha
        lo = int(stats.binom.ppf(alpha, n, p))
        while lo > 0 and stats.binom.cdf(lo - 1, n, p) > alpha:
            lo -= 1
        hi = int(stats.binom.isf(alpha, n, p))
        while hi < n and stats.binom.sf(hi, n, p) > alpha:
            hi += 1
        return max(lo, 0), min(hi, n)
    pmf = poisson_binomial_pmf(ps)
    cdf = np.cumsum(pmf)
    sf = np.cumsum(pmf[::-1])[::-1]  # sf[k] = P(K >= k)
    lo = 0
    while lo < n and cdf[lo] <= alpha:  # P(K <= lo) <= alpha -> K < lo+1 impossible
        lo += 1
    hi = n
    while hi > 0 and sf[hi] <= alpha:  # P(K >= hi) <= alpha
        hi -= 1
    return lo, hi


def upper_bound(ps_upper, alpha=1e-9):
    """Smallest hi with P(K > hi) <= alpha when every success probability is
    at most ps_upper[t] (stochastic dominance)."""
    return interval(ps_upper, alpha)[1]
