"""Test-side instruments: buffer proxy, snapshot logger, state comparison,
stub generators, probe networks (DESIGN §3)."""
from __future__ import annotations

import copy

import numpy as np


# --------------------------------------------------------------------- state

def state_bytes(module) -> dict:
    """Flatten nnx.state(module) (all variable kinds) to {path: (dtype, shape, bytes)}."""
    import jax
    from flax import nnx

    st = nnx.state(module)
    flat = {}
    leaves = jax.tree_util.tree_leaves_with_path(st)
    for path, leaf in leaves:
        key = jax.tree_util.keystr(path)
        try:
            if hasattr(leaf, "dtype") and jax.dtypes.issubdtype(leaf.dtype, jax.dtypes.prng_key):
                leaf = jax.random.key_data(leaf)
        except Exception:  # noqa: BLE001
            pass
        a = np.asarray(leaf)
        flat[key] = (str(a.dtype), a.shape, a.tobytes())
    return flat


def state_arrays(module) -> dict:
    import jax
    from flax import nnx

    st = nnx.state(module)
    out = {}
    for path, leaf in jax.tree_util.tree_leaves_with_path(st):
        try:
            if hasattr(leaf, "dtype") and jax.dtypes.issubdtype(leaf.dtype, jax.dtypes.prng_key):
                leaf = jax.random.key_data(leaf)
        except Exception:  # noqa: BLE001
            pass
        out[jax.tree_util.keystr(path)] = np.array(leaf)
    return out


def param_arrays(module) -> dict:
    """Only nnx.Param leaves as numpy arrays."""
    import jax
    from flax import nnx

    st = nnx.state(module, nnx.Param)
    return {jax.tree_util.keystr(p): np.array(l) for p, l in jax.tree_util.tree_leaves_with_path(st)}


def diff_states(a: dict, b: dict) -> list:
    """Paths whose bytes differ (or exist on one side only)."""
    out = []
    for k in sorted(set(a) | set(b)):
        if k not in a or k not in b or a[k] != b[k]:
            out.append(k)
    return out


def variable_ids(module) -> set:
    """ids of every nnx.Variable reachable from the module (storage sharing)."""
    from flax import nnx

    ids = set()
    for _, v in nnx.iter_graph(module):
        if isinstance(v, nnx.Variable):
            ids.add(id(v))
    return ids


def shares_storage(m1, m2) -> bool:
    return bool(variable_ids(m1) & variable_ids(m2))


# -------------------------------------------------------------------- buffers

class BufferProxy:
    """Wraps a real replay buffer; records adds, sampled batches and priority
    updates, then delegates.  Attribute access falls through to the real
    buffer so routines that read ``len()``, ``environment_terminates`` etc.
    keep working."""

    def __init__(self, real, record_batches=False):
        object.__setattr__(self, "real", real)
        object.__setattr__(self, "adds", [])
        object.__setattr__(self, "samples", [])
        object.__setattr__(self, "priority_updates", [])
        object.__setattr__(self, "events", [])
        object.__setattr__(self, "record_batches", record_batches)

    def add_sample(self, *args, **kwargs):
        assert not args, "add_sample is documented keyword-only"
        self.adds.append({k: copy.deepcopy(np.asarray(v)) for k, v in kwargs.items()})
        self.events.append(("add", len(self.adds) - 1))
        return self.real.add_sample(**kwargs)

    def sample_batch(self, *args, **kwargs):
        out = self.real.sample_batch(*args, **kwargs)
        self.samples.append(out if self.record_batches else None)
        self.events.append(("sample", len(self.samples) - 1))
        return out

    def update_priority(self, priority):
        self.priority_updates.append(np.array(priority))
        self.events.append(("update_priority", len(self.priority_updates) - 1))
        return self.real.update_priority(priority)

    def __len__(self):
        return len(self.real)

    def __getattr__(self, name):
        return getattr(object.__getattribute__(self, "real"), name)

    def __setattr__(self, name, value):
        setattr(self.real, name, value)


# -------------------------------------------------------------------- loggers

def make_snapshot_logger(snapshot=True, extra_modules=None):
    """A LoggerBase that records every call and (optionally) byte snapshots of
    every module it has ever been shown, at every record_stat/record_epoch."""
    from rl_blox.logging.logger import LoggerBase

    class SnapshotLogger(LoggerBase):
        def __init__(self):
            self.calls = []  # (kind, key, value/None, episode, step)
            self.modules = dict(extra_modules or {})
            self.snaps = []  # (call index, {name: state_bytes})
            self._n_episodes = 0
            self.n_steps = 0
            self.snapshot = snapshot
            self.stats = {}

        @property
        def n_episodes(self):
            return self._n_episodes

        def start_new_episode(self):
            self._n_episodes += 1
            self.calls.append(("start_new_episode", None, None, None, None))

        def stop_episode(self, total_steps):
            self.n_steps += total_steps
            self.calls.append(("stop_episode", None, int(total_steps), None, None))

        def define_experiment(self, env_name=None, algorithm_name=None, hparams=None):
            self.calls.append(("define_experiment", None, None, None, None))

        def record_stat(self, key, value, episode=None, step=None, t=None, verbose=None,
                        format_str="{0:.3f}"):
            v = np.array(value)
            self.stats.setdefault(key, []).append((v, episode, step))
            self.calls.append(("stat", key, v, episode, step))
            self._snap()

        def record_epoch(self, key, value, episode=None, step=None, t=None):
            self.modules[key] = value
            self.calls.append(("epoch", key, None, episode, step))
            self._snap()

        def _snap(self):
            if self.snapshot:
                self.snaps.append((len(self.calls) - 1,
                                   {k: state_bytes(m) for k, m in self.modules.items()}))

    return SnapshotLogger()


# --------------------------------------------------------------- stub generators

class StubGenerator:
    """Duck-typed np.random.Generator whose integers/uniform/choice return
    chosen values (queues).  Unqueued calls fall back to a real generator."""

    def __init__(self, integers=None, uniforms=None, choices=None, seed=0):
        self.q_int = list(integers or [])
        self.q_uni = list(uniforms or [])
        self.q_choice = list(choices or [])
        self.real = np.random.default_rng(seed)
        self.calls = []

    def integers(self, low, high=None, size=None, **kw):
        self.calls.append(("integers", low, high, size))
        if self.q_int:
            v = self.q_int.pop(0)
            if callable(v):
                v = v(low, high, size)
            return np.asarray(v)
        return self.real.integers(low, high, size=size, **kw)

    def uniform(self, low=0.0, high=1.0, size=None):
        self.calls.append(("uniform", low, high, size))
        if self.q_uni:
            u = np.asarray(self.q_uni.pop(0), dtype=float)  # unit uniforms
            return np.asarray(low) + u * (np.asarray(high) - np.asarray(low))
        return self.real.uniform(low, high, size=size)

    def choice(self, a, size=None, **kw):
        self.calls.append(("choice", a, size))
        if self.q_choice:
            v = self.q_choice.pop(0)
            if callable(v):
                v = v(a, size)
            return np.asarray(v)
        return self.real.choice(a, size=size, **kw)

    def __getattr__(self, name):
        return getattr(self.real, name)
