"""Helpers for property C11 (step budget, episode discipline, accounting).

* step-capped scripted environments (a runaway loop raises ``StepCapExceeded``
  from the test side instead of hanging the check),
* a snapshot tracker (digest of live modules / optimizers at every env step),
* adapters that construct tiny instances of every ``train_*`` routine and call
  them with (start ``global_step``, ``total_timesteps``, ``total_episodes``),
* a spec-conforming stub backbone for the multi-task schedulers,
* a float64 reference of the discounted-UCB index.

Everything here is test-side code; nothing is copied from rl_blox.
"""
from __future__ import annotations

import hashlib
import math
from collections import namedtuple

import gymnasium as gym
import numpy as np

from .envs import EnvLog, ScriptedEnv, ScriptedTabularEnv
from .instruments import state_bytes


class StepCapExceeded(Exception):
    """Raised by a capped scripted env: the code under test did not stop."""


class CappedEnv(ScriptedEnv):
    """ScriptedEnv with a hard step cap and a task annotation on every step."""

    def __init__(self, *a, step_cap=10_000, **kw):
        super().__init__(*a, **kw)
        self.step_cap = int(step_cap)
        self.current_task = None

    def step(self, action):
        if self.n_steps >= self.step_cap:
            raise StepCapExceeded(f"more than {self.step_cap} steps")
        out = super().step(action)
        self.log.events[-1]["task"] = self.current_task
        return out

    def reset(self, *, seed=None, options=None):
        out = super().reset(seed=seed, options=options)
        self.log.events[-1]["task"] = self.current_task
        return out


class CappedTabularEnv(ScriptedTabularEnv):
    def __init__(self, *a, step_cap=10_000, **kw):
        super().__init__(*a, **kw)
        self.step_cap = int(step_cap)

    def step(self, action):
        if self.n_steps >= self.step_cap:
            raise StepCapExceeded(f"more than {self.step_cap} steps")
        return super().step(action)


def box_space():
    return gym.spaces.Box(np.float32([-1.0]), np.float32([1.0]), (1,), dtype=np.float32)


def episode_length(script, episode):
    return int(script[episode % len(script)][0])


# ------------------------------------------------------------------ log views

def call_view(log, lo, hi=None):
    """Summary of the events log.events[lo:hi] (one call of a routine)."""
    ev = log.events[lo:hi]
    steps = [e for e in ev if e["kind"] == "step"]
    ends = [i for i, e in enumerate(steps) if e["terminated"] or e["truncated"]]
    return {"events": ev, "steps": steps, "executed": len(steps), "ends": ends,
            "resets": [e for e in ev if e["kind"] == "reset"]}


def expected_steps(script, first_episode, remaining, total_episodes):
    """Steps a conforming routine executes: until the budget is used up or the
    requested number of episodes has finished, whichever comes first.  Returns
    (steps, stopped_by) with stopped_by in {zero, episodes, budget}."""
    if remaining <= 0:
        return 0, "zero"
    n = 0
    k = 0
    ep = first_episode
    while True:
        L = episode_length(script, ep)
        if n + L > remaining:
            return remaining, "budget"
        n += L
        k += 1
        ep += 1
        if total_episodes is not None and k >= total_episodes:
            return n, "episodes"
        if n == remaining:
            return n, "budget"


# ------------------------------------------------------------------ snapshots

def digest(objs):
    h = hashlib.sha1()
    for o in objs:
        sb = state_bytes(o)
        for k in sorted(sb):
            h.update(k.encode())
            h.update(sb[k][2])
    return h.hexdigest()


class Tracker:
    """Digest of the tracked objects at every env step (taken inside
    ``env.step`` before the routine sees the result) and on demand."""

    def __init__(self):
        self.objs = []
        self.at_step = []  # digest seen during step i (global index over the env's life)

    def track(self, *objs):
        self.objs = [o for o in objs if o is not None]

    def on_step(self, env, ev):
        self.at_step.append(digest(self.objs) if self.objs else "")

    def now(self):
        return digest(self.objs) if self.objs else ""


def first_update_iteration(digests, final):
    """digests[i] = state seen during step i of a call, final = state after
    the call returned.  An update performed in loop iteration j (after the
    env step j) shows as digests[j] != digests[j+1] (or != final for the last
    step).  Returns the smallest such j or None."""
    seq = list(digests) + [final]
    for j in range(len(seq) - 1):
        if seq[j] != seq[j + 1]:
            return j
    return None


# ------------------------------------------------------------------ adapters

TINY = [4]


def _mlp(n_in, n_out, seed):
    from flax import nnx
    from rl_blox.blox.function_approximator.mlp import MLP

    return MLP(n_in, n_out, list(TINY), "relu", nnx.Rngs(seed))


def _opt(module, lr=1e-2):
    import optax
    from flax import nnx

    return nnx.Optimizer(module, optax.adam(lr), wrt=nnx.Param)


class Adapter:
    """One routine.  ``setup`` builds networks/buffers once (so that a second
    call continues with the same objects); ``call`` runs the routine and
    returns the step counter it reports (None if it reports none)."""

    name = ""
    action = "box"  # box | discrete
    has_start = True  # accepts global_step
    has_eps = True  # accepts total_episodes
    has_counter = True
    warmup = "learning_starts"  # documented warm-up parameter or None

    def __init__(self, cfg):
        self.cfg = cfg
        self.tracked = []
        self.logger = None  # passed as ``logger=`` to every call when set (reused across continuation calls)

    def space(self):
        return gym.spaces.Discrete(3) if self.action == "discrete" else box_space()

    def setup(self, env):
        raise NotImplementedError

    def call(self, env, start, total, eps, seed):
        raise NotImplementedError

    def common(self, start, total, eps, seed):
        kw = {"total_timesteps": total, "seed": seed, "progress_bar": False}
        if self.has_start:
            kw["global_step"] = start
        if self.has_eps:
            kw["total_episodes"] = eps
        if self.warmup == "learning_starts":
            kw["learning_starts"] = self.cfg["learning_starts"]
        if self.logger is not None:
            kw["logger"] = self.logger
        return kw


class _DQNBase(Adapter):
    action = "discrete"
    buffer_cls = "plain"

    def setup(self, env):
        from rl_blox.blox.replay_buffer import PrioritizedReplayBuffer, ReplayBuffer

        c = self.cfg
        self.q = _mlp(env.observation_space.shape[0], int(env.action_space.n), c["net_seed"])
        self.opt = _opt(self.q)
        if self.buffer_cls == "per":
            self.rb = PrioritizedReplayBuffer(c["buffer_size"], discrete_actions=True)
        else:
            self.rb = ReplayBuffer(c["buffer_size"], discrete_actions=True)
        self.tracked = [self.q, self.opt]
        self.q_target = None


class DQN(_DQNBase):
    name = "train_dqn"
    has_eps = False
    warmup = None

    def call(self, env, start, total, eps, seed):
        from rl_blox.algorithm.dqn import train_dqn

        r = train_dqn(self.q, env, self.rb, self.opt, batch_size=self.cfg["batch_size"],
                      **self.common(start, total, eps, seed))
        return r.global_step


class NatureDQN(_DQNBase):
    name = "train_nature_dqn"

    def fn(self):
        from rl_blox.algorithm.nature_dqn import train_nature_dqn

        return train_nature_dqn

    def call(self, env, start, total, eps, seed):
        c = self.cfg
        r = self.fn()(self.q, env, self.rb, self.opt, batch_size=c["batch_size"],
                      update_frequency=c["update_frequency"],
                      target_update_frequency=c["target_update_frequency"],
                      q_target_net=self.q_target, **self.common(start, total, eps, seed))
        self.q_target = r.q_target_net
        return getattr(r, "global_step", None)


class DDQN(NatureDQN):
    name = "train_ddqn"

    def fn(self):
        from rl_blox.algorithm.ddqn import train_ddqn

        return train_ddqn


class DDQNPER(NatureDQN):
    name = "train_ddqn_per"
    buffer_cls = "per"
    has_counter = False

    def fn(self):
        from rl_blox.algorithm.per import train_ddqn_per

        return train_ddqn_per


class DDPG(Adapter):
    name = "train_ddpg"

    def setup(self, env):
        from flax import nnx
        from rl_blox.algorithm.ddpg import create_ddpg_state
        from rl_blox.blox.replay_buffer import ReplayBuffer

        c = self.cfg
        s = create_ddpg_state(env, policy_hidden_nodes=TINY, q_hidden_nodes=TINY, seed=c["net_seed"])
        self.s = s
        self.rb = ReplayBuffer(c["buffer_size"])
        self.policy_target = nnx.clone(s.policy)
        self.q_target = nnx.clone(s.q)
        self.tracked = [s.policy, s.q, s.policy_optimizer, s.q_optimizer]

    def call(self, env, start, total, eps, seed):
        from rl_blox.algorithm.ddpg import train_ddpg

        c, s = self.cfg, self.s
        r = train_ddpg(env, s.policy, s.policy_optimizer, s.q, s.q_optimizer,
                       batch_size=c["batch_size"], gradient_steps=c["gradient_steps"],
                       replay_buffer=self.rb, policy_target=self.policy_target,
                       q_target=self.q_target, **self.common(start, total, eps, seed))
        return r.steps_trained

    def partial(self):
        """train_st for the multi-task schedulers."""
        from functools import partial

        from rl_blox.algorithm.ddpg import train_ddpg

        c, s = self.cfg, self.s
        return partial(train_ddpg, policy=s.policy, policy_optimizer=s.policy_optimizer, q=s.q,
                       q_optimizer=s.q_optimizer, batch_size=c["batch_size"],
                       policy_target=self.policy_target, q_target=self.q_target)


class TD3(Adapter):
    name = "train_td3"

    def setup(self, env):
        from flax import nnx
        from rl_blox.algorithm.td3 import create_td3_state
        from rl_blox.blox.replay_buffer import LAP, ReplayBuffer

        c = self.cfg
        s = create_td3_state(env, policy_hidden_nodes=TINY, q_hidden_nodes=TINY, seed=c["net_seed"])
        self.s = s
        self.rb = LAP(c["buffer_size"]) if self.name == "train_td3_lap" else ReplayBuffer(c["buffer_size"])
        self.policy_target = nnx.clone(s.policy)
        self.q_target = nnx.clone(s.q)
        self.tracked = [s.policy, s.q, s.policy_optimizer, s.q_optimizer]

    def call(self, env, start, total, eps, seed):
        from rl_blox.algorithm.td3 import train_td3

        c, s = self.cfg, self.s
        r = train_td3(env, s.policy, s.policy_optimizer, s.q, s.q_optimizer,
                      batch_size=c["batch_size"], gradient_steps=c["gradient_steps"],
                      policy_delay=c["policy_delay"], replay_buffer=self.rb,
                      policy_target=self.policy_target, q_target=self.q_target,
                      **self.common(start, total, eps, seed))
        return r.global_step

    def partial(self):
        from functools import partial

        from rl_blox.algorithm.td3 import train_td3

        c, s = self.cfg, self.s
        return partial(train_td3, policy=s.policy, policy_optimizer=s.policy_optimizer, q=s.q,
                       q_optimizer=s.q_optimizer, batch_size=c["batch_size"],
                       policy_delay=c["policy_delay"],
                       policy_target=self.policy_target, q_target=self.q_target)


class TD3LAP(TD3):
    name = "train_td3_lap"
    has_eps = False

    def call(self, env, start, total, eps, seed):
        from rl_blox.algorithm.td3_lap import train_td3_lap

        c, s = self.cfg, self.s
        r = train_td3_lap(env, s.policy, s.policy_optimizer, s.q, s.q_optimizer,
                          batch_size=c["batch_size"], gradient_steps=c["gradient_steps"],
                          policy_delay=c["policy_delay"], replay_buffer=self.rb,
                          policy_target=self.policy_target, q_target=self.q_target,
                          **self.common(start, total, eps, seed))
        return r.global_step


class SAC(Adapter):
    name = "train_sac"

    def setup(self, env):
        from flax import nnx
        from rl_blox.algorithm.sac import EntropyControl, create_sac_state
        from rl_blox.blox.replay_buffer import ReplayBuffer

        c = self.cfg
        s = create_sac_state(env, policy_hidden_nodes=TINY, q_hidden_nodes=TINY, seed=c["net_seed"])
        self.s = s
        self.rb = ReplayBuffer(c["buffer_size"])
        self.q_target = nnx.clone(s.q)
        self.ec = EntropyControl(env, 0.2, True, 1e-3)
        self.tracked = [s.policy, s.q, s.policy_optimizer, s.q_optimizer, self.ec.optimizer]

    def call(self, env, start, total, eps, seed):
        from rl_blox.algorithm.sac import train_sac

        c, s = self.cfg, self.s
        r = train_sac(env, s.policy, s.policy_optimizer, s.q, s.q_optimizer,
                      batch_size=c["batch_size"], policy_delay=c["policy_delay"],
                      target_network_delay=c.get("target_network_delay", 1),
                      replay_buffer=self.rb, q_target=self.q_target, entropy_control=self.ec,
                      **self.common(start, total, eps, seed))
        return r.global_step

    def partial(self):
        from functools import partial

        from rl_blox.algorithm.sac import train_sac

        c, s = self.cfg, self.s
        return partial(train_sac, policy=s.policy, policy_optimizer=s.policy_optimizer, q=s.q,
                       q_optimizer=s.q_optimizer, batch_size=c["batch_size"],
                       policy_delay=c["policy_delay"], q_target=self.q_target,
                       entropy_control=self.ec)


class TD7(Adapter):
    name = "train_td7"

    def setup(self, env):
        from flax import nnx
        from rl_blox.algorithm.td7 import create_td7_state
        from rl_blox.blox.replay_buffer import LAP

        c = self.cfg
        s = create_td7_state(env, n_embedding_dimensions=4, state_embedding_hidden_nodes=TINY,
                             state_action_embedding_hidden_nodes=TINY, policy_sa_encoding_nodes=4,
                             policy_hidden_nodes=TINY, q_sa_encoding_nodes=4, q_hidden_nodes=TINY,
                             seed=c["net_seed"])
        self.s = s
        self.rb = LAP(c["buffer_size"])
        self.actor_target = nnx.clone(s.actor)
        self.critic_target = nnx.clone(s.critic)
        self.tracked = [s.embedding, s.actor, s.critic, s.embedding_optimizer, s.actor_optimizer,
                        s.critic_optimizer]

    def kwargs(self):
        c = self.cfg
        return dict(batch_size=c["batch_size"], policy_delay=c["policy_delay"],
                    target_delay=c.get("target_delay", 3),
                    use_checkpoints=bool(c.get("use_checkpoints", False)),
                    max_episodes_when_checkpointing=2, steps_before_checkpointing=10**6,
                    actor_target=self.actor_target, critic_target=self.critic_target)

    def call(self, env, start, total, eps, seed):
        from rl_blox.algorithm.td7 import train_td7

        s = self.s
        r = train_td7(env, s.embedding, s.embedding_optimizer, s.actor, s.actor_optimizer,
                      s.critic, s.critic_optimizer, replay_buffer=self.rb, **self.kwargs(),
                      **self.common(start, total, eps, seed))
        return r.global_step

    def partial(self):
        from functools import partial

        from rl_blox.algorithm.td7 import train_td7

        s = self.s
        return partial(train_td7, embedding=s.embedding, embedding_optimizer=s.embedding_optimizer,
                       actor=s.actor, actor_optimizer=s.actor_optimizer, critic=s.critic,
                       critic_optimizer=s.critic_optimizer, **self.kwargs())


class MRQ(Adapter):
    name = "train_mrq"

    def setup(self, env):
        from flax import nnx
        from rl_blox.algorithm.mrq import create_mrq_state
        from rl_blox.blox.replay_buffer import SubtrajectoryReplayBufferPER

        c = self.cfg
        s = create_mrq_state(env, policy_hidden_nodes=TINY, q_hidden_nodes=TINY, encoder_n_bins=5,
                             encoder_zs_dim=4, encoder_za_dim=4, encoder_zsa_dim=4,
                             encoder_hidden_nodes=TINY, seed=c["net_seed"])
        self.s = s
        self.rb = SubtrajectoryReplayBufferPER(c["buffer_size"], horizon=2)
        self.pe_target = nnx.clone(s.policy_with_encoder)
        self.q_target = nnx.clone(s.q)
        self.tracked = [s.policy_with_encoder, s.q, s.encoder_optimizer, s.policy_optimizer,
                        s.q_optimizer]

    def kwargs(self):
        c = self.cfg
        return dict(batch_size=c["batch_size"], target_delay=c.get("target_delay", 3),
                    encoder_horizon=2, q_horizon=2,
                    policy_with_encoder_target=self.pe_target, q_target=self.q_target)

    def call(self, env, start, total, eps, seed):
        from rl_blox.algorithm.mrq import train_mrq

        s = self.s
        r = train_mrq(env, s.policy_with_encoder, s.encoder_optimizer, s.policy_optimizer, s.q,
                      s.q_optimizer, s.the_bins, replay_buffer=self.rb, **self.kwargs(),
                      **self.common(start, total, eps, seed))
        return r.global_step

    def partial(self):
        from functools import partial

        from rl_blox.algorithm.mrq import train_mrq

        s = self.s
        return partial(train_mrq, policy_with_encoder=s.policy_with_encoder,
                       encoder_optimizer=s.encoder_optimizer, policy_optimizer=s.policy_optimizer,
                       q=s.q, q_optimizer=s.q_optimizer, the_bins=s.the_bins, **self.kwargs())


class PETS(Adapter):
    name = "train_pets"
    has_start = False
    has_eps = False
    has_counter = False

    def setup(self, env):
        from rl_blox.algorithm.pets import create_pets_state
        from rl_blox.blox.replay_buffer import ReplayBuffer

        c = self.cfg
        self.dm = create_pets_state(env, seed=c["net_seed"], n_ensemble=2, hidden_nodes=TINY,
                                    batch_size=4)
        self.rb = ReplayBuffer(c["buffer_size"])
        self.tracked = [self.dm.model, self.dm.optimizer]

    def call(self, env, start, total, eps, seed):
        import jax.numpy as jnp
        from rl_blox.algorithm.pets import train_pets

        c = self.cfg

        def reward_model(act, obs):
            return -jnp.sum(jnp.asarray(act) ** 2, axis=-1)

        train_pets(env, reward_model, self.dm, plan_horizon=2, n_particles=2, n_samples=10,
                   n_opt_iter=1, learning_starts_gradient_steps=1,
                   n_steps_per_iteration=c.get("n_steps_per_iteration", 3), gradient_steps=1,
                   replay_buffer=self.rb, **self.common(start, total, eps, seed))
        return None


class NatureDQNBackbone(NatureDQN):
    """Only used as a train_st backbone."""

    def partial(self):
        from functools import partial

        c = self.cfg
        return partial(self.fn(), self.q, replay_buffer=self.rb, optimizer=self.opt,
                       batch_size=c["batch_size"], update_frequency=c["update_frequency"],
                       target_update_frequency=c["target_update_frequency"])


ADAPTERS = {a.name: a for a in (DQN, NatureDQN, DDQN, DDQNPER, DDPG, TD3, TD3LAP, SAC, TD7, MRQ, PETS)}


# ------------------------------------------------------------------- loggers

def make_logger(kind, pre_episodes=0):
    """Logger object for a history: ``"memory"`` = rl_blox.logging.logger.MemoryLogger, ``"snapshot"`` = the
    recording logger of vlib.instruments (no module snapshots), None = no logger.  ``pre_episodes`` episodes
    (of 3 steps each) are registered before it is handed out: a logger that was already used by an earlier run."""
    if not kind:
        return None
    if kind == "memory":
        from rl_blox.logging.logger import MemoryLogger

        lg = MemoryLogger()
    elif kind == "snapshot":
        from .instruments import make_snapshot_logger

        lg = make_snapshot_logger(snapshot=False)
    else:
        raise KeyError(kind)
    for _ in range(int(pre_episodes)):
        lg.start_new_episode()
        lg.stop_episode(3)
    return lg


def steps_for_episodes(script, first_episode, k):
    """Environment steps of the next ``k`` scripted episodes starting with episode ``first_episode``."""
    return sum(episode_length(script, first_episode + i) for i in range(int(k)))


# ---------------------------------------------------------------- stub backbone

StubResult = namedtuple("StubResult", ["global_step", "calls"])


class StubBackbone:
    """A train_st that follows the contract stated in the train_smt /
    train_active_mt docstrings: it starts a new episode with ``env.reset``,
    executes environment steps while ``global_step < total_timesteps``, stops
    after ``total_episodes`` finished episodes and reports
    ``global_step = start + executed``.  It stores every transition in the
    replay buffer it is given."""

    def __init__(self):
        self.calls = []

    def __call__(self, env, learning_starts=0, total_timesteps=0, total_episodes=None,
                 replay_buffer=None, seed=0, logger=None, global_step=0, progress_bar=False,
                 bar=None, **extra):
        rec = {"start": int(global_step), "total": int(total_timesteps),
               "total_episodes": total_episodes, "learning_starts": learning_starts,
               "seed": int(seed), "extra": sorted(extra), "executed": 0}
        self.calls.append(rec)
        step = int(global_step)
        obs, _ = env.reset(seed=int(seed))
        episodes = 0
        while step < total_timesteps:
            action = env.action_space.sample()
            nobs, r, term, trunc, _ = env.step(action)
            if replay_buffer is not None:
                replay_buffer.add_sample(observation=obs, action=action, reward=r,
                                         next_observation=nobs, termination=term)
            step += 1
            rec["executed"] += 1
            if term or trunc:
                episodes += 1
                if total_episodes is not None and episodes >= total_episodes:
                    break
                obs, _ = env.reset()
            else:
                obs = nobs
        return StubResult(step, len(self.calls))


# ------------------------------------------------------------------- task sets

def make_task_set(kind, scripts, seed, space, cap, context_aware=False):
    """kind = 'discrete': DiscreteTaskSet over ONE scripted env (the context
    setter records the current task on the env, every logged step carries it);
    kind = 'vector': SyncVectorEnv with one scripted env per task.
    Returns (task_set, log, n_tasks, step_task(ev))."""
    log = EnvLog()
    n = len(scripts)
    if kind == "discrete":
        from rl_blox.blox.multitask import DiscreteTaskSet

        env = CappedEnv(scripts[0], seed=seed, action_space=space, log=log, step_cap=cap)
        contexts = np.arange(n, dtype=np.float32)[:, None] + 0.5

        def set_context(e, ctx):
            e.unwrapped.current_task = int(math.floor(float(np.ravel(ctx)[0])))

        ts = DiscreteTaskSet(env, set_context, contexts, context_aware=context_aware)
        return ts, log, n, (lambda ev: ev["task"]), [env]
    from gymnasium.vector import SyncVectorEnv

    subs = []

    def mk(i):
        def f():
            e = CappedEnv(scripts[i], seed=seed + i, action_space=space, log=log, env_id=i,
                          step_cap=cap)
            e.current_task = i
            subs.append(e)
            return e
        return f

    venv = SyncVectorEnv([mk(i) for i in range(n)])
    return venv, log, n, (lambda ev: ev["env"]), subs


# ------------------------------------------------------------- DUCB reference

def ducb_reference(arms, rewards, n_arms, gamma, zeta, bound, window=250):
    """Float64 discounted-UCB index of every arm given the history
    (arms[s], rewards[s]) for s < t.  Arms without discounted weight inside
    the window get +inf."""
    t = len(arms)
    lo = max(0, t - window)
    N = np.zeros(n_arms, dtype=np.float64)
    S = np.zeros(n_arms, dtype=np.float64)
    w = 1.0
    for s in range(t - 1, lo - 1, -1):  # newest first: weight gamma^(t-1-s)
        a = arms[s]
        N[a] += w
        S[a] += w * float(rewards[s])
        w *= gamma
    n_tot = float(N.sum())
    U = np.full(n_arms, np.inf)
    for i in range(n_arms):
        if N[i] > 0.0:
            U[i] = S[i] / N[i] + 2.0 * bound * math.sqrt(max(0.0, zeta * math.log(n_tot)) / N[i])
    return U, N


# ------------------------------------------------- batch collectors / vector

def pg_state(env, discrete, seed):
    from rl_blox.algorithm.reinforce import (
        create_policy_gradient_continuous_state,
        create_policy_gradient_discrete_state,
    )

    if discrete:
        return create_policy_gradient_discrete_state(env, policy_hidden_nodes=TINY,
                                                     value_network_hidden_nodes=TINY, seed=seed)
    return create_policy_gradient_continuous_state(env, policy_hidden_nodes=TINY,
                                                   value_network_hidden_nodes=TINY, seed=seed)


def collections_from_lengths(lengths, steps_per_update, train_after_episode):
    """Group consecutive episode lengths into collections: a collection ends
    at the first episode end at which it holds >= steps_per_update samples
    (or after every episode).  Returns the list of collection sizes; a
    trailing incomplete collection is included."""
    out, cur = [], 0
    for L in lengths:
        cur += L
        if train_after_episode or cur >= steps_per_update:
            out.append(cur)
            cur = 0
    if cur:
        out.append(cur)
    return out


class CountingVector(gym.vector.VectorWrapper):
    """Counts vector-level step calls."""

    def __init__(self, env):
        super().__init__(env)
        self.n_vector_steps = 0

    def step(self, actions):
        self.n_vector_steps += 1
        return self.env.step(actions)


def make_capped_vector(scripts, seed, space_fn, autoreset, cap, on_step=None):
    from gymnasium.vector import AutoresetMode, SyncVectorEnv

    log = EnvLog()
    subs = []

    def mk(i):
        def f():
            e = CappedEnv(scripts[i], seed=seed + i, action_space=space_fn(), log=log, env_id=i,
                          step_cap=cap, on_step=on_step if i == 0 else None)
            subs.append(e)
            return e
        return f

    mode = {"same_step": AutoresetMode.SAME_STEP, "next_step": AutoresetMode.NEXT_STEP}[autoreset]
    venv = SyncVectorEnv([mk(i) for i in range(len(scripts))], autoreset_mode=mode)
    return CountingVector(venv), log, subs
