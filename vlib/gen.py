"""Small generator helpers shared by the property modules."""
from __future__ import annotations

import numpy as np
from hypothesis import strategies as st


def tier():
    import os

    return os.environ.get("VERIF_TIER", "quick")


def f32(lo=None, hi=None, **kw):
    """Finite float32-representable floats in [lo, hi]."""
    if lo is not None:
        lo = float(np.float32(lo)) if float(np.float32(lo)) >= lo else float(np.nextafter(np.float32(lo), np.float32(np.inf)))
    if hi is not None:
        hi = float(np.float32(hi)) if float(np.float32(hi)) <= hi else float(np.nextafter(np.float32(hi), np.float32(-np.inf)))
    kw.setdefault("allow_nan", False)
    kw.setdefault("allow_infinity", False)
    kw.setdefault("allow_subnormal", False)  # XLA CPU flushes denormals to zero
    return st.floats(min_value=lo, max_value=hi, width=32, **kw)


def seeds():
    """Integer seeds.  Every shard offsets them by its own salt: Hypothesis starts each run with the
    simplest example (0), which would otherwise make every shard begin with the same case."""
    import os

    salt = int(os.environ.get("VERIF_SHARD_SALT", "0")) % (2**31 - 1)
    return st.integers(0, 2**31 - 2).map(lambda z: (z + salt) % (2**31 - 1))


def gammas():
    return st.one_of(st.sampled_from([0.0, 1.0, 0.99, 0.9, 0.5]), f32(0.0, 1.0))


def values(mag=1e3):
    """Reward/value-like numbers: zero, small, +-mag."""
    return st.one_of(st.just(0.0), f32(-mag, mag), f32(-1.0, 1.0),
                     st.sampled_from([1.0, -1.0, mag, -mag]))


def flags(n, pattern=None):
    """0/1 list of length n with patterns none / all / single / random."""
    return st.one_of(
        st.just([0] * n),
        st.just([1] * n),
        st.integers(0, max(0, n - 1)).map(lambda i: [1 if j == i else 0 for j in range(n)]),
        st.integers(0, max(0, n - 1)).map(lambda i: [0 if j == i else 1 for j in range(n)]),
        st.lists(st.integers(0, 1), min_size=n, max_size=n),
        st.lists(st.integers(0, 1), min_size=n, max_size=n),
    )


def arr(x, dtype=np.float32):
    return np.asarray(x, dtype=dtype)


def rng_array(seed, shape, scale=1.0, dtype=np.float32):
    """Deterministic pseudo-random array from a drawn integer seed (values in
    the case stay small; the array itself is a pure function of the case)."""
    r = np.random.default_rng(int(seed))
    return (r.standard_normal(shape) * scale).astype(dtype)
