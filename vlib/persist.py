"""Helpers shared by C19 (save / reload) and C20 (loggers and checkpoints).

* ``fresh_dir``       -- per-case scratch directory, always removed
* ``build_module``    -- every function-approximator architecture of the repo
                         from a small JSON spec
* ``set_state``       -- overwrite every variable of a module with values that
                         are a pure function of (seed, scale, specials)
* ``module_outputs``  -- the outputs of a module's documented entry points on
                         inputs generated from a seed
* ``restore_*``       -- the two documented ways to read an Orbax checkpoint
"""
from __future__ import annotations

import contextlib
import os
import shutil
import tempfile
import warnings

import numpy as np

from . import gen
from .instruments import state_bytes

ARCHS = [
    "mlp", "layer_norm_mlp", "gaussian_mlp", "det_tanh_policy", "gauss_tanh_policy",
    "gauss_policy", "softmax_policy", "double_q", "sale", "actor_sale", "sale_policy",
    "critic_sale", "mb_encoder", "policy_with_encoder", "ensemble", "mt_q", "mt_encoder",
]

# values placed into parameters besides the pseudo-random ones: signed zero,
# a float32 subnormal, the largest finite float32, a tiny normal
SPECIALS = [0.0, -0.0, 1e-45, -1e-45, 3.4028234663852886e38, -3.4028234663852886e38, 1.1754943508222875e-38]


@contextlib.contextmanager
def fresh_dir(prefix="verif_case_"):
    """A fresh tempfile.mkdtemp() directory, removed when the case ends."""
    d = tempfile.mkdtemp(prefix=prefix)
    try:
        yield d
    finally:
        shutil.rmtree(d, ignore_errors=True)


@contextlib.contextmanager
def quiet():
    with warnings.catch_warnings():
        warnings.simplefilter("ignore")
        yield


def _box(n, variant):
    import gymnasium as gym

    low = np.asarray([-(1.0 + 0.5 * variant + 0.25 * i) for i in range(n)], dtype=np.float32)
    high = np.asarray([2.0 + variant + 0.125 * i for i in range(n)], dtype=np.float32)
    return gym.spaces.Box(low=low, high=high, dtype=np.float32)


def build_module(spec, seed, variant=0):
    """Construct the architecture ``spec['arch']``.  ``variant`` changes
    everything that is not a parameter drawn from ``seed`` but still part of
    the saved state (action-space scale / bias variables)."""
    from flax import nnx

    from rl_blox.blox.double_qnet import ContinuousClippedDoubleQNet
    from rl_blox.blox.embedding.model_based_encoder import (
        ModelBasedEncoder,
        create_model_based_encoder_and_policy,
    )
    from rl_blox.blox.embedding.sale import SALE, ActorSALE, CriticSALE, DeterministicSALEPolicy
    from rl_blox.blox.embedding.task_embedding import ModelBasedMTEncoder, MTMLPQNetwork
    from rl_blox.blox.function_approximator.gaussian_mlp import GaussianMLP
    from rl_blox.blox.function_approximator.layer_norm_mlp import LayerNormMLP
    from rl_blox.blox.function_approximator.mlp import MLP
    from rl_blox.blox.function_approximator.policy_head import (
        DeterministicTanhPolicy,
        GaussianPolicy,
        GaussianTanhPolicy,
        SoftmaxPolicy,
    )
    from rl_blox.blox.probabilistic_ensemble import GaussianMLPEnsemble

    a = spec["arch"]
    obs, act, hid, fn = spec["obs"], spec["act"], list(spec["hidden"]), spec["activation"]
    flag, n = bool(spec["flag"]), int(spec["n"])
    z = n + 1  # embedding width
    rngs = nnx.Rngs(int(seed))
    if a == "mlp":
        return MLP(obs, act, hid, fn, rngs)
    if a == "layer_norm_mlp":
        return LayerNormMLP(obs, act, hid, fn, rngs)
    if a == "gaussian_mlp":
        return GaussianMLP(flag, obs, act, hid, fn, rngs)
    if a == "det_tanh_policy":
        return DeterministicTanhPolicy(MLP(obs, act, hid, fn, rngs), _box(act, variant))
    if a == "gauss_tanh_policy":
        return GaussianTanhPolicy(GaussianMLP(flag, obs, act, hid, fn, rngs), _box(act, variant))
    if a == "gauss_policy":
        return GaussianPolicy(GaussianMLP(flag, obs, act, hid, fn, rngs))
    if a == "softmax_policy":
        return SoftmaxPolicy(MLP(obs, n + 1, hid, fn, rngs))
    if a == "double_q":
        return ContinuousClippedDoubleQNet(MLP(obs + act, 1, hid, fn, rngs), MLP(obs + act, 1, hid, fn, rngs))
    if a in ("sale", "actor_sale", "sale_policy", "critic_sale"):
        sale = SALE(MLP(obs, z, hid, fn, rngs), MLP(z + act, z, hid, fn, rngs))
        if a == "sale":
            return sale
        if a in ("actor_sale", "sale_policy"):
            pol = DeterministicTanhPolicy(MLP(n + z, act, hid, fn, rngs), _box(act, variant))
            actor = ActorSALE(pol, obs, n, rngs)
            return actor if a == "actor_sale" else DeterministicSALEPolicy(sale, actor)
        c1 = CriticSALE(MLP(n + 2 * z, 1, hid, fn, rngs), obs, act, n, rngs)
        c2 = CriticSALE(MLP(n + 2 * z, 1, hid, fn, rngs), obs, act, n, rngs)
        return ContinuousClippedDoubleQNet(c1, c2)
    if a == "mb_encoder":
        return ModelBasedEncoder(
            n_state_features=obs, n_action_features=act, n_bins=5, zs_dim=z, za_dim=n, zsa_dim=z + 1,
            hidden_nodes=hid, activation=fn, encoder_activation_in_last_layer=flag, rngs=rngs)
    if a == "policy_with_encoder":
        return create_model_based_encoder_and_policy(
            n_state_features=obs, n_action_features=act, action_space=_box(act, variant),
            policy_hidden_nodes=hid, policy_activation="relu", encoder_n_bins=5, encoder_zs_dim=z,
            encoder_za_dim=n, encoder_zsa_dim=z + 1, encoder_hidden_nodes=hid, encoder_activation=fn,
            encoder_activation_in_last_layer=flag, rngs=rngs)
    if a == "ensemble":
        return GaussianMLPEnsemble(n, flag, obs, act, hid, fn, rngs)
    if a == "mt_q":
        m = MTMLPQNetwork(n_tasks=n + 1, task_embedding_dim=2, n_features=obs, n_outputs=act,
                          hidden_nodes=hid, activation=fn, rngs=rngs)
        m.select_task(int(spec.get("task", 0)) % (n + 1))
        return m
    if a == "mt_encoder":
        m = ModelBasedMTEncoder(
            n_tasks=n + 1, task_embedding_dim=2, n_state_features=obs, n_action_features=act, n_bins=5,
            zs_dim=z, za_dim=n, zsa_dim=z + 1, hidden_nodes=hid, activation=fn, rngs=rngs)
        m.select_task(int(spec.get("task", 0)) % (n + 1))
        return m
    raise ValueError(a)


def set_state(module, seed, scale=1.0, specials=()):
    """Overwrite every floating-point variable of ``module`` (parameters and
    other nnx.Variables alike) with pseudo-random values; ``specials`` is a
    list of [leaf number, flat position, index into SPECIALS]."""
    import jax
    import jax.numpy as jnp
    from flax import nnx

    state = nnx.state(module)
    leaves, treedef = jax.tree_util.tree_flatten(state)
    new = []
    by_leaf = {}
    for s in specials:
        by_leaf.setdefault(int(s[0]) % max(1, len(leaves)), []).append(s)
    for i, leaf in enumerate(leaves):
        a = np.asarray(leaf)
        if a.dtype.kind != "f":
            new.append(leaf)
            continue
        v = gen.rng_array(int(seed) + 7919 * (i + 1), a.shape, scale, dtype=a.dtype)
        flat = v.reshape(-1)
        for s in by_leaf.get(i, []):
            if flat.size:
                flat[int(s[1]) % flat.size] = SPECIALS[int(s[2]) % len(SPECIALS)]
        new.append(jnp.asarray(flat.reshape(a.shape)))
    nnx.update(module, jax.tree_util.tree_unflatten(treedef, new))


def module_outputs(module, spec, input_seed, batch):
    """Outputs of the documented entry points on inputs generated from
    ``input_seed``; a flat list of (name, numpy array)."""
    import jax
    import jax.numpy as jnp

    a = spec["arch"]
    obs_d, act_d, n = spec["obs"], spec["act"], int(spec["n"])
    z = n + 1
    shape = lambda d: (d,) if batch == 0 else (batch, d)  # noqa: E731
    bshape = lambda d: (max(1, batch), d)  # noqa: E731
    x = jnp.asarray(gen.rng_array(input_seed, shape(obs_d), 1.0))
    xb = jnp.asarray(gen.rng_array(input_seed, bshape(obs_d), 1.0))
    u = jnp.asarray(gen.rng_array(input_seed + 1, shape(act_d), 1.0))
    ub = jnp.asarray(gen.rng_array(input_seed + 1, bshape(act_d), 1.0))
    key = jax.random.key(int(input_seed) % (2**31))
    res = {}
    if a in ("mlp", "layer_norm_mlp", "det_tanh_policy", "sale_policy", "policy_with_encoder", "mt_q"):
        res["call"] = module(x if a not in ("policy_with_encoder",) else xb)
    elif a == "gaussian_mlp":
        res["call"] = module(x)
    elif a == "gauss_tanh_policy":
        res["call"] = module(x)
        res["sample"] = module.sample(x, key)
        res["log_prob"] = module.log_probability(x, u)
    elif a == "gauss_policy":
        res["call"] = module(x)
        res["sample"] = module.sample(x, key)
        res["log_prob"] = module.log_probability(x, u)
    elif a == "softmax_policy":
        res["call"] = module(x)
        res["logits"] = module.logits(x)
        acts = jnp.asarray(np.arange(max(1, batch)) % (n + 1)) if batch else jnp.asarray(0)
        res["log_prob"] = module.log_probability(x, acts)
    elif a == "double_q":
        sa = jnp.concatenate((x, u), axis=-1)
        res["call"] = module(sa)
        res["mean"] = module.mean(sa)
    elif a == "sale":
        res["call"] = module(x, u)
        res["zs"] = module.state_embedding(x)
    elif a == "actor_sale":
        zs = jnp.asarray(gen.rng_array(input_seed + 2, shape(z), 1.0))
        res["call"] = module(x, zs)
    elif a == "critic_sale":
        sa = jnp.concatenate((x, u), axis=-1)
        zs = jnp.asarray(gen.rng_array(input_seed + 2, shape(z), 1.0))
        zsa = jnp.asarray(gen.rng_array(input_seed + 3, shape(z), 1.0))
        res["call"] = module(sa, zsa, zs)
        res["mean"] = module.mean(sa, zsa, zs)
    elif a in ("mb_encoder", "mt_encoder"):
        zs = module.encode_zs(xb)
        res["zs"] = zs
        res["zsa"] = module.encode_zsa(zs, ub)
        res["model_head"] = module.model_head(zs, ub)
    elif a == "ensemble":
        res["call"] = module(xb)
        res["aggregate"] = module.aggregate(xb)
    else:
        raise ValueError(a)
    flat = []
    for name in sorted(res):
        for i, leaf in enumerate(jax.tree_util.tree_leaves(res[name])):
            flat.append((f"{name}[{i}]", np.asarray(leaf)))
    return flat


def same_arrays(a, b):
    """Same dtype, shape and values (bitwise, or equal with NaN == NaN)."""
    a = np.asarray(a)
    b = np.asarray(b)
    if a.dtype != b.dtype or a.shape != b.shape:
        return False
    if a.tobytes() == b.tobytes():
        return True
    try:
        return bool(np.array_equal(a, b, equal_nan=True))
    except TypeError:
        return bool(np.array_equal(a, b))


def diff_outputs(o1, o2):
    if [n for n, _ in o1] != [n for n, _ in o2]:
        return ["<structure>"]
    return [n for (n, x), (_, y) in zip(o1, o2) if not same_arrays(x, y)]


def restore_with_helper(path, template):
    """Documented restore path 1: rl_blox' own ``restore_checkpoint``."""
    from rl_blox.blox.probabilistic_ensemble import restore_checkpoint

    with quiet():
        return restore_checkpoint(path, template)


def restore_with_orbax(path, template):
    """Documented restore path 2: Orbax StandardCheckpointer.restore with the
    template's state as target, merged into the template's graph."""
    import orbax.checkpoint as ocp
    from flax import nnx

    with quiet():
        graphdef, target = nnx.split(template)
        cp = ocp.StandardCheckpointer()
        try:
            state = cp.restore(path, target)
        finally:
            cp.close()
        return nnx.merge(graphdef, state)


def snapshot(module):
    return state_bytes(module)
